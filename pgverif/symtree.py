"""S->C replay of SymTree.tla behaviours through the real pg.Dict / pg.List / pg.Object.

The spec is the oracle: after every action the implementation state is projected onto the
spec variables (content, parent, position, flags, events, outcome) and compared clause by
clause.  New spec nodes are bound to Python objects *by position* (identity binding rule).
"""
from __future__ import annotations

import copy
from typing import Any, Dict, List, Optional, Set

import pyglove as pg

MISSING = 98
PNONE = 99
INS = 5000
DKEYS = {1: 'a', 2: 'b.c', 3: 'c'}      # keys of schemaless dicts: one of them contains a dot (it is ONE key, not a path)
SDKEYS = {1: 'a', 2: 'b'}                # the fixed keys of the schema dicts
OKEYS = {1: 'x', 2: 'y'}


class A(pg.Object):
  """Test class: two Any fields, accessor assignment allowed, subscribes to changes."""
  x: Any = None
  y: Any = None
  allow_symbolic_assignment = True

  def _on_change(self, field_updates):
    _record_event(self, field_updates)


class B(pg.Object):
  """Test class with a required field (no default): created with B.partial()."""
  z: Any
  w: Any = None
  allow_symbolic_assignment = True

  def _on_change(self, field_updates):
    _record_event(self, field_updates)


class C(pg.Object):
  """Test class with an object-typed field that has a default object."""
  m: A = A()
  w: Any = None
  allow_symbolic_assignment = True

  def _on_change(self, field_updates):
    _record_event(self, field_updates)


class D(A):
  """Test class whose instances are born sealed."""
  allow_symbolic_mutation = False


OKEYS_B = {1: 'z', 2: 'w'}
OKEYS_C = {1: 'm', 2: 'w'}
PH = 150
RF = 160
TB = 170      # a tuple leaf that holds a symbolic dict inside a nested tuple: ((pg.Dict(q=1), 7),)
SHARED = ['shared', 'plain', 'list']      # the non-symbolic object every pg.Ref leaf points at


def keymap(o):
  if isinstance(o, A):
    return OKEYS
  if isinstance(o, B):
    return OKEYS_B
  if isinstance(o, C):
    return OKEYS_C
  if isinstance(o, pg.Dict) and o.value_spec is not None and o.value_spec.schema is not None and 'b' in [
      str(k) for k in o.value_spec.schema.keys()]:
    return SDKEYS
  return DKEYS


TDICT_SPEC = pg.typing.Dict([(pg.typing.StrKey(), pg.typing.Any())])
# "sd3" / "sd2" / "sd1": three nested schema dicts with fixed keys and defaults (what an object's attribute container is)
SD1_SPEC = pg.typing.Dict([('a', pg.typing.Any(default=None)), ('b', pg.typing.Any(default=None))])     # keys: SDKEYS
SD2_SPEC = pg.typing.Dict([('a', SD1_SPEC), ('b', pg.typing.Any(default=None))])
SD3_SPEC = pg.typing.Dict([('a', SD2_SPEC), ('b', pg.typing.Any(default=None))])
SD_SPECS = {'sd3': SD3_SPEC, 'sd2': SD2_SPEC, 'sd1': SD1_SPEC}
# "tlist": symbolic members only, never empty: a leaf or a plain container is rejected (TypeError), so is emptying it (ValueError)
TLIST_SPEC = pg.typing.List(pg.typing.Object(pg.Symbolic), min_size=1)


_EVENT_SINK: Optional[List] = None


def _record_event(recv, field_updates):
  """Records one delivered event.  For callbacks (which a clone shares with its original) the
  receiver is recovered from the event itself: it is the ancestor-or-self of the update's target
  whose path is the update's absolute path minus the reported relative path."""
  if _EVENT_SINK is None:
    return
  if recv is None and field_updates:
    rel, upd = next(iter(field_updates.items()))
    want_len = len(upd.path) - len(rel)
    recv = upd.target
    while recv is not None and len(recv.sym_path) > want_len:
      recv = recv.sym_parent
  _EVENT_SINK.append((recv, dict(field_updates)))


def _make_cb(holder):
  del holder
  def cb(field_updates):
    _record_event(None, field_updates)
  return cb


def new_root(kind: str):
  holder = [None]
  if kind == 'dict':
    o = pg.Dict(onchange_callback=_make_cb(holder))
  elif kind == 'tdict':
    o = pg.Dict(value_spec=TDICT_SPEC, onchange_callback=_make_cb(holder))
  elif kind == 'list':
    o = pg.List(onchange_callback=_make_cb(holder))
  elif kind == 'tlist':         # never empty: starts with one A() member
    o = pg.List([A()], value_spec=TLIST_SPEC, onchange_callback=_make_cb(holder))
  elif kind == 'obj':
    o = A()
  elif kind == 'objb':
    o = B.partial()
  elif kind == 'objc':
    o = C()
  elif kind == 'sd3':
    o = pg.Dict(value_spec=SD3_SPEC, onchange_callback=_make_cb(holder))
  else:
    raise ValueError(kind)
  holder[0] = o
  return o


def exc_class(e: BaseException) -> str:
  if isinstance(e, pg.WritePermissionError):
    return 'WPE'
  for c in (IndexError, KeyError, ValueError, TypeError, AttributeError):
    if isinstance(e, c):
      return c.__name__
  return type(e).__name__


class Divergence(Exception):

  def __init__(self, clause, detail):
    super().__init__(clause)
    self.clause = clause
    self.detail = detail


class Replayer:
  """Replays one behaviour."""

  def __init__(self, clauses: Set[str], facts_policy: str = 'all'):
    self.clauses = clauses          # clauses this property compares
    # which nodes' derived facts are READ (and compared) after a call -- reading fills the memos, so the policy decides
    # which memo patterns exist when the next write has to invalidate them:
    #   'all'   every live node after every call;  'roots'  only the roots after every call;
    #   'model' only the node named by a ReadFacts step of the behaviour
    # optionally followed by ':nd' / ':missing' / ':pure' to read only that one fact (a fact computed without asking the
    # members leaves the members' memos empty)
    self.facts_policy, _, self.facts_which = facts_policy.partition(':')
    self.obj: Dict[int, Any] = {}
    self.scopes: List[Any] = []     # entered context managers (stack, per family)
    self.sstack: List[Any] = []
    self.astack: List[Any] = []
    self.nstack: List[Any] = []
    self.events: List = []
    self.hits: Dict[str, int] = {}

  def hit(self, k):
    self.hits[k] = self.hits.get(k, 0) + 1

  # ---- value conversion ----------------------------------------------------
  def key_of(self, n: int, k: int):
    if k >= 1000:
      return k - 1000
    o = self.obj[n]
    return keymap(o)[k]

  def vd(self, v: int):
    if v >= INS:
      return pg.Insertion(self.vd(v - INS))
    if v == MISSING:
      return pg.MISSING_VALUE
    if v == PNONE:
      return None
    if v == 200:
      return {}
    if v == 201:
      return {'a': 101}
    if v == 210:
      return []
    if v == 211:
      return [{}]
    if v == PH:
      return pg.oneof([1, 2])
    if v == RF:
      return pg.Ref(SHARED)
    if v == TB:
      return ((pg.Dict(q=1), 7),)
    if v == 221:
      with pg.allow_writable_accessors(None), pg.as_sealed(None):
        return B.partial()
    if v == 222:
      with pg.allow_writable_accessors(None), pg.as_sealed(None):
        return C()
    if v == 223:
      with pg.allow_writable_accessors(None), pg.as_sealed(None):
        return D()
    if v == 220:
      # building the argument is not the operation under test: keep it out of the scoped overrides
      with pg.allow_writable_accessors(None), pg.as_sealed(None):
        return A()
    if v in self.obj:
      return self.obj[v]
    if v >= 100:
      return v
    raise KeyError(f'unbound node {v}')

  # ---- executing one action --------------------------------------------------
  def execute(self, act: List[Any]):
    name, args = act[0], act[1:]
    fn = getattr(self, 'do_' + name)
    global _EVENT_SINK
    self.events = []
    _EVENT_SINK = self.events
    try:
      ret = fn(*args)
      return 'ok', ret
    except Exception as e:  # pylint: disable=broad-except
      return exc_class(e), e
    finally:
      _EVENT_SINK = None

  def do_DictSet(self, n, k, vd):
    o = self.obj[n]
    key = self.key_of(n, k)
    v = self.vd(vd)
    if isinstance(o, (A, B, C)):
      setattr(o, key, v)
    else:
      o[key] = v

  def do_DictDel(self, n, k):
    del self.obj[n][self.key_of(n, k)]

  def do_DictPop(self, n, k, has_default):
    if has_default:
      return self.obj[n].pop(self.key_of(n, k), None)
    return self.obj[n].pop(self.key_of(n, k))

  def do_DictPopItem(self, n):
    return self.obj[n].popitem()[1]

  def do_DictClear(self, n):
    self.obj[n].clear()

  def do_DictSetDefault(self, n, k, vd):
    return self.obj[n].setdefault(self.key_of(n, k), self.vd(vd))

  def do_DictUpdate(self, n, kvs, inplace_or):
    d = {self.key_of(n, k): self.vd(v) for k, v in kvs}
    o = self.obj[n]
    if inplace_or:
      o |= d
      if o is not self.obj[n]:
        raise Divergence('bind', 'd |= x rebound the name to a different object')
    else:
      # dict.update accepts a mapping, keyword arguments, or both in one call: alternate the three forms
      self._upd_count = getattr(self, '_upd_count', 0) + 1
      items = list(d.items())
      if self._upd_count % 3 == 1 and len(items) == 2:
        o.update({items[0][0]: items[0][1]}, **{items[1][0]: items[1][1]})
      elif self._upd_count % 3 == 2:
        o.update(**d)
      else:
        o.update(d)

  def do_ListSet(self, n, i, vd):
    self.obj[n][i] = self.vd(vd)

  def do_ListDel(self, n, i):
    del self.obj[n][i]

  def do_ListAppend(self, n, vd):
    self.obj[n].append(self.vd(vd))

  def do_ListInsert(self, n, i, vd):
    self.obj[n].insert(i, self.vd(vd))

  def do_ListExtend(self, n, vds, inplace_add):
    vals = [self.vd(v) for v in vds]
    o = self.obj[n]
    if inplace_add:
      o += vals
      if o is not self.obj[n]:
        raise Divergence('bind', 'l += x rebound the name to a different object')
    else:
      o.extend(vals)

  def do_ListPop(self, n, i):
    return self.obj[n].pop(i)

  def do_ListRemove(self, n, v):
    self.obj[n].remove(self.vd(v))

  def do_ListClear(self, n):
    self.obj[n].clear()

  def do_ListReverse(self, n):
    self.obj[n].reverse()

  def do_ListSort(self, n):
    self.obj[n].sort()

  def do_ListIMul(self, n, k):
    o = self.obj[n]
    o *= k
    if o is not self.obj[n]:
      raise Divergence('bind', 'l *= k rebound the name to a different object')

  @staticmethod
  def _b(x):
    return None if x == 9999 else x

  def do_ListSetSlice(self, n, a, b, c, vds):
    self.obj[n][self._b(a):self._b(b):self._b(c)] = [self.vd(v) for v in vds]

  def do_ListDelSlice(self, n, a, b, c):
    del self.obj[n][self._b(a):self._b(b):self._b(c)]

  def do_Rebind(self, n, pvs, notify_parents, skip):
    o = self.obj[n]
    d = {}
    for path, v in pvs:
      keys = []
      cur = o
      # translate key codes along the path: the holder kind decides the key vocabulary
      for kc in path:
        if kc >= 1000:
          keys.append(kc - 1000)
        else:
          keys.append(keymap(cur)[kc])
        try:
          cur = cur.sym_getattr(keys[-1]) if isinstance(cur, pg.Symbolic) else None
        except Exception:  # pylint: disable=broad-except
          cur = None
      d[pg.KeyPath(keys)] = self.vd(v)
    o.rebind(d, notify_parents=notify_parents, skip_notification=True if skip else None)

  def do_Construct(self, k, vds):
    vals = [self.vd(v) for v in vds]
    with pg.allow_writable_accessors(None), pg.as_sealed(None):
      if k == 'list':
        return pg.List(vals)
      if k == 'tlist':
        return pg.List(vals, value_spec=TLIST_SPEC)
      if k == 'dict':
        return pg.Dict({DKEYS[i + 1]: v for i, v in enumerate(vals)})
      return A(**{OKEYS[i + 1]: v for i, v in enumerate(vals)})

  def do_Clone(self, n, deep):
    # clone(deep), pg.clone and the copy module must coincide: one of them (alternating) is bound to the model, the
    # others are compared with it right away (same structure, same flags on every node, no shared symbolic node)
    self._clone_count = getattr(self, '_clone_count', 0) + 1
    o = self.obj[n]
    ways = [lambda: o.clone(deep=deep), lambda: (copy.deepcopy(o) if deep else copy.copy(o)),
            lambda: pg.clone(o, deep=deep)]
    k = self._clone_count % len(ways)
    primary = ways[k]()
    for j, w in enumerate(ways):
      if j == k:
        continue
      other = w()
      why = self._copies_differ(primary, other)
      if why:
        raise Divergence('flags' if 'flag' in why else 'content',
                         f'clone(deep={deep}) / copy.{"deepcopy" if deep else "copy"} / pg.clone do not coincide: {why}')
    if primary.sym_path:
      raise Divergence('path', f'a copy is a root of its own but reports sym_path {str(primary.sym_path)!r}')
    why = self._shares_symbolic(o, primary)      # deep and shallow clones both copy every symbolic container
    if why:
      raise Divergence('oneplace', f'clone(deep={deep}) shares a symbolic node with the original: {why}')
    return primary

  @classmethod
  def _copies_differ(cls, a, b, path='') -> Optional[str]:
    """Structural + flag comparison of two copies of one value (both are outside the model)."""
    if isinstance(a, pg.Symbolic) != isinstance(b, pg.Symbolic) or type(a) is not type(b):
      return f'{path}: {type(a).__name__} vs {type(b).__name__}'
    if isinstance(a, (pg.hyper.OneOf, pg.Ref)) or not isinstance(a, pg.Symbolic):
      if isinstance(a, tuple):
        if len(a) != len(b):
          return f'{path}: tuple lengths differ'
        for i, (x, y) in enumerate(zip(a, b)):
          why = cls._copies_differ(x, y, f'{path}({i})')
          if why:
            return why
        return None
      return None if pg.eq(a, b) else f'{path}: {a!r} vs {b!r}'
    if a is b:
      return f'{path}: one object in both copies'
    if bool(a.is_sealed) != bool(b.is_sealed):
      return f'{path}: sealed flag {a.is_sealed} vs {b.is_sealed}'
    if isinstance(a, (pg.Dict, pg.List)) and bool(a.accessor_writable) != bool(b.accessor_writable):
      return f'{path}: accessor_writable flag {a.accessor_writable} vs {b.accessor_writable}'
    if bool(a.allow_partial) != bool(b.allow_partial):
      return f'{path}: allow_partial flag {a.allow_partial} vs {b.allow_partial}'
    if isinstance(a, (pg.Dict, pg.List)) and (a.value_spec is None) != (b.value_spec is None):
      return f'{path}: value spec binding (flag) differs'
    ia, ib = list(a.sym_items()), list(b.sym_items())
    if [k for k, _ in ia] != [k for k, _ in ib]:
      return f'{path}: keys {[k for k, _ in ia]} vs {[k for k, _ in ib]}'
    for (k, x), (_, y) in zip(ia, ib):
      why = cls._copies_differ(x, y, f'{path}.{k}')
      if why:
        return why
    return None

  @classmethod
  def _shares_symbolic(cls, a, b, path='') -> Optional[str]:
    """A symbolic container reachable from both values (through symbolic members or tuples)."""
    if isinstance(a, (pg.hyper.OneOf, pg.Ref)):
      return None
    if isinstance(a, pg.Symbolic) and isinstance(b, pg.Symbolic):
      if a is b:
        return path or '<root>'
      for (k, x), (_, y) in zip(a.sym_items(), b.sym_items()):
        why = cls._shares_symbolic(x, y, f'{path}.{k}')
        if why:
          return why
    elif isinstance(a, tuple) and isinstance(b, tuple):
      for i, (x, y) in enumerate(zip(a, b)):
        why = cls._shares_symbolic(x, y, f'{path}({i})')
        if why:
          return why
    return None

  def do_JsonRoundTrip(self, n):
    return pg.from_json(pg.to_json(self.obj[n]), allow_partial=True)

  def do_Seal(self, n, b):
    self.obj[n].seal(b)

  def do_SetAccW(self, n, b):
    self.obj[n].set_accessor_writable(b)

  def do_Forget(self, n):
    pass

  @staticmethod
  def _tri(a):
    return {'T': True, 'F': False, 'N': None}[a]

  def _enter(self, stack, cm):
    cm.__enter__()
    stack.append(cm)

  def _exit(self, stack):
    stack.pop().__exit__(None, None, None)

  def do_EnterSealed(self, a):
    self._enter(self.sstack, pg.as_sealed(self._tri(a)))

  def do_ExitSealed(self):
    self._exit(self.sstack)

  def do_EnterAccW(self, a):
    self._enter(self.astack, pg.allow_writable_accessors(self._tri(a)))

  def do_ExitAccW(self):
    self._exit(self.astack)

  def do_EnterNotify(self, b):
    self._enter(self.nstack, pg.notify_on_change(b))

  def do_ExitNotify(self):
    self._exit(self.nstack)

  def close(self):
    """Leaves every scope that is still open (LIFO per family; families are independent)."""
    for st in (self.nstack, self.astack, self.sstack):
      while st:
        try:
          self._exit(st)
        except Exception:  # pylint: disable=broad-except
          pass

  # ---- projection and comparison ----------------------------------------------
  @staticmethod
  def items_of(o):
    return list(o.sym_items())

  def spec_items(self, st, n):
    kind = st['kind'][n - 1]
    if kind in ('list', 'tlist'):
      return [(i, v) for i, v in enumerate(st['litems'][n - 1])]
    inv = {'obj': OKEYS, 'objd': OKEYS, 'objb': OKEYS_B, 'objc': OKEYS_C, 'sd3': SDKEYS, 'sd2': SDKEYS, 'sd1': SDKEYS}.get(kind, DKEYS)
    return [(inv[k], v) for k, v in st['ditems'][n - 1]]

  def match_value(self, specv, pyv) -> bool:
    if specv in self.obj and 1 <= specv < 100:
      return pyv is self.obj[specv]
    if specv == PNONE:
      return pyv is None
    if specv == MISSING:
      return pyv == pg.MISSING_VALUE
    if specv == PH:
      return isinstance(pyv, pg.hyper.OneOf)
    if specv == TB:
      return (isinstance(pyv, tuple) and len(pyv) == 1 and isinstance(pyv[0], tuple) and len(pyv[0]) == 2
              and isinstance(pyv[0][0], pg.Dict) and dict(pyv[0][0]) == {'q': 1} and pyv[0][1] == 7)
    if specv == RF:
      # a copy of a reference must still point at the very same object
      return isinstance(pyv, pg.Ref) and pyv.value is SHARED
    return type(pyv) is int and pyv == specv

  def bind_new(self, st, pre_alive: Set[int], ret):
    alive = {n for n in range(1, len(st['kind']) + 1) if st['kind'][n - 1] != 'free'}
    for n in list(self.obj):
      if n not in alive:
        del self.obj[n]
    todo = [n for n in sorted(alive) if n not in self.obj]
    progress = True
    while todo and progress:
      progress = False
      for n in list(todo):
        par = st['parent'][n - 1]
        if par == 0:
          # a detached new node can only be the value the call returned
          if isinstance(ret, pg.Symbolic) and not any(ret is o for o in self.obj.values()):
            self.obj[n] = ret
            todo.remove(n)
            progress = True
          continue
        if par not in self.obj:
          continue
        key = st['pkey'][n - 1]
        po = self.obj[par]
        pk = key - 1000 if key >= 1000 else keymap(po)[key]
        try:
          child = po.sym_getattr(pk)
        except Exception as e:  # pylint: disable=broad-except
          raise Divergence('bind', f'spec node {n} expected at {par}.{pk!r}: {e!r}')
        if not isinstance(child, pg.Symbolic):
          raise Divergence('bind', f'spec node {n} expected at {par}.{pk!r}, found non-symbolic {child!r}')
        for m, o in self.obj.items():
          if o is child:
            raise Divergence('oneplace', f'fresh spec node {n} at {par}.{pk!r} is the object already bound to node {m}')
        self.obj[n] = child
        todo.remove(n)
        progress = True
    if todo:
      raise Divergence('bind', f'cannot bind spec nodes {todo} (the call returned {ret!r:.300})')

  def compare(self, st, out_kind, ret):
    spec_out = st['out']
    kinds = st['kind']
    # -- outcome
    if out_kind != spec_out['k']:
      d = Divergence('outcome', f'spec {spec_out["k"]} vs impl {out_kind}: {ret!r}')
      d.spec_out, d.impl_out = spec_out['k'], out_kind
      raise d
    alive = [n for n in range(1, len(kinds) + 1) if kinds[n - 1] != 'free']
    # -- content
    for n in alive:
      o = self.obj[n]
      exp = self.spec_items(st, n)
      got = self.items_of(o)
      if len(exp) != len(got):
        raise Divergence('content', f'node {n}: spec {exp} impl {got!r}')
      for (ek, ev), (gk, gv) in zip(exp, got):
        if ek != gk or not self.match_value(ev, gv):
          raise Divergence('content', f'node {n}: spec {exp} impl {got!r}')
      want_cls = {'dict': pg.Dict, 'tdict': pg.Dict, 'list': pg.List, 'tlist': pg.List, 'obj': A, 'objb': B, 'objc': C,
                  'objd': D, 'sd3': pg.Dict, 'sd2': pg.Dict, 'sd1': pg.Dict}[kinds[n - 1]]
      if kinds[n - 1] in SD_SPECS:
        if type(o) is not pg.Dict or o.value_spec is None or sorted(str(k) for k in o.value_spec.schema.keys()) != ['a', 'b']:
          raise Divergence('content', f'node {n}: expected a schema dict ({kinds[n - 1]}), found {type(o).__name__} with spec {o.value_spec!r:.80}')
        continue
      if kinds[n - 1] in ('dict', 'tdict', 'list', 'tlist') and (o.value_spec is not None) != (kinds[n - 1] in ('tdict', 'tlist')):
        raise Divergence('content', f'node {n}: value spec binding {o.value_spec!r} but the model says {kinds[n - 1]}')
      if type(o) is not want_cls:
        raise Divergence('content', f'node {n}: class {type(o).__name__} expected {want_cls.__name__}')
    # -- returned value
    if 'ret' in self.clauses and out_kind == 'ok' and st['act'][0] in ('DictPop', 'DictPopItem', 'ListPop', 'DictSetDefault', 'Clone', 'JsonRoundTrip', 'Construct'):
      # a value read through an accessor is the *referenced* object when the stored leaf is a pg.Ref
      if not (self.match_value(spec_out['ret'], ret) or (spec_out['ret'] == RF and ret is SHARED)):
        # setdefault returns the passed default (a plain container) when it inserts; only leaves are generated
        raise Divergence('ret', f'spec {spec_out["ret"]} impl {ret!r}')
    # -- one place / parent / path / lookup: compared only for properties that own (or depend on) those clauses, so that
    # a property about contents keeps replaying the history when only the tree bookkeeping is off
    tree_clauses = bool(self.clauses & {'parent', 'path', 'lookup', 'oneplace', 'flags', 'events', 'facts'}) or not self.clauses
    seen = {}
    for n in (alive if tree_clauses else []):
      for k, v in self.items_of(self.obj[n]):
        if isinstance(v, pg.Symbolic) and not isinstance(v, (pg.hyper.OneOf, pg.Ref)):
          if id(v) in seen:
            raise Divergence('oneplace', f'object stored at {seen[id(v)]} and at {(n, k)}')
          seen[id(v)] = (n, k)
    # -- parent / path / lookup
    for n in (alive if tree_clauses else []):
      o = self.obj[n]
      par = st['parent'][n - 1]
      if par == 0:
        if o.sym_parent is not None:
          raise Divergence('parent', f'node {n} is detached in the spec but reports parent {type(o.sym_parent).__name__}')
        continue
      if o.sym_parent is not self.obj[par]:
        raise Divergence('parent', f'node {n}: parent is not node {par} ({o.sym_parent!r:.60})')
    for n in (alive if tree_clauses else []):
      if st['parent'][n - 1] == 0:
        continue
      o = self.obj[n]
      keys = []
      m = n
      while st['parent'][m - 1] != 0:
        p = st['parent'][m - 1]
        kc = st['pkey'][m - 1]
        keys.append(kc - 1000 if kc >= 1000 else keymap(self.obj[p])[kc])
        m = p
      keys.reverse()
      root = self.obj[m]
      want = pg.KeyPath(keys, root.sym_path) if keys else root.sym_path
      if o.sym_path != want:
        raise Divergence('path', f'node {n}: sym_path {str(o.sym_path)!r} expected {str(want)!r} (root path {str(root.sym_path)!r})')
      try:
        found = pg.KeyPath(keys).query(root)
      except Exception as e:  # pylint: disable=broad-except
        raise Divergence('lookup', f'node {n}: lookup of {keys} from its root failed: {e!r}')
      if found is not o:
        raise Divergence('lookup', f'node {n}: lookup of {keys} from its root returns another object')
      if o.sym_root is not root:
        raise Divergence('lookup', f'node {n}: sym_root is not its root')
    # -- flags
    for n in (alive if 'flags' in self.clauses else []):
      o = self.obj[n]
      if bool(o.is_sealed) != st['sealed'][n - 1]:
        raise Divergence('flags', f'node {n}: is_sealed {o.is_sealed} spec {st["sealed"][n - 1]}')
      if kinds[n - 1] in ('dict', 'list', 'tlist') and bool(o.accessor_writable) != st['accw'][n - 1]:
        raise Divergence('flags', f'node {n}: accessor_writable {o.accessor_writable} spec {st["accw"][n - 1]}')
    # -- events
    if 'events' in self.clauses:
      self.compare_events(st)
    # -- derived facts (read on the live objects after every call, so memos are always populated)
    if 'facts' in self.clauses:
      if self.facts_policy == 'all':
        todo = alive
      elif self.facts_policy == 'roots':
        todo = [n for n in alive if st['parent'][n - 1] == 0]
      else:
        todo = [st['act'][1]] if st['act'][0] == 'ReadFacts' else []
      for n in todo:
        self.compare_facts(st, n, self.facts_which or 'full')

  def path_codes_to_str(self, recv_n, codes):
    keys = []
    cur = self.obj[recv_n]
    for kc in codes:
      if kc >= 1000:
        keys.append(kc - 1000)
      else:
        keys.append(keymap(cur)[kc])
      try:
        cur = cur.sym_getattr(keys[-1])
      except Exception:  # pylint: disable=broad-except
        cur = None
    return tuple(keys)           # key TUPLES, not path strings: a str key may contain '.' or brackets

  def compare_events(self, st):
    spec_evts = st['evts']
    exp = {}
    for e in spec_evts:
      e = dict(e) if not isinstance(e, dict) else e
      exp[e['recv']] = e['ups']
    got_order = []
    got = {}
    for recv, ups in self.events:
      n = next((m for m, o in self.obj.items() if o is recv), None)
      if n is None:
        raise Divergence('events', f'event delivered to an object outside the model: {recv!r:.60}')
      if n in got:
        raise Divergence('events', f'node {n} received two events for one call')
      got[n] = ups
      got_order.append(n)
    if set(got) != set(exp):
      raise Divergence('events', f'receivers: spec {sorted(exp)} impl {sorted(got)}')
    for n, ups in exp.items():
      want = {}
      for path, old, new in ups:
        want[self.path_codes_to_str(n, path)] = (old, new)
      have = {tuple(k.keys): (u.old_value, u.new_value) for k, u in got[n].items()}
      for k, u in got[n].items():
        if tuple(u.path.keys) != tuple(self.obj[n].sym_path.keys) + tuple(k.keys):
          raise Divergence('events', f'node {n}: the update reported at relative location {k.keys} carries the absolute path '
                                     f'{u.path.keys} (receiver at {self.obj[n].sym_path.keys})')
      if set(want) != set(have):
        raise Divergence('events', f'node {n}: changed locations spec {sorted(want)} impl {sorted(have)}')
      for k, (old, new) in want.items():
        ho, hn = have[k]
        if not self.match_old(old, ho) or not self.match_value(new, hn):
          raise Divergence('events', f'node {n} at {k}: spec {old}->{new} impl {ho!r:.40}->{hn!r:.40}')
    # children before parents
    parent = st['parent']
    pos = {n: i for i, n in enumerate(got_order)}
    for n in got_order:
      m = parent[n - 1]
      while m != 0:
        if m in pos and pos[m] < pos[n]:
          raise Divergence('events', f'ancestor {m} notified before descendant {n}')
        m = parent[m - 1]

  def nested_locations(self, o, nested, what, prefix=()):
    """Leaf locations (key tuples) of a nested report (sym_nondefault / sym_missing with flatten=False), normalised:
    a whole container value is expanded leaf by leaf, a whole object value is asked again, anything below a
    placeholder is collapsed to the placeholder's location.  For sym_nondefault the reported leaf value must be the
    value stored there now."""
    out = set()
    items = nested.items() if isinstance(nested, dict) else enumerate(nested)
    for k, v in items:
      try:
        cur = o.sym_getattr(k)
      except Exception as e:  # pylint: disable=broad-except
        raise Divergence('facts', f'{what} reports the location {prefix + (k,)!r}, which does not exist: {e!r:.120}')
      loc = prefix + (k,)
      if isinstance(cur, (pg.hyper.OneOf, pg.Ref)):
        out.add(loc)
      elif isinstance(cur, pg.Symbolic):
        if isinstance(v, (dict, list)):
          out |= self.nested_locations(cur, v, what, loc)
        elif v is cur:
          fresh = cur.sym_nondefault(flatten=False) if what == 'sym_nondefault()' else cur.sym_missing(flatten=False)
          out |= self.nested_locations(cur, fresh, what, loc)
        else:
          raise Divergence('facts', f'{what} reports {v!r:.60} at {loc!r} but {cur!r:.60} is stored there')
      else:
        out.add(loc)
        if what == 'sym_nondefault()' and not (v is cur or (type(v) is type(cur) and v == cur)):
          raise Divergence('facts', f'{what} reports {v!r:.60} at {loc!r} but {cur!r:.60} is stored there')
    return out

  def nondefault_locations(self, o):
    return self.nested_locations(o, o.sym_nondefault(flatten=False), 'sym_nondefault()')

  def compare_facts(self, st, n, which='full'):
    f = st['facts'][n - 1]
    if not f[0]:
      return
    o = self.obj[n]
    if which in ('full', 'missing'):
      want_missing = {self.path_codes_to_str(n, p) for p in f[1]}
      got_missing = self.nested_locations(o, o.sym_missing(flatten=False), 'sym_missing()')
      if want_missing != got_missing:
        raise Divergence('facts', f'node {n}: sym_missing() {sorted(got_missing)} expected {sorted(want_missing)}')
      if bool(o.is_partial) != bool(want_missing):
        raise Divergence('facts', f'node {n}: is_partial {o.is_partial} expected {bool(want_missing)}')
    if which in ('full', 'nd'):
      want_nd = {self.path_codes_to_str(n, p) for p in f[2]}
      got_nd = self.nondefault_locations(o)
      if want_nd != got_nd:
        raise Divergence('facts', f'node {n}: sym_nondefault() locations {sorted(got_nd)} expected {sorted(want_nd)}')
    if which in ('full', 'pure') and (bool(o.sym_puresymbolic) != f[3] or bool(pg.is_deterministic(o)) == f[3]):
      raise Divergence('facts', f'node {n}: sym_puresymbolic {o.sym_puresymbolic} / is_deterministic '
                                f'{pg.is_deterministic(o)} expected placeholder-present = {f[3]}')

  def do_ReadFacts(self, n):
    if self.facts_policy != 'all':
      return          # the comparison that follows the step performs the read
    o = self.obj[n]
    o.sym_missing(); o.sym_nondefault(); _ = o.sym_puresymbolic, o.is_partial

  def match_old(self, specv, pyv):
    # an old value that was a node: the spec id may have been freed/forgotten; compare identity when bound
    return self.match_value(specv, pyv)

  # ---- building a spec state directly (for single-transition tests) -------------
  def build_from_state(self, st):
    """Constructs real objects for every live node of spec state `st` and enters its scopes."""
    kinds = st['kind']
    n_nodes = len(kinds)

    def leaf(v):
      if v == PNONE:
        return None
      if v == MISSING:
        return pg.MISSING_VALUE
      if v == PH:
        return pg.oneof([1, 2])
      if v == RF:
        return pg.Ref(SHARED)
      if v == TB:
        return ((pg.Dict(q=1), 7),)
      return v

    def build(n):
      k = kinds[n - 1]
      if k in ('list', 'tlist'):
        items = [build(v) if 1 <= v <= n_nodes else leaf(v) for v in st['litems'][n - 1]]
        kw = {'value_spec': TLIST_SPEC} if k == 'tlist' else {}
        if st['subs'][n - 1]:
          kw['onchange_callback'] = _make_cb(None)
        o = pg.List(items, accessor_writable=st['accw'][n - 1], **kw)
      elif k in ('dict', 'tdict', 'sd3', 'sd2', 'sd1'):
        km = SDKEYS if k in SD_SPECS else DKEYS
        items = {km[kk]: (build(v) if 1 <= v <= n_nodes else leaf(v)) for kk, v in st['ditems'][n - 1]}
        kw = {'value_spec': TDICT_SPEC} if k == 'tdict' else {'value_spec': SD_SPECS[k]} if k in SD_SPECS else {}
        if st['subs'][n - 1]:
          kw['onchange_callback'] = _make_cb(None)
        o = pg.Dict(items, accessor_writable=st['accw'][n - 1], **kw)
      else:
        cls, km = {'obj': (A, OKEYS), 'objd': (D, OKEYS), 'objb': (B, OKEYS_B), 'objc': (C, OKEYS_C)}[k]
        kwargs = {km[kk]: (build(v) if 1 <= v <= n_nodes else leaf(v)) for kk, v in st['ditems'][n - 1]}
        kwargs = {a: b for a, b in kwargs.items() if not (b is pg.MISSING_VALUE or b == pg.MISSING_VALUE)}
        o = cls.partial(**kwargs) if k == 'objb' else cls(**kwargs)
      self.obj[n] = o
      return o

    roots = [n for n in range(1, n_nodes + 1) if kinds[n - 1] != 'free' and st['parent'][n - 1] == 0]
    for r in roots:
      build(r)
    # flags: seal() is deep, so apply top-down; children then override
    def seal_rec(n):
      self.obj[n].seal(st['sealed'][n - 1])
      vals = st['litems'][n - 1] if kinds[n - 1] in ('list', 'tlist') else [kv[1] for kv in st['ditems'][n - 1]]
      for v in vals:
        if 1 <= v <= n_nodes:
          seal_rec(v)
    for r in roots:
      seal_rec(r)
    for a in st['sstk']:
      self.do_EnterSealed(a)
    for a in st['astk']:
      self.do_EnterAccW(a)
    for b_ in st['nstk']:
      self.do_EnterNotify(b_)

  def replay_transition(self, src, dst, budget_s: float = 20.0) -> Optional[dict]:
    """Builds `src`, checks the construction, executes dst['act'] and compares with `dst`."""
    import signal  # pylint: disable=import-outside-toplevel

    def on_alarm(signum, frame):
      raise Divergence('hang', f'the call did not return within {budget_s}s')

    old = signal.signal(signal.SIGALRM, on_alarm)
    signal.setitimer(signal.ITIMER_REAL, budget_s)
    try:
      try:
        self.build_from_state(src)
        saved = self.clauses
        self.clauses = self.clauses - {'events', 'facts', 'ret'}
        src0 = dict(src)
        src0['out'] = {'k': 'ok', 'ret': 0}
        self.compare(src0, 'ok', None)
        self.clauses = saved
      except Divergence as d:
        return {'step': 0, 'act': ['Build'], 'clause': 'build:' + d.clause, 'detail': d.detail}
      act = dst['act']
      try:
        out_kind, ret = self.execute(act)
        if isinstance(ret, Divergence):
          raise ret
        self.bind_new(dst, set(self.obj), ret)
        self.compare(dst, out_kind, ret)
      except Divergence as d:
        return {'step': 1, 'act': act, 'clause': d.clause, 'detail': d.detail,
                'spec_out': getattr(d, 'spec_out', dst['out']['k']), 'impl_out': getattr(d, 'impl_out', None)}
      self.hit(act[0] + ':' + dst['out']['k'])
      return None
    finally:
      signal.setitimer(signal.ITIMER_REAL, 0)
      signal.signal(signal.SIGALRM, old)
      self.close()

  # ---- one behaviour -----------------------------------------------------------
  def replay(self, steps, budget_s: float = 30.0) -> Optional[dict]:
    """Returns None when the behaviour conforms, else a divergence record.

    A behaviour that does not finish within `budget_s` seconds (a call that never returns) is a
    divergence of clause 'hang'."""
    import signal  # pylint: disable=import-outside-toplevel
    self._cur = 0

    def on_alarm(signum, frame):
      raise Divergence('hang', f'the call did not return within {budget_s}s')

    old = signal.signal(signal.SIGALRM, on_alarm)
    signal.setitimer(signal.ITIMER_REAL, budget_s)
    try:
      return self._replay(steps)
    except Divergence as d:
      return {'step': self._cur, 'act': steps[self._cur].state['act'] if self._cur < len(steps) else ['?'],
              'clause': d.clause, 'detail': d.detail}
    finally:
      signal.setitimer(signal.ITIMER_REAL, 0)
      signal.signal(signal.SIGALRM, old)

  def _replay(self, steps) -> Optional[dict]:
    st0 = steps[0].state
    for n, k in enumerate(st0['kind'], start=1):
      if k != 'free' and st0['parent'][n - 1] == 0:
        self.obj[n] = new_root(k)
    try:
      try:
        self.bind_new(st0, set(), None)
        self.compare(st0, 'ok', None)
      except Divergence as d:
        return {'step': 0, 'act': ['Init'], 'clause': d.clause, 'detail': d.detail}
      for i, step in enumerate(steps[1:], start=1):
        self._cur = i
        st = step.state
        act = st['act']
        pre_alive = set(self.obj)
        try:
          out_kind, ret = self.execute(act)
          if isinstance(ret, Divergence):
            raise ret
          if act[0] == 'Forget':
            pass
          self.bind_new(st, pre_alive, ret)
          self.compare(st, out_kind, ret)
        except Divergence as d:
          return {'step': i, 'act': act, 'clause': d.clause, 'detail': d.detail,
                  'spec_out': getattr(d, 'spec_out', st['out']['k']), 'impl_out': getattr(d, 'impl_out', None)}
        self.hit(act[0] + ':' + st['out']['k'])
      return None
    finally:
      self.close()
