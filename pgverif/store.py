"""C05 driver, persistence half: replays behaviours of specs/Store.tla through pg.save / pg.load / pg.io.* /
pg.open_jsonl on the standard file system (a scratch directory under /verif/.work), the in-memory file system
('/mem/...') and '.mem' record sequences, comparing after every call the outcome with the one in the spec state.
"""
from __future__ import annotations

import os
import random
import shutil
from typing import Any, Dict, List, Optional

import pyglove as pg
from pyglove.core.io import file_system as pg_fs
from pyglove.core.io import sequence as pg_seq

from pgverif import codec

CHARS = {1: '/', 2: 'm', 3: 'e', 4: 'a', 5: '.', 6: 'j'}
# PathTable of Store.tla
PATH_TABLE = {1: [2, 5, 6], 2: [3, 1, 2], 3: [4, 1, 4, 5, 6], 4: [4, 1, 2, 5, 6], 5: [4, 5, 6], 6: [4]}
WORK = '/verif/.work/store'


def rel(p: int) -> str:
  return ''.join(CHARS[c] for c in PATH_TABLE[p])


# documents / records of increasing JSON length (LenOf(v) = v in the spec: only the ORDER of lengths matters)
def value_pools(rng: random.Random) -> Dict[int, Any]:
  short = [1, 'x', None, True, pg.Dict(), pg.List([0]), 2.5, '', ' ', '\n', 'a\nb', '\t']
  mid = [pg.Dict(a=1, b='two'), pg.List([1, 'a', None, 2.5]), codec.A(x=1), 'a string of some length', pg.Dict({1: 'int key'}),
         (1, 'tuple')]
  long_ = [pg.Dict(a=pg.List([1, 2, pg.Dict(b=(1, 2))]), c='x' * 20, d=codec.B(x=pg.List([None]), y=3)),
           pg.List([codec.A(x=pg.Dict(k='é\n\t\U0001F600')), 'n_:x is just a string', 1e300, float('inf')]),
           codec.Typed(items=[1, 2, 3], opts=dict(k=2, s='sss'), t=(1, 'a')),
           pg.typing.Dict([('k', pg.typing.Int(default=1)), ('s', pg.typing.Str(regex='a.*').noneable())]),
           pg.dna_spec(pg.Dict(a=pg.oneof([1, 2, 3]), b=pg.floatv(0.0, 1.0)))]
  vals = [rng.choice(short), rng.choice(mid), rng.choice(long_)]
  vals.sort(key=lambda v: len(pg.to_json_str(v)))
  assert len({len(pg.to_json_str(v)) for v in vals}) == 3
  return vals


def bad_values(rng: random.Random):
  """Values whose serialisation raises: the write must fail and leave the store untouched."""
  class Unconvertible:           # pylint: disable=too-few-public-methods
    def __reduce__(self):
      raise TypeError('cannot be pickled or converted')
  pool = [
      lambda: codec.A(x=pg.Ref(codec.A(x=1))),                       # pg.Ref without save_ref_value
      lambda: pg.Dict(a=1, b=pg.List([codec.Scopes().meth])),        # bound instance method
      lambda: pg.List([1, (2, Unconvertible())]),                    # opaque object that cannot be pickled
      lambda: codec.B(x=pg.Dict(k=pg.Ref(pg.Dict())), y=1),
  ]
  return rng.choice(pool)()


class StoreDivergence(Exception):
  def __init__(self, clause, detail):
    super().__init__(clause)
    self.clause = clause
    self.detail = detail


def reset_memory_file_system():
  """Empties the process-wide in-memory file system and record store (reset only; nothing is observed here)."""
  fs = pg_fs._fs.get('/mem/x')                  # pylint: disable=protected-access
  if isinstance(fs, pg_fs.MemoryFileSystem):
    fs._root.clear()                            # pylint: disable=protected-access
  io = pg_seq._registry.get('x.mem')            # pylint: disable=protected-access
  if isinstance(io, pg_seq.MemorySequenceIO):
    io._root.clear()                            # pylint: disable=protected-access


class StoreReplayer:
  """One behaviour of Store.tla on the real file systems."""

  def __init__(self, vals_ids: List[int], rng: random.Random, tag: str):
    self.rng = rng
    pool = value_pools(rng)
    ids = sorted(vals_ids)
    # value id -> concrete value, JSON lengths ordered like the ids
    if len(ids) == 2:
      pool = [pool[0], pool[2]]
    self.value = {i: pool[k] for k, i in enumerate(ids)}
    self.std_root = os.path.join(WORK, tag)
    shutil.rmtree(self.std_root, ignore_errors=True)
    os.makedirs(self.std_root, exist_ok=True)
    reset_memory_file_system()
    self.handle = None
    self.handle_api = 'jsonl'
    # raw text records for the plain line-sequence API, by record id: the smallest id is the EMPTY string, then a
    # whitespace-only one (a line format cannot carry a newline inside a raw record: not generated, see notes)
    texts = ['', rng.choice([' ', '\t', '  \t ']), rng.choice(['plain text', '{"not": json', 'é\U0001F600', '0'])]
    if len(ids) == 2:
      texts = [texts[0], texts[2]]
    self.text = {i: texts[k] for k, i in enumerate(ids)}
    self.hits: Dict[str, int] = {}

  def close(self):
    if self.handle is not None:
      try:
        self.handle.close()
      except Exception:  # pylint: disable=broad-except
        pass
      self.handle = None
    shutil.rmtree(self.std_root, ignore_errors=True)
    reset_memory_file_system()

  def path(self, fs: str, p: int) -> str:
    if fs == 'std':
      return os.path.join(self.std_root, rel(p))
    if fs == 'mem':
      return '/mem/' + rel(p)
    return '/mem/rec/' + rel(p) + '.mem'         # '.mem' selects MemorySequenceIO

  def same(self, got, want) -> bool:
    if type(got) is not type(want) and not (isinstance(want, (dict, list)) and isinstance(got, (dict, list))):
      return False
    if codec.has_nan(want):
      return repr(got) == repr(want)
    return bool(pg.eq(got, want))

  def step(self, act: list, out: dict) -> None:
    name = act[0]
    want_ok = out['k'] == 'ok'
    err = None
    ret = None
    try:
      if name == 'Save':
        pg.save(self.value[act[3]], self.path(act[1], act[2]))
      elif name == 'SaveBad':
        pg.save(bad_values(self.rng), self.path(act[1], act[2]))
      elif name == 'AddBad':
        self.handle.add(12345 if self.handle_api == 'text' else bad_values(self.rng))
      elif name == 'Load':
        ret = pg.load(self.path(act[1], act[2]))
      elif name == 'Exists':
        ret = pg.io.path_exists(self.path(act[1], act[2]))
      elif name == 'Rm':
        pg.io.rm(self.path(act[1], act[2]))
      elif name == 'MkdirAt':
        pg.io.mkdirs(self.path(act[1], act[2]))
      elif name == 'OpenSeq':
        self.handle_api = act[4]
        if act[4] == 'text':
          self.handle = pg.io.open_sequence(self.path(act[1], act[2]), act[3])     # no serializer: raw text lines
        else:
          self.handle = pg.open_jsonl(self.path(act[1], act[2]), act[3])
      elif name == 'Add':
        self.handle.add(self.text[act[1]] if self.handle_api == 'text' else self.value[act[1]])
      elif name == 'CloseSeq':
        self.handle.close()
        self.handle = None
      elif name == 'ReadSeq':
        opener = pg.io.open_sequence if act[3] == 'text' else pg.open_jsonl
        with opener(self.path(act[1], act[2]), 'r') as f:
          ret = list(iter(f))
      else:
        raise ValueError(name)
    except Exception as e:  # pylint: disable=broad-except
      err = e
    if want_ok and err is not None:
      raise StoreDivergence('fails', {'expected': 'ok', 'observed': f'{type(err).__name__}: {str(err)[:160]}'})
    if not want_ok:
      if err is None and not (name == 'ReadSeq' and ret == []):
        raise StoreDivergence('should_fail', {'expected': out['k'], 'observed': repr(ret)[:160]})
      return
    if name == 'Load':
      want = self.value[out['v']]
      if not self.same(ret, want):
        raise StoreDivergence('value', {'expected': repr(want)[:200], 'observed': repr(ret)[:200]})
    elif name == 'Exists':
      if bool(ret) != bool(out['v']):
        raise StoreDivergence('exists', {'expected': bool(out['v']), 'observed': ret})
    elif name == 'ReadSeq':
      if act[3] == 'text':
        want = [self.text[r] for r in out['recs']]
        if ret != want:
          raise StoreDivergence('text_records', {'expected': want, 'observed': [repr(x)[:40] for x in ret][:8]})
        return
      want = [self.value[r] for r in out['recs']]
      if len(ret) != len(want) or not all(self.same(g, w) for g, w in zip(ret, want)):
        raise StoreDivergence('records', {'expected': repr(want)[:200], 'observed': repr(ret)[:200]})
