"""C19 - conformance harness for Perm.tla.

Renders the AST skeletons (chains) exported by TLC to Python source with per-kind templates, runs
them through pg.coding.evaluate / pg.coding.run under permission sets (explicit argument, a
pg.coding.permission scope, nested scopes) and compares with the verdict code TLC exported:

  REJECT  => CodeError raised AND the sentinel log is empty (nothing ran)
  ALLOW   => same sentinel log / result / captured stdout / intermediate variables as plain execution of
             the same text; a run-time error is a CodeError whose cause class and line are those of plain
             execution
  EITHER  => one of the two

Every leaf of every template is `S[n]` - a subscript of the sentinel recorder (Subscript/Name/Constant
need no permission), so that what ran, and in which order, is visible without any gated construct.
"""
from __future__ import annotations

import ast
import contextlib
import io
import re
import sys
import traceback
import types
from typing import Any, Dict, List, Optional, Tuple

import pyglove as pg

P = pg.coding.CodePermission
_ADDR = re.compile(r' at 0x[0-9a-fA-F]+')
_END = object()

# ---------------------------------------------------------------------------------------------
# Harness objects visible to the generated programs


class V(int):
  """The universal value returned by the sentinel: usable wherever the templates put an expression."""

  def __getitem__(self, k):
    return V(int(self))

  def __setitem__(self, k, v):
    pass

  def __iter__(self):
    yield V(int(self))

  def __call__(self, *a, **k):
    print('call', int(self), _norm(list(a)), sorted(k))
    return V(int(self))

  def __enter__(self):
    return self

  def __exit__(self, *e):
    return False

  def __mro_entries__(self, bases):
    return (object,)

  def keys(self):
    return []


class Recorder:

  def __init__(self):
    self.log: List[Any] = []

  def __getitem__(self, i):
    self.log.append(i)
    if len(self.log) > 300:
      raise RuntimeError('runaway program')
    return V(i)


class Once:
  """W[i]: +inf the first time index i is read, -inf afterwards (a loop test that lets one iteration through)."""

  def __init__(self, rec: Recorder):
    self.seen = {}
    self.rec = rec

  def __getitem__(self, i):
    n = self.seen.get(i, 0)
    self.seen[i] = n + 1
    self.rec.log.append(('W', i))
    if n > 50:
      raise RuntimeError('runaway loop')
    return float('inf') if n == 0 else float('-inf')


class Holder:
  """H[x]: an object that accepts attribute and item stores and logs them."""

  def __init__(self, rec: Recorder):
    object.__setattr__(self, '_rec', rec)

  def __getitem__(self, k):
    self._rec.log.append(('H', _norm(k)))
    return self

  def __setattr__(self, name, value):
    self._rec.log.append(('H.set', name, _norm(value)))

  def __setitem__(self, k, value):
    self._rec.log.append(('H.setitem', _norm(k), _norm(value)))


class Deleter:

  def __init__(self, rec: Recorder):
    self.rec = rec

  def __delitem__(self, k):
    self.rec.log.append(('del', _norm(k)))


class XErr(Exception):
  """The exception the generated programs raise."""


class YErr(Exception):
  """The exception the generated programs name as the cause (`raise X from Y`) or raise first."""


class ErrMaker:
  """E[i] / F[i]: a fresh exception instance of a fixed class, logged like every other leaf."""

  def __init__(self, rec: Recorder, cls, tag):
    self.rec, self.cls, self.tag = rec, cls, tag

  def __getitem__(self, i):
    self.rec.log.append((self.tag, _norm(i)))
    return self.cls(f'{self.tag}{_norm(i)!r}')


def make_env() -> Tuple[Dict[str, Any], Recorder]:
  rec = Recorder()
  return {'S': rec, 'W': Once(rec), 'D': Deleter(rec), 'Q': list(range(10)), 'A': 100, 'NS': types.SimpleNamespace(), 'H': Holder(rec),
          'E': ErrMaker(rec, XErr, 'E'), 'F': ErrMaker(rec, YErr, 'F')}, rec


def _norm(v, depth=0):
  """Values of two separate runs compared structurally (functions/classes by name)."""
  if depth > 6:
    return '...'
  if isinstance(v, bool) or v is None:
    return v
  if isinstance(v, int):
    return int(v)
  if isinstance(v, str):
    return _ADDR.sub(' at 0x?', v)
  if isinstance(v, (float, bytes)):
    return v
  if isinstance(v, (list, tuple)):
    # runs of single characters (a string exploded by `*f"{function}"` ...) are joined again, so that
    # object addresses inside them can be masked like in any other string
    out, run = [type(v).__name__], []
    for x in list(v) + [_END]:
      if isinstance(x, str) and len(x) == 1:
        run.append(x)
        continue
      if len(run) >= 8:
        out.append(['chars', _ADDR.sub(' at 0x?', ''.join(run))])
      else:
        out.extend(run)
      run = []
      if x is not _END:
        out.append(_norm(x, depth + 1))
    return out
  if isinstance(v, (set, frozenset)):
    return ['set'] + sorted((_norm(x, depth + 1) for x in v), key=repr)
  if isinstance(v, dict):
    return ['dict'] + sorted(([_norm(k, depth + 1), _norm(x, depth + 1)] for k, x in v.items()), key=repr)
  if isinstance(v, types.FunctionType):
    return ['function', v.__name__]
  if isinstance(v, type):
    return ['class', v.__name__]
  if isinstance(v, types.SimpleNamespace):
    return ['harness', 'NS']
  if isinstance(v, types.ModuleType):
    return ['module', v.__name__]
  if isinstance(v, BaseException):
    return ['exception', type(v).__name__, str(v)]
  if isinstance(v, (Recorder, Once, Deleter, ErrMaker, Holder)):
    return ['harness', type(v).__name__]
  return ['object', type(v).__name__]


def harness_state(env) -> Dict[str, Any]:
  """Objects the programs can store INTO (subscript / attribute targets): their content is compared too."""
  return {'Q': _norm(env['Q']), 'NS': _norm(dict(vars(env['NS'])))}


# ---------------------------------------------------------------------------------------------
# Templates

class Ctx:
  def __init__(self):
    self.n = 0

  def s(self):
    self.n += 1
    return f'S[{self.n}]'

  def name(self, p):
    self.n += 1
    return f'{p}{self.n}'


def _ind(lines):
  return ['  ' + ln for ln in lines]


STMT_SLOTS = {'body', 'orelse', 'handler', 'final'}


STORE_SLOTS = {'store', 'chain_store', 'asname'}


def render_node(c: Ctx, kind: str, child: Optional[Tuple[str, Any]], store: bool = False):
  """Returns ('S', lines) or ('E', text).  child = (slot, rendered child) or None; store: the node is an
  assignment target."""
  cslot = child[0] if child else None

  def e(slot, optional=False):
    """Expression for a slot: the child if it sits there, else a fresh sentinel (or None if optional)."""
    if cslot == slot:
      t, x = child[1]
      assert t == 'E', (kind, slot, t)
      return x
    return None if optional else c.s()

  def b(slot, optional=False):
    """Block for a statement slot."""
    if cslot == slot:
      t, x = child[1]
      return x if t == 'S' else [x]
    return None if optional else [c.s()]

  k = kind
  if k == 'Assign':
    ch = e('chain_store', True)
    return 'S', [f'{e("store", True) or c.name("a")} = ' + (f'{ch} = ' if ch else '') + e('value')]
  if k == 'AugAssign':
    return 'S', [f'{e("store", True) or "A"} += {e("value")}']
  if k == 'AnnAssign':
    return 'S', [f'{e("store", True) or c.name("b")}: {e("annotation")} = {e("value")}']
  if k == 'If':
    return 'S', [f'if {e("test")}:'] + _ind(b('body')) + ['else:'] + _ind(b('orelse'))
  if k == 'Match':
    g = e('guard', True)
    return 'S', [f'match {e("subject")}:', '  case _' + (f' if {g}' if g else '') + ':'] + _ind(_ind(b('body')))
  if k == 'For':
    o = b('orelse', True)
    return 'S', ([f'for {e("store", True) or c.name("i")} in {e("iter")}:'] + _ind(b('body')) +
                 ((['else:'] + _ind(o)) if o else []))
  if k == 'While':
    t = e('test', True)
    w = f'W[{c.n + 1000}]'
    return 'S', [f'while {w} > {t}:' if t else f'while {w} > 0:'] + _ind(b('body'))
  if k == 'AsyncFor':
    return 'S', [f'async for {c.name("i")} in {e("iter")}:'] + _ind(b('body'))
  if k == 'Try':
    x = e('exctype', True) or 'Exception'
    o = b('orelse', True)
    return 'S', (['try:'] + _ind(b('body')) + [f'except {x}:'] + _ind(b('handler')) +
                 ((['else:'] + _ind(o)) if o else []) + ['finally:'] + _ind(b('final')))
  if k == 'TryStar':
    return 'S', ['try:'] + _ind(b('body')) + ['except* Exception:'] + _ind(b('handler'))
  if k == 'Raise':
    ca = e('cause', True)
    return 'S', [f'raise E[{e("exc")}]' + (f' from F[{ca}]' if ca else '')]
  if k == 'Assert':
    return 'S', [f'assert {e("test")}, {e("msg")}']
  if k == 'ClassDef':
    d, ba, kw = e('deco', True), e('base', True), e('keyword', True)
    args = ', '.join(x for x in [ba, f'metaclass={kw}' if kw else None] if x)
    return 'S', ([f'@{d}'] if d else []) + [f'class {c.name("C")}' + (f'({args})' if args else '') + ':'] + _ind(b('body'))
  if k in ('FunctionDef', 'AsyncFunctionDef'):
    d, df, kd, rt, an = e('deco', True), e('default', True), e('kwdefault', True), e('returns', True), e('argannotation', True)
    params = ', '.join(x for x in [f'p={df}' if df else None, f'*, k={kd}' if kd else None] if x)
    if an:
      params = f'q: {an} = 0' + (', ' + params if params else '')
    head = ('async def ' if k == 'AsyncFunctionDef' else 'def ') + c.name('f') + f'({params})' + (f' -> {rt}' if rt else '') + ':'
    return 'S', ([f'@{d}'] if d else []) + [head] + _ind(b('body'))
  if k == 'Import':
    return 'S', ['import math']
  if k == 'ImportFrom':
    return 'S', ['from math import pi']
  if k == 'With':
    an = e('asname', True)
    return 'S', [f'with [{e("item")}][0]' + (f' as {an}' if an else '') + ':'] + _ind(b('body'))
  if k == 'AsyncWith':
    return 'S', [f'async with [{e("item")}][0]:'] + _ind(b('body'))
  if k == 'Delete':
    return 'S', [f'del D[{e("target")}]']
  if k == 'Return':
    return 'S', [f'return {e("value")}']
  if k == 'Global':
    return 'S', [f'global {c.name("g")}']
  if k == 'TypeAlias':
    return 'S', [f'type {c.name("T")} = {e("value")}']
  if k == 'Pass':
    return 'S', ['pass']
  if k == 'Break':
    return 'S', ['break']
  if k == 'Continue':
    return 'S', ['continue']
  # ---- expressions ----
  if k == 'Call':
    a, st, kw = e('arg'), e('stararg', True), e('kwarg', True)
    args = ', '.join(x for x in [a, f'*{st}' if st else None, f'k={kw}' if kw else None] if x)
    return 'E', f'{e("func")}({args})'
  if k == 'Lambda':
    df = e('default', True)
    return 'E', '(lambda' + (f' p={df}' if df else '') + f': {e("lbody")})'
  if k == 'NamedExpr':
    return 'E', f'({c.name("w")} := {e("value")})'
  if k == 'IfExp':
    return 'E', f'({e("ebody")} if {e("test")} else {e("eorelse")})'
  if k == 'BoolOp':
    return 'E', f'({e("left")} and {e("right")})'
  if k == 'ListComp':
    cd = e('cond', True)
    return 'E', f'[{e("elt")} for {c.name("c")} in {e("iter")}' + (f' if {cd}' if cd else '') + ']'
  if k == 'SetComp':
    return 'E', f'{{{e("elt")} for {c.name("c")} in {e("iter")}}}'
  if k == 'DictComp':
    return 'E', f'{{{e("key")}: {e("value")} for {c.name("c")} in {e("iter")}}}'
  if k == 'GeneratorExp':
    return 'E', f'({e("gelt")} for {c.name("c")} in {e("iter")})'
  if k == 'Yield':
    return 'E', f'(yield {e("value")})'
  if k == 'YieldFrom':
    return 'E', f'(yield from {e("value")})'
  if k == 'Await':
    return 'E', f'(await {e("value")})'
  if k == 'BinOp':
    return 'E', f'({e("left")} + {e("right")})'
  if k == 'UnaryOp':
    return 'E', f'(-{e("operand")})'
  if k == 'Compare':
    return 'E', f'({e("left")} < {e("right")})'
  if k == 'Attribute':
    if store:       # a target: an attribute of the namespace object (or of the child's value)
      v = e('value', True)
      # (`(x).attr: T = v` is refused by the grammar for a parenthesised name, so a child value is wrapped
      # by the holder H[...] instead of by parentheses)
      return 'E', (f'H[{v}].{c.name("f")}' if v else f'NS.{c.name("f")}')
    return 'E', f'({e("value")}).real'
  if k == 'Subscript':
    if store:       # a target: an element of the list Q (or of the child's value)
      v, ix = e('value', True), e('index', True)
      return 'E', (f'H[{v}][{c.s()}]' if v else f'Q[{ix}]' if ix else 'Q[1]')
    return 'E', f'({e("value")})[{e("index")}]'
  if k == 'Slice':
    lo, up, st = e('lower', True), e('upper', True), e('step', True)
    return 'E', f'Q[{lo or ""}:{up or ""}:{st or ""}]'
  if k == 'Starred':
    return 'E', f'[*{e("value")}]'
  if k == 'List':
    return 'E', f'[{e("elt")}]'
  if k == 'Tuple':
    return 'E', f'({e("elt")},)'
  if k == 'Set':
    return 'E', f'{{{e("elt")}}}'
  if k == 'Dict':
    u = e('unpack', True)
    return 'E', (f'{{**{u}}}' if u else f'{{{e("key")}: {e("value")}}}')
  if k == 'JoinedStr':
    sp = e('fspec', True)
    return 'E', (f'f"{{1:{{({sp})}}}}"' if sp else f'f"<{{({e("fvalue")})}}>"')
  if k == 'Constant':
    return 'E', '7'
  if k == 'Name':
    return 'E', (c.name('t') if store else 'A')
  raise KeyError(kind)


def render(chain: List[str]) -> str:
  """Python source of a chain <<k1, s1, k2, ...>>; a sentinel expression statement precedes it."""
  c = Ctx()
  kinds = chain[0::2]
  slots = chain[1::2]
  def is_store(i):
    return i > 0 and slots[i - 1] in STORE_SLOTS
  node = render_node(c, kinds[-1], None, is_store(len(kinds) - 1))
  for i in range(len(kinds) - 2, -1, -1):
    node = render_node(c, kinds[i], (slots[i], node), is_store(i))
  t, x = node
  lines = x if t == 'S' else [x]
  return '\n'.join(['S[0]'] + lines)


# Programs about error reporting (names and kinds come from Perm.tla: ErrProgs)
ERR_PROGRAMS = {
    'raise_from': 'S[0]\ntry:\n  raise F[S[1]]\nexcept Exception as err:\n  raise E[S[2]] from err\nfinally:\n  S[3]',
    'raise_from_fresh': 'S[0]\nraise E[S[1]] from F[S[2]]',
    'raise_from_none': 'S[0]\ntry:\n  raise F[S[1]]\nexcept Exception:\n  raise E[S[2]] from None\nfinally:\n  S[3]',
    'implicit_chain': 'S[0]\ntry:\n  raise F[S[1]]\nexcept Exception:\n  raise E[S[2]]\nfinally:\n  S[3]',
    'reraise': 'S[0]\ntry:\n  raise F[S[1]]\nexcept Exception:\n  S[2]\n  raise\nfinally:\n  S[3]',
    'nested_reraise': ('S[0]\ntry:\n  try:\n    raise F[S[1]]\n  except Exception as err:\n    raise E[S[2]] from err\n'
                       '  finally:\n    S[3]\nexcept Exception:\n  S[4]\n  raise\nfinally:\n  S[5]'),
    'raise_in_finally': 'S[0]\ntry:\n  raise F[S[1]]\nexcept Exception:\n  raise\nfinally:\n  raise E[S[2]]',
    'raise_from_in_func': ('S[0]\ndef f1(k):\n  try:\n    raise F[k]\n  except Exception as err:\n    raise E[k] from err\n'
                           '  finally:\n    S[2]\n  return k\nS[3]\nf1(S[4])'),
    'assert_message': 'S[0]\nassert F[S[1]] is None, E[S[2]]',
}


# ---------------------------------------------------------------------------------------------
# Table checks (machinery: my tables against the interpreter and against the spec)

DEPRECATED = {'Num', 'Str', 'Bytes', 'NameConstant', 'Ellipsis'}
OTHER_BASES = {'mod', 'expr_context', 'boolop', 'operator', 'unaryop', 'cmpop', 'comprehension', 'excepthandler',
               'arguments', 'arg', 'keyword', 'alias', 'withitem', 'match_case', 'pattern', 'type_ignore',
               'type_param', 'stmt', 'expr', 'slice', 'Index', 'ExtSlice', 'Suite', 'AugLoad', 'AugStore', 'Param'}


def interpreter_kinds() -> Tuple[set, List[str]]:
  """(names of all statement/expression node classes of the running interpreter, problems)."""
  problems = []
  names = set()
  for base in (ast.stmt, ast.expr):
    for cls in base.__subclasses__():
      n = cls.__name__
      if n.startswith('_') or n in DEPRECATED:
        continue
      names.add(n)
  for cls in ast.AST.__subclasses__():
    if cls.__name__ not in OTHER_BASES and not cls.__name__.startswith('_') and cls.__name__ not in DEPRECATED:
      problems.append(f'unknown AST base class {cls.__name__}')
  return names, problems


def ast_kinds(src: str) -> set:
  return {type(n).__name__ for n in ast.walk(ast.parse(src)) if isinstance(n, (ast.stmt, ast.expr))}


# ---------------------------------------------------------------------------------------------
# Reference: plain execution of the same text

_NODEF = ('<no result defined>',)


def _code_lines(tb, filename) -> List[int]:
  return [f.lineno for f in traceback.extract_tb(tb) if f.filename == filename]


def plain_run(src: str) -> Dict[str, Any]:
  env, rec = make_env()
  orig = dict(env)
  out = io.StringIO()
  res: Dict[str, Any] = {'error': None, 'result': _NODEF}
  tree = ast.parse(src)
  last = tree.body[-1]
  try:
    with contextlib.redirect_stdout(out):
      if isinstance(last, ast.Expr):
        exec(compile(ast.Module(tree.body[:-1], []), '<plain>', 'exec', dont_inherit=True), env)    # pylint: disable=exec-used
        res['result'] = _norm(eval(compile(ast.Expression(last.value), '<plain>', 'eval', dont_inherit=True), env))   # pylint: disable=eval-used
      else:
        exec(compile(tree, '<plain>', 'exec', dont_inherit=True), env)   # pylint: disable=exec-used
        if isinstance(last, ast.Assign) and isinstance(last.targets[0], ast.Name):
          res['result'] = _norm(env[last.targets[0].id])
  except Exception as ex:  # pylint: disable=broad-except
    res['error'] = (type(ex).__name__, _code_lines(sys.exc_info()[2], '<plain>'), _ADDR.sub(' at 0x?', str(ex)))
  res['stdout'] = out.getvalue()
  res['log'] = list(rec.log)
  res['state'] = harness_state(env)
  res['vars'] = {k: _norm(v) for k, v in env.items()
                 if k != '__builtins__' and (k not in orig or v is not orig[k])}
  return res


# ---------------------------------------------------------------------------------------------
# The implementation under the permission

def pg_run(src: str, mask: int, mode: str, api: str = 'evaluate') -> Dict[str, Any]:
  """mode: 'arg_in_scope:Q' (scope mask, argument Q), 'param' (permission=...), 'scope', 'nested_all' (outer mask, inner ALL), 'nested_none' (outer mask,
  inner nothing), 'outer_all' (outer ALL, inner mask: the OUTER one must win)."""
  env, rec = make_env()
  fn = pg.coding.evaluate if api == 'evaluate' else (lambda *a, **k: pg.coding.run(*a, sandbox=False, **k))
  res: Dict[str, Any] = {'outcome': None}
  try:
    if mode.startswith('arg_in_scope:'):
      # an explicit permission ARGUMENT (the number after the colon) inside an open scope `mask`
      with pg.coding.permission(P(mask)):
        out = fn(src, global_vars=env, permission=P(int(mode.split(':')[1])), outputs_intermediate=True)
    elif mode == 'param':
      out = fn(src, global_vars=env, permission=P(mask), outputs_intermediate=True)
    else:
      with contextlib.ExitStack() as st:
        if mode == 'scope':
          st.enter_context(pg.coding.permission(P(mask)))
        elif mode == 'nested_all':
          st.enter_context(pg.coding.permission(P(mask)))
          st.enter_context(pg.coding.permission(P.ALL))
        elif mode == 'nested_none':
          st.enter_context(pg.coding.permission(P(mask)))
          st.enter_context(pg.coding.permission(P(0)))
        elif mode == 'outer_all':
          st.enter_context(pg.coding.permission(P.ALL))
          st.enter_context(pg.coding.permission(P(mask)))
        else:
          raise ValueError(mode)
        res['effective'] = int(pg.coding.get_permission().value)
        out = fn(src, global_vars=env, outputs_intermediate=True)
    res['outcome'] = 'ran'
    out = dict(out)
    res['stdout'] = out.pop('__stdout__', None)
    res['result'] = _norm(out.pop('__result__', None))
    res['vars'] = {k: _norm(v) for k, v in out.items()}
  except pg.coding.CodeError as ex:
    cause = ex.cause          # the documented attribute; it must also be the __cause__
    if isinstance(cause, SyntaxError):
      res['outcome'] = 'rejected'
      res['message'] = str(cause.msg)
      res['lineno'] = ex.lineno
    else:
      res['outcome'] = 'error'
      res['error'] = (type(cause).__name__, ex.lineno, _ADDR.sub(' at 0x?', str(cause)))
      res['cause_is_dunder_cause'] = ex.__cause__ is ex.cause
  except Exception as ex:  # pylint: disable=broad-except
    res['outcome'] = 'crash'
    res['error'] = (type(ex).__name__, str(ex)[:120])
  res['log'] = list(rec.log)
  res['state'] = harness_state(env)
  if pg.coding.get_permission() is not None:
    res['leaked_scope'] = int(pg.coding.get_permission().value)
  return res


def compare(ref: Dict[str, Any], got: Dict[str, Any], code: int) -> Optional[Tuple[str, str, Any, Any]]:
  """None if `got` is admissible for verdict code (0 ALLOW, 1 REJECT, 2 EITHER), else (clause, what, want, got)."""
  if 'leaked_scope' in got:
    return ('scope', 'permission scope still set after the block', None, got['leaked_scope'])
  if got['outcome'] == 'crash':
    return ('error_report', 'non-CodeError exception', 'CodeError or a result', got['error'])
  if ref['error'] is not None and ref['error'][0] == 'SyntaxError':
    # the text does not compile (e.g. a walrus in a comprehension iterable): a CodeError carrying the
    # SyntaxError is due whatever the permission.  Whether the statements before the last one have
    # already run by then is not compared (the library compiles the last expression separately) -
    # unless the verdict is REJECT, where nothing at all may run.
    if got['outcome'] == 'rejected' and (code != 1 or not got['log']):
      return None
    if got['outcome'] == 'rejected':
      return ('containment', 'partly executed before refusing', [], got['log'])
    return ('error_report', 'text that does not compile', 'CodeError(SyntaxError)', (got['outcome'], got['log']))
  if got['outcome'] == 'rejected':
    if code == 0:
      return ('faithful', 'refused', 'runs (every construct is granted)', got.get('message'))
    if got['log']:
      return ('containment', 'partly executed before refusing', [], got['log'])
    return None
  # it ran (or failed while running)
  if code == 1:
    return ('containment', 'executed', 'CodeError before anything runs', got['log'])
  if got['log'] != ref['log']:
    return ('faithful', 'log', ref['log'], got['log'])
  if ref['error'] is not None:
    if got['outcome'] != 'error':
      return ('error_report', 'no error reported', ref['error'], got['outcome'])
    if got['error'][0] != ref['error'][0]:
      return ('error_report', 'cause class', ref['error'][0], got['error'][0])
    if got['error'][2] != ref['error'][2]:
      return ('error_report', 'cause message', ref['error'][2], got['error'][2])
    if got['error'][1] not in ref['error'][1]:
      return ('error_report', 'line', ref['error'][1], got['error'][1])
    if not got.get('cause_is_dunder_cause'):
      return ('error_report', '__cause__ is not the cause', True, False)
    return None
  if got['outcome'] == 'error':
    return ('faithful', 'raised', None, got['error'])
  if got['stdout'] != ref['stdout']:
    return ('faithful', 'stdout', ref['stdout'], got['stdout'])
  if got['state'] != ref['state']:
    return ('faithful', 'stored-into objects', ref['state'], got['state'])
  if got['vars'] != ref['vars']:
    return ('faithful', 'intermediates', ref['vars'], got['vars'])
  if ref['result'] is not _NODEF and got['result'] != ref['result']:
    return ('faithful', 'result', ref['result'], got['result'])
  return None


def other_modes_agree(src: str, mask: int) -> Optional[Tuple[str, Any, Any]]:
  """returns_stdout / default return mode against outputs_intermediate (same permission, explicit argument)."""
  outs = []
  for kw in ({'outputs_intermediate': True}, {'returns_stdout': True}, {}):
    env, _ = make_env()
    try:
      outs.append(('ok', pg.coding.evaluate(src, global_vars=env, permission=P(mask), **kw)))
    except pg.coding.CodeError as ex:
      outs.append(('CodeError', type(ex.cause).__name__))
    except Exception as ex:  # pylint: disable=broad-except
      outs.append(('crash', type(ex).__name__))
  kinds = [o[0] for o in outs]
  if len(set(kinds)) != 1:
    return ('modes differ in outcome', kinds, None)
  if kinds[0] == 'ok':
    full = outs[0][1]
    if outs[1][1] != full.get('__stdout__'):
      return ('returns_stdout', full.get('__stdout__'), outs[1][1])
    if _norm(outs[2][1]) != _norm(full.get('__result__')):
      return ('default result', _norm(full.get('__result__')), _norm(outs[2][1]))
  return None


def run_history(src: str, mask: int, hist: List[int]) -> Dict[str, Any]:
  """Enters / leaves permission scopes as the history says (1 = the mask under test, 2 = ALL, 3 = nothing,
  0 = leave the innermost), evaluates src with no permission argument, then leaves what is still open."""
  env, rec = make_env()
  res: Dict[str, Any] = {'outcome': None}
  open_cms = []
  perms = {1: P(mask), 2: P.ALL, 3: P(0)}
  try:
    for op in hist:
      if op == 0:
        open_cms.pop().__exit__(None, None, None)
      else:
        cm = pg.coding.permission(perms[op])
        cm.__enter__()
        open_cms.append(cm)
    eff = pg.coding.get_permission()
    res['effective'] = None if eff is None else int(eff.value)
    try:
      out = dict(pg.coding.evaluate(src, global_vars=env, outputs_intermediate=True))
      res['outcome'] = 'ran'
      res['stdout'] = out.pop('__stdout__', None)
      res['result'] = _norm(out.pop('__result__', None))
      res['vars'] = {k: _norm(v) for k, v in out.items()}
    except pg.coding.CodeError as ex:
      if isinstance(ex.cause, SyntaxError):
        res['outcome'] = 'rejected'
        res['message'] = str(ex.cause.msg)
      else:
        res['outcome'] = 'error'
        res['error'] = (type(ex.cause).__name__, ex.lineno, _ADDR.sub(' at 0x?', str(ex.cause)))
        res['cause_is_dunder_cause'] = ex.__cause__ is ex.cause
  finally:
    while open_cms:
      open_cms.pop().__exit__(None, None, None)
  res['log'] = list(rec.log)
  res['state'] = harness_state(env)
  if pg.coding.get_permission() is not None:
    res['leaked_scope'] = int(pg.coding.get_permission().value)
  return res
