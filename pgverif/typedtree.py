"""S->C replay of TypedTree.tla behaviours through real typed pg.Dict / pg.List / pg.Object containers (C03).

The specification decides what every call must do (outcome, stored content, admissible prefixes of a rejected
batch); this module only executes the call through the public API, projects the content back into the value
records of ValueSpec.tla and compares.  In addition the Conforms clauses are evaluated directly on the real
container (declared keys only, required present unless partial, frozen value, size bounds, every member
accepted by its field spec and mapped to itself) so that a divergence is attributed to a clause.
"""
from __future__ import annotations

import contextlib
import copy
import json
import operator
from typing import Any, Dict, List, Optional, Tuple

import pyglove as pg
from pyglove.core import typing as pgt

from . import tlc
from . import valuespec as vs

MISSING = pg.MISSING_VALUE
REJECT = (TypeError, ValueError, KeyError)


class Model:
  """The real container type a TypedTree configuration talks about."""

  def __init__(self, kind: str, partial: bool = False, tag: Optional[str] = None):
    # (the schema of the dict kind depends on the mode: its own export configuration)
    tag = tag or ('dictp' if kind == 'dict' and partial else kind)
    data, r = tlc.export_json('TypedTreeExport', f'C03_export_{tag}.cfg', name=f'c03-export-{tag}', timeout=300)
    self.export_result = r
    self.kind = data['kind']
    assert self.kind == kind
    self.spec_rec = data['spec']
    self.lkey = data['listkey']
    self.lo, self.hi = data['lo'], data['hi']
    self.tspecs = data.get('tspecs', {})
    self.accw = bool(data.get('accw', True))
    self.keeper = None
    if kind == 'nest':
      # the nested classes (B, then A which refers to B), registered so that records <-> objects round-trip
      for cid, crec in data['classes']:
        if cid not in vs.CLASSES:
          cfields = [(vs.key_name(k), vs.build(f)) for k, f in crec['fields']]

          @pg.members(cfields)
          class TNested(pg.Object):
            allow_symbolic_assignment = True
          TNested.__name__ = f'N{cid}'
          vs.CLASSES[cid] = TNested
          vs.CLASS_IDS[TNested] = cid
    if kind in ('obj', 'nest'):
      self.new_class()
      self.value_spec = None
      self.fields = {vs.key_name(k): f for k, f in self.spec_rec['fields']}
    else:
      self.cls = None
      self.value_spec = vs.build(self.spec_rec)
      self.fields = {vs.key_name(k): f for k, f in self.spec_rec['fields']} if kind == 'dict' else {}

  def new_class(self):
    """A fresh pg.Object class for the schema (one per behaviour: field defaults are class-level state)."""
    fields = [(vs.key_name(k), vs.build(f)) for k, f in self.spec_rec['fields']]

    @pg.members(fields)
    class TObj(pg.Object):
      allow_symbolic_assignment = True
    self.cls = TObj

  def make(self, root: dict, partial: bool, ext: Optional[dict] = None):
    """A fresh real container holding the content `root` (a value record)."""
    if self.kind in ('obj', 'nest'):
      self.new_class()
    if self.kind == 'nest':
      # the free-standing object lives in an (untyped) keeper dict: it has a parent, so the holder stores copies
      self.keeper = pg.Dict(e=vs.mkvalue(ext))
      init = {vs.key_name(k): vs.mkvalue(v) for k, v in root['xs'] if v['t'] != 'missing'}
      return self.cls.partial(**init) if partial else self.cls(**init)
    if self.kind in ('list', 'list2'):
      return pg.List(vs.mkvalue(root), value_spec=vs.build(self.spec_rec), allow_partial=partial)
    init = {vs.key_name(k): vs.mkvalue(v) for k, v in root['xs'] if v['t'] != 'missing'}
    if self.kind == 'dict':
      return pg.Dict(init, value_spec=vs.build(self.spec_rec), allow_partial=partial, accessor_writable=self.accw)
    init.pop(vs.key_name(2), None)       # the frozen field is not an argument
    return self.cls.partial(**init) if partial else self.cls(**init)

  # ---- projection
  def content(self, c) -> dict:
    """Projection of the real container into a value record (a constant key that is absent is reported as
    holding the missing-value marker: the two are the same state of a partial value)."""
    if self.kind in ('list', 'list2'):
      return vs.encode(c)
    if self.kind == 'dict':
      kvs = dict((vs.key_code(k), vs.encode(v)) for k, v in c.sym_items())
    else:
      kvs = dict((vs.key_code(k), vs.encode(c.sym_getattr(k))) for k in c.sym_keys())
    for k, _ in self.spec_rec['fields']:
      if k > 0 and k not in kvs:
        kvs[k] = vs.V('missing')
    return vs.V('dict', 0, [[k, kvs[k]] for k in sorted(kvs)])

  def ext(self):
    return self.keeper.sym_getattr('e')

  def value(self, v: dict):
    """A fresh Python value for a value record; `tdict` / `tlist` records denote containers that already carry a
    value spec of their own (a pg.Dict created in partial mode or not, a pg.List)."""
    if v['t'] == 'tdict':
      init = {vs.key_name(k): vs.mkvalue(x) for k, x in v['xs'] if x['t'] != 'missing'}
      return pg.Dict(init, value_spec=vs.build(self.tspecs['tdict']), allow_partial=bool(v['a']))
    if v['t'] == 'tlist':
      return pg.List([vs.mkvalue(x) for x in v['xs']], value_spec=vs.build(self.tspecs[f'tlist{v["a"]}']))
    return vs.mkvalue(v)

  def construct(self, root: dict, partial: bool, omit: int):
    """Constructor as a write path: a new container from `root` without the argument `omit`."""
    init = {vs.key_name(k): vs.mkvalue(v) for k, v in root['xs'] if v['t'] != 'missing' and k != omit}
    if self.kind == 'dict':
      return pg.Dict(init, value_spec=vs.build(self.spec_rec), allow_partial=partial, accessor_writable=self.accw)
    init.pop(vs.key_name(2), None) if self.kind == 'obj' else None
    return self.cls.partial(**init) if partial else self.cls(**init)

  def the_list(self, c):
    if self.kind in ('list', 'list2'):
      return c
    name = vs.key_name(self.lkey)
    return c.sym_getattr(name)

  def lpath(self, i: int):
    return i if self.kind in ('list', 'list2') else f'{vs.key_name(self.lkey)}[{i}]'


def _ascope(aw: str):
  """pg.allow_writable_accessors(True / False) or no scope."""
  if aw == 'T':
    return pg.allow_writable_accessors(True)
  if aw == 'F':
    return pg.allow_writable_accessors(False)
  return contextlib.nullcontext()


def _scope(sc: str):
  if sc == 'T':
    return pg.allow_partial(True)
  if sc == 'F':
    return pg.allow_partial(False)
  return contextlib.nullcontext()


class UnknownAction(Exception):
  """The specification produced a call the driver does not know (machinery failure)."""


def execute(m: Model, c, act: List[Any]) -> Optional[BaseException]:
  """Executes the call `act` on the real container through the public API; returns the exception, if any."""
  name = act[0]
  val = m.value
  kn = vs.key_name
  try:
    if name in ('DSet', 'DSetAttr', 'OSetAttr', 'Rebind1', 'DSetDefault'):
      sc, k, v = act[1], act[2], act[3]
      with _scope(sc), _ascope(act[4] if len(act) > 4 else 'N'):
        if name == 'DSet':
          c[kn(k)] = val(v)
        elif name in ('DSetAttr', 'OSetAttr'):
          setattr(c, kn(k), val(v))
        elif name == 'Rebind1':
          c.rebind({kn(k[0]): val(v)}, raise_on_no_change=False)
        else:
          c.setdefault(kn(k), val(v))
    elif name in ('DDel', 'DPop'):
      with _scope(act[1]), _ascope(act[3] if len(act) > 3 else 'N'):
        if name == 'DDel':
          del c[kn(act[2])]
        else:
          c.pop(kn(act[2]))
    elif name == 'DClear':
      with _scope(act[1]), _ascope(act[2] if len(act) > 2 else 'N'):
        c.clear()
    elif name in ('DUpdate', 'DIor', 'Rebind2'):
      _, sc, k1, v1, k2, v2 = act
      upd = {kn(k1): val(v1), kn(k2): val(v2)}
      with _scope(sc):
        if name == 'DUpdate':
          c.update(upd)
        elif name == 'DIor':
          operator.ior(c, upd)
        else:
          c.rebind(upd, raise_on_no_change=False)
    elif name == 'CtorOmit':
      with _scope(act[1]):
        m.last_constructed = None
        m.last_constructed = m.construct(m.content(c), m.partial_ctor, act[2])
    elif name in ('NSetExtAttr', 'NSetExtRebind'):
      with _scope(act[1]):
        if name == 'NSetExtAttr':
          setattr(c, kn(1), m.ext())
        else:
          c.rebind({kn(1): m.ext()}, raise_on_no_change=False)
    elif name == 'NLeaf':
      _, tgt, via, sc, v = act
      x = m.ext() if tgt == 'ext' else c.sym_getattr(kn(1))
      with _scope(sc):
        if via == 'direct':
          x.sym_getattr(kn(1)).rebind({kn(1): val(v)}, raise_on_no_change=False)
        elif via == 'attr':
          setattr(x.sym_getattr(kn(1)), kn(1), val(v))
        elif tgt == 'ext':
          x.rebind({f'{kn(1)}.{kn(1)}': val(v)}, raise_on_no_change=False)
        else:
          c.rebind({f'{kn(1)}.{kn(1)}.{kn(1)}': val(v)}, raise_on_no_change=False)
    else:
      lst = m.the_list(c)
      def sl(a, b, k):
        return slice(None if a == vs.NONE else a, None if b == vs.NONE else b, k)
      if name == 'LDelSliceX':
        del lst[sl(act[1], act[2], act[3])]
      elif name == 'LSetSliceX':
        lst[sl(act[1], act[2], act[3])] = [val(x) for x in act[4]]
      elif name == 'LSet':
        lst[act[1]] = val(act[2])
      elif name == 'LRebindSet':
        c.rebind({m.lpath(act[1]): val(act[2])}, raise_on_no_change=False)
      elif name == 'LRebindAppend':
        c.rebind({m.lpath(act[1]): val(act[2])}, raise_on_no_change=False)
      elif name == 'LRebindInsert':
        c.rebind({m.lpath(act[1]): pg.Insertion(val(act[2]))}, raise_on_no_change=False)
      elif name == 'LRebind2':
        c.rebind({m.lpath(act[1]): val(act[2]), m.lpath(act[3]): val(act[4])}, raise_on_no_change=False)
      elif name == 'LDel':
        del lst[act[1]]
      elif name == 'LPop':
        lst.pop(act[1])
      elif name == 'LRemove':
        lst.remove(val(act[1]))
      elif name == 'LClear':
        lst.clear()
      elif name == 'LDelSlice':
        del lst[act[1]:act[2]]
      elif name == 'LSetSlice':
        lst[act[1]:act[2]] = [val(x) for x in act[3]]
      elif name == 'LAppend':
        lst.append(val(act[1]))
      elif name == 'LInsert':
        lst.insert(act[1], val(act[2]))
      elif name == 'LExtend':
        lst.extend([val(x) for x in act[1]])
      elif name == 'LIadd':
        operator.iadd(lst, [val(x) for x in act[1]])
      elif name == 'LImul':
        operator.imul(lst, act[1])
      else:
        raise UnknownAction(name)
  except UnknownAction:
    raise
  except BaseException as e:  # pylint: disable=broad-except
    if isinstance(e, (KeyboardInterrupt, SystemExit)):
      raise
    return e                 # whatever the code raises (assertions included) is an outcome, never a crash of the check
  return None


def arg_class(m: Model, act: List[Any]) -> str:
  """Coarse class of the argument (for finding signatures)."""
  recs = [a for a in act[1:] if isinstance(a, dict) and 't' in a]
  for a in act[1:]:
    if isinstance(a, (list, tuple)) and a and isinstance(a[0], dict):
      recs += list(a)
  if any(r['t'] == 'tlist' and r['a'] == 1 for r in recs):
    return 'typed_loose'           # a pg.List bound to a spec with a looser min_size than the field's
  if any(r['t'] in ('tdict', 'tlist') for r in recs):
    return 'typed'
  if any(r['t'] == 'missing' for r in recs):
    return 'missing'
  return 'value' if recs else 'none'


# ---------------------------------------------------------------------------
# direct evaluation of the Conforms clauses on the real container

def _member_ok(spec: pgt.ValueSpec, value, partial_ok: bool = False) -> bool:
  try:
    # (a symbolic object is only inspected by apply, and copying a partial one would re-validate it)
    arg = value if isinstance(value, pg.Object) else copy.deepcopy(value)
    r = spec.apply(arg, allow_partial=partial_ok)
  except Exception:  # pylint: disable=broad-except
    return False
  return pg.eq(r, value)


def direct_clauses(m: Model, c, partial_ok: bool) -> List[str]:
  """Names of the Conforms clauses the real container violates right now."""
  bad = []

  def check_list(lst, spec: pgt.List):
    if len(lst) < spec.min_size:
      bad.append('min_size')
    if spec.max_size is not None and len(lst) > spec.max_size:
      bad.append('max_size')
    for x in lst.sym_values() if isinstance(lst, pg.List) else lst:
      if not _member_ok(spec.element.value, x):
        bad.append('member')
        break

  if m.kind in ('list', 'list2'):
    check_list(c, c.value_spec)
    return bad + stale_facts(c)
  vspec = c.value_spec if m.kind == 'dict' else None
  sch = vspec.schema if vspec is not None else m.cls.__schema__
  keys = list(c.sym_keys())
  # the field a key belongs to, resolved here from the declared key specs (a declared constant key first, then the
  # first dynamic key spec that matches) -- not through the code's own per-key lookup, which is part of what is checked
  const_fields = {str(ks): f for ks, f in sch.items() if ks.is_const}

  def field_of(k):
    if k in const_fields:
      return const_fields[k]
    for ks, f in sch.items():
      if not ks.is_const and ks.match(k):
        return f
    return None
  for k in keys:
    if field_of(k) is None:
      bad.append('declared_keys')
  for key_spec, field in sch.items():
    if not key_spec.is_const:
      continue
    k = str(key_spec)
    v = c.sym_getattr(k) if k in keys else pg.MISSING_VALUE
    if pg.MISSING_VALUE == v:
      if not partial_ok:
        bad.append('required_present')
      continue
    if field.value.frozen and not pg.eq(v, field.value.default):
      bad.append('frozen')
  for k in keys:
    field = field_of(k)
    if field is None:
      continue
    v = c.sym_getattr(k)
    if pg.MISSING_VALUE == v:
      continue
    if isinstance(field.value, pgt.List) and isinstance(v, list):
      check_list(v, field.value)
    elif not _member_ok(field.value, v, partial_ok):
      bad.append('member')
  if _hand_missing(c) and not partial_ok:
    bad.append('partial_inside')       # a value with a MISSING member somewhere below, never made partial
  return bad + stale_facts(c)


def _hand_missing(node) -> bool:
  """Is a MISSING marker stored anywhere in the tree (walked by hand, no derived facts involved)."""
  if isinstance(node, pg.Symbolic):
    for _, v in node.sym_items():
      if pg.MISSING_VALUE == v or _hand_missing(v):
        return True
  return False


def stale_facts(c) -> List[str]:
  """is_partial / sym_missing() of every symbolic node below c must agree with the stored content."""
  bad = []

  def walk(node):
    if not isinstance(node, pg.Symbolic):
      return
    hm = _hand_missing(node)
    if bool(node.is_partial) != hm:
      bad.append('is_partial')
    if bool(node.sym_missing(flatten=True)) != hm:
      bad.append('sym_missing')
    for _, v in node.sym_items():
      if isinstance(v, pg.Symbolic) and v.sym_parent is not node:
        bad.append('child_detached')     # a stored child whose parent link is gone: changes below it reach nobody
      walk(v)
  walk(c)
  return bad


# ---------------------------------------------------------------------------

def _thaw(x):
  """tlaval freezes the members of a TLA+ set (records become tuples of (field, value) pairs): undo that."""
  if isinstance(x, tuple):
    if x and all(isinstance(e, tuple) and len(e) == 2 and isinstance(e[0], str) for e in x) \
       and {e[0] for e in x} == {'a', 't', 'xs'}:
      return {k: _thaw(v) for k, v in x}
    return [_thaw(e) for e in x]
  if isinstance(x, list):
    return [_thaw(e) for e in x]
  if isinstance(x, dict):
    return {k: _thaw(v) for k, v in x.items()}
  return x


def _norm(rec) -> str:
  return json.dumps(_thaw(rec), sort_keys=True)


def _rv(rec) -> str:
  """Readable form of a value record (never constructs anything, never fails)."""
  try:
    rec = _thaw(rec)
    t, a, xs = rec['t'], rec['a'], rec['xs']
    if t == 'none':
      return 'None'
    if t == 'missing':
      return 'MISSING'
    if t == 'bool':
      return str(bool(a))
    if t == 'int':
      return str(a)
    if t == 'float':
      return str(a / 10.0)
    if t == 'str':
      return repr(vs.STRS.get(a, a))
    if t in ('list', 'tuple'):
      return '[' + ', '.join(_rv(x) for x in xs) + ']'
    if t == 'tlist':
      return f'pg.List[spec {a}]([' + ', '.join(_rv(x) for x in xs) + '])'
    kv = ', '.join(f'{vs.key_name(k)}={_rv(x)}' for k, x in xs)
    if t == 'dict':
      return '{' + kv + '}'
    if t == 'tdict':
      return f'pg.Dict[typed, {"partial" if a else "non-partial"} mode]({kv})'
    if t == 'obj':
      return f'Obj{a}({kv})'
  except Exception:  # pylint: disable=broad-except
    pass
  return repr(rec)


def _show(act) -> List[Any]:
  out = []
  for a in act:
    if isinstance(a, dict) and 't' in a:
      out.append(_rv((a)))
    elif isinstance(a, (list, tuple)) and a and isinstance(a[0], dict):
      out.append([_rv((x)) for x in a])
    else:
      out.append(a)
  return out


def replay_behaviour(chk, m: Model, partial: bool, steps, hits: Dict[str, int], cfg: str, mirror: bool = False) -> None:
  """Replays one TLC behaviour; reports violations through chk; truncates after a divergence."""
  st0 = steps[0].state
  m.partial_ctor = partial
  m.last_constructed = None
  c = m.make(st0['root'], partial, _thaw(st0.get('ext')))
  history = []
  got0 = m.content(c)
  init_detail = {'cfg': cfg, 'kind': m.kind, 'partial_ctor': partial, 'step': 0, 'call': ['Init'],
                 'spec_content': _rv((st0['root'])), 'after': _rv((got0)), 'mirror': mirror,
                 'behaviour': [{'act': ['Init'], 'out': 'ok', 'root': _thaw(st0['root']), 'pok': st0['pok'],
                                'alts': [_thaw(st0['root'])], 'ext': _thaw(st0.get('ext'))}]}
  init_bad = sorted(set(direct_clauses(m, c, bool(st0['pok']))))
  if init_bad or _norm(got0) != _norm(st0['root']):
    # "after construction": the constructor is a write path as well
    for cl in init_bad or ['stored_content']:
      chk.violation({'action': 'Init', 'kind': m.kind, 'arg': 'value', 'clause': cl}, dict(init_detail, violated='Conforms'))
    chk.traces += 1
    return
  for n, step in enumerate(steps[1:], 1):
    st = step.state
    act = list(st['act'])
    name = act[0]
    before = m.content(c)
    exc = execute(m, c, act)
    try:
      after = m.content(c)
    except Exception as e:  # pylint: disable=broad-except
      # the container can no longer be read back: an unexpected state is a violation, not a crash of the check
      chk.violation({'action': name, 'kind': m.kind, 'arg': arg_class(m, act), 'spec_out': st['out'],
                     'clause': 'unreadable_state'},
                    {'cfg': cfg, 'kind': m.kind, 'step': n, 'call': _show(act), 'before': _rv(before),
                     'error': f'{type(e).__name__}: {e}', 'impl_outcome': 'ok' if exc is None else type(exc).__name__})
      hits['truncated'] = hits.get('truncated', 0) + 1
      break
    history.append({'call': _show(act), 'spec_out': st['out'], 'impl': 'ok' if exc is None else type(exc).__name__})
    hits[f'{name}:{st["out"]}'] = hits.get(f'{name}:{st["out"]}', 0) + 1
    chk.evaluations += 1
    alts = {_norm(x) for x in st['alts']}
    detail = {'cfg': cfg, 'kind': m.kind, 'partial_ctor': partial, 'step': n, 'call': _show(act),
              'before': _rv((before)), 'after': _rv((after)),
              'spec_out': st['out'], 'spec_content': _rv((st['root'])),
              'impl_outcome': 'ok' if exc is None else f'{type(exc).__name__}: {str(exc)[:160]}',
              'history': history[-8:],
              'behaviour': [{'act': _thaw(s_.state['act']), 'out': s_.state['out'], 'root': _thaw(s_.state['root']),
                             'pok': s_.state['pok'], 'alts': [_thaw(x) for x in s_.state['alts']],
                             'ext': _thaw(s_.state.get('ext'))}
                            for s_ in steps[:n + 1]],
              'mirror': mirror}
    base_sig = {'action': name, 'kind': m.kind, 'arg': arg_class(m, act), 'spec_out': st['out']}
    if not m.accw:
      base_sig['accessor_writable'] = False
    if name in ('DSet', 'DSetAttr', 'OSetAttr', 'DSetDefault') and len(act) > 4 and act[4] != 'N':
      base_sig['accessor_scope'] = act[4]
    elif name in ('DDel', 'DPop') and len(act) > 3 and act[3] != 'N':
      base_sig['accessor_scope'] = act[3]
    elif name == 'DClear' and len(act) > 2 and act[2] != 'N':
      base_sig['accessor_scope'] = act[2]
    if name in ('DSet', 'DSetAttr', 'OSetAttr', 'DSetDefault', 'DDel', 'DPop', 'CtorOmit'):
      base_sig['key'] = act[2]
    elif name == 'Rebind1':
      base_sig['key'] = act[2][0]
    try:
      clauses = direct_clauses(m, c, bool(st['pok']))
      if name == 'CtorOmit' and exc is None and m.last_constructed is not None:
        eff = partial if act[1] == 'N' else act[1] == 'T'
        new_bad = direct_clauses(m, m.last_constructed, eff)
        clauses = clauses + ['constructed_' + x for x in new_bad]
        detail['constructed'] = _rv(m.content(m.last_constructed))
    except Exception as e:  # pylint: disable=broad-except
      # the clauses cannot even be evaluated on what the call left behind: an unexpected state is a violation
      clauses = ['unreadable_state']
      if st['out'] in ('err', 'any', 'perm') and _norm(after) not in alts:
        clauses.append('rejected_write_stored')
      if st['out'] == 'ok' and exc is not None and _norm(after) != _norm(before):
        clauses.append('failed_call_stored')       # the call raised although acceptable, and left a changed content
      detail['error'] = f'{type(e).__name__}: {e}'
    if m.kind == 'nest' and 'unreadable_state' not in clauses:
      clauses = clauses + stale_facts(m.ext())
      ext_now = vs.encode(m.ext())
      detail['ext'] = repr(ext_now)
      if not clauses and _norm(ext_now) != _norm(st['ext']):
        clauses = ['ext_content' if st['out'] == 'ok' else 'rejected_write_stored']
    stop = False
    if clauses:
      # the real container holds a state its schema rejects
      for cl in sorted(set(clauses)):
        chk.violation(dict(base_sig, clause=cl), dict(detail, violated='Conforms', clause=cl))
      stop = True
    elif st['out'] == 'perm':
      # an accessor-style write while accessors are not writable: WritePermissionError and nothing stored
      if exc is None:
        chk.violation(dict(base_sig, clause='accessor_write_not_refused'), dict(detail, violated='accessor_writable'))
        stop = True
      elif not isinstance(exc, pg.WritePermissionError):
        chk.violation(dict(base_sig, clause='error_class', error=type(exc).__name__), dict(detail, violated='error class'))
        stop = True
      elif _norm(after) not in alts:
        chk.violation(dict(base_sig, clause='rejected_write_stored'), dict(detail, violated='RejectedWriteNoStore'))
        stop = True
    elif st['out'] == 'any':
      # don't-care outcome (MISSING written to an undeclared key): raising or not, nothing may be stored
      if exc is not None and not isinstance(exc, REJECT):
        chk.violation(dict(base_sig, clause='error_class', error=type(exc).__name__), dict(detail, violated='error class'))
        stop = True
      elif _norm(after) not in alts:
        chk.violation(dict(base_sig, clause='rejected_write_stored'), dict(detail, violated='RejectedWriteNoStore'))
        stop = True
    elif st['out'] == 'err':
      if exc is None:
        chk.violation(dict(base_sig, clause='rejected_write_accepted'), dict(detail, violated='RejectedWriteNoStore'))
        stop = True
      elif not isinstance(exc, REJECT):
        chk.violation(dict(base_sig, clause='error_class', error=type(exc).__name__), dict(detail, violated='error class'))
        stop = True
      elif _norm(after) not in alts:
        chk.violation(dict(base_sig, clause='rejected_write_stored'), dict(detail, violated='RejectedWriteNoStore'))
        stop = True
      elif _norm(after) != _norm(st['root']):
        hits['batch_prefix_differs'] = hits.get('batch_prefix_differs', 0) + 1
        stop = True        # an admissible prefix, but not the one the behaviour continues from
    else:
      if exc is not None and mirror:
        hits['mirror_step_rejected_by_code'] = hits.get('mirror_step_rejected_by_code', 0) + 1
        stop = True
      elif exc is not None and _norm(after) != _norm(before):
        # the call failed although the specification accepts it AND it left a changed content behind
        chk.violation(dict(base_sig, clause='failed_call_stored', error=type(exc).__name__),
                      dict(detail, violated='RejectedWriteNoStore'))
        stop = True
      elif exc is not None:
        # the statement does not forbid a stricter implementation, but then the specification no longer
        # describes the code: machinery failure, not a violation
        hits['valid_write_rejected'] = hits.get('valid_write_rejected', 0) + 1
        chk.notes.setdefault('valid_write_rejected', [])
        if len(chk.notes['valid_write_rejected']) < 5:
          chk.notes['valid_write_rejected'].append(detail)
        stop = True
      elif _norm(after) != _norm(st['root']):
        chk.violation(dict(base_sig, clause='stored_content'), dict(detail, violated='accepted => store Apply(value)'))
        stop = True
    if stop:
      hits['truncated'] = hits.get('truncated', 0) + 1
      break
  chk.traces += 1
  chk.distinct_case(tuple(_norm(s.state['act']) for s in steps[1:len(history) + 1]))
  if len(chk.samples) < 4 and len(history) >= 3:
    chk.sample({'cfg': cfg, 'init': _rv((st0['root'])), 'calls': history[:6]})


def replay_simulated(chk, kind: str, partial: bool, cfg: str, num: int, depth: int, seed: int,
                     model: Optional[Model] = None) -> Dict[str, int]:
  m = model or Model(kind, partial)
  behaviours, r = tlc.simulate('TypedTree', cfg, num=num, depth=depth, seed=seed, name=f'c03-{cfg[:-4]}', timeout=1500)
  chk.add_tlc(r, count_states=False)
  if not r.ok:
    raise tlc.TLCError(f'TypedTree simulation {cfg} violates {r.violated}: the model itself is wrong')
  hits: Dict[str, int] = {}
  for b in behaviours:
    if len(b) >= 2:
      replay_behaviour(chk, m, partial, b, hits, cfg)
  return hits


def model_check(chk, cfg: str, timeout: int = 1500, coverage: bool = False):
  """Exhaustive TLC run of TypedTree with the invariants Conforms / AltsConform and the action property."""
  r = tlc.run('TypedTree', cfg, name=f'c03-mc-{cfg[:-4]}', timeout=timeout, coverage=coverage)
  chk.add_tlc(r)
  if not r.ok:
    raise tlc.TLCError(f'TypedTree {cfg}: {r.violated} violated in the model (intended semantics): '
                       f'{[s["state"].get("act") for s in (r.error_trace or [])]}')
  return r


def mirror_search(chk, cfg: str, kind: str, partial: bool, hits: Dict[str, int], model: Optional[Model] = None):
  """TLC searches the design *as coded* (Mirror = TRUE) for a Conforms violation; the counter-example is replayed
  on the real code before it is believed."""
  r = tlc.run('TypedTree', cfg, name=f'c03-mirror-{cfg[:-4]}', timeout=600, allow_violation=True)
  chk.add_tlc(r)
  if r.ok:
    chk.notes['mirror'] = 'no violation in the coded design'
    return r
  steps = [tlc.Step(s['action'], [], s['state']) for s in (r.error_trace or [])]
  chk.require(len(steps) >= 2 and all('act' in s.state for s in steps), 'mirror counter-example could not be parsed')
  chk.notes['mirror'] = {'violated': r.violated, 'calls': [_show(list(s.state['act'])) for s in steps[1:]]}
  replay_behaviour(chk, model or Model(kind, partial), partial, steps, hits, cfg, mirror=True)
  return r


def action_counts(chk, cfg: str) -> Dict[str, int]:
  """Number of transitions per action in the (small) state graph of `cfg`."""
  _, edges, _, r = tlc.dump_graph('TypedTree', cfg, name=f'c03-graph-{cfg[:-4]}', timeout=300)
  chk.add_tlc(r, count_states=False)
  out: Dict[str, int] = {}
  for _, _, a, _ in edges:
    out[a] = out.get(a, 0) + 1
  return out


def replay_file(chk, path: str) -> None:
  """Re-executes the behaviour stored in a replay file (states as TLC produced them) on the real code."""
  rec = json.load(open(path))
  d = rec['detail']
  steps = [tlc.Step('replay', [], dict(b)) for b in d['behaviour']]
  hits: Dict[str, int] = {}
  replay_behaviour(chk, Model(d['kind'], bool(d['partial_ctor'])), bool(d['partial_ctor']), steps, hits, d.get('cfg', 'replay'),
                   mirror=bool(d.get('mirror')))
  chk.notes['action_outcome_hits'] = hits
  chk.states = max(chk.states, len(steps))
  chk.transitions = max(chk.transitions, len(steps) - 1)
