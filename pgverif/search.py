"""C15 - S->C double run of Search.tla behaviours on the real search algorithms.

Every behaviour TLC produces for specs/Search.tla (Propose / Feedback(i) / CrashRecover steps with
the observable state the specification expects after each of them) is executed on REAL algorithm
objects twice:

  U  the uninterrupted run (CrashRecover steps are skipped);
  C  the crash run: at a CrashRecover step the live instance is thrown away, a fresh instance of the
     same algorithm is set up on the same space and `recover()`s the persisted history, whose DNAs
     went through pg.to_json_str / pg.from_json_str.

After every step Obs(U), Obs(C) and the specification's `obs` are compared clause by clause
(num_proposals, num_feedbacks, population with fitness metadata, elites, num_generations,
initial-phase flag, de-duplication memory, the wrapped generator's observable state); at every
Propose step the DNA and its metadata must agree, and history-determined algorithms must continue
with the same proposals after the behaviour ends.

  Obs(C) != Obs(U)            -> property violation (signature = family, clause, circumstances)
  Obs(U) != specification    -> the model does not describe the algorithm: machinery failure

The specification chooses what cannot be controlled from outside through two oracles which the
harness realises on the real code: the draws of the seeded RNG (`stream`, realised by picking a real
seed whose draws have that prefix - the streams TLC may use are the observed streams of real seeds)
and the children of an evolution step (`kids`, realised by a scripted Mutator plugged into the
shipped constructors regularized_evolution / hill_climb / nsga2 / neat).
"""
from __future__ import annotations

import collections
import json
import multiprocessing as mp
import os
import random
import re
from typing import Any, Dict, List, Optional, Tuple

import pyglove as pg
from pyglove.ext import evolution as evo

from . import tlaval, tlc
from .core import WORK

MAXATT = 3          # Deduping.max_proposal_attempts used everywhere (= MaxAtt of the cfgs)

# ---------------------------------------------------------------------------------------------
# Spaces.  DNAs are numbered 1..D in sweeping order, as in the specification.


class Space:

  def __init__(self, name: str, template):
    self.name = name
    self.spec = pg.dna_spec(template)
    self.dnas = list(self.spec.iter_dna())
    self.numbers = [tuple(d.to_numbers()) for d in self.dnas]
    self.index = {n: i + 1 for i, n in enumerate(self.numbers)}
    self.D = len(self.dnas)

  def idx(self, dna: pg.DNA) -> int:
    return self.index[tuple(dna.to_numbers())]

  def fresh(self, i: int) -> pg.DNA:
    return pg.DNA.from_numbers(list(self.numbers[i - 1]), self.spec)


def spaces_for(d: int) -> List[Space]:
  if d == 3:
    return [Space('oneof3', pg.oneof([0, 1, 2])),
            Space('conditional', pg.oneof([pg.oneof(['a', 'b']), 'c'])),
            Space('manyof2of3', pg.manyof(2, [0, 1, 2], distinct=True, sorted=True))]
  if d == 4:
    return [Space('grid2x2', pg.Dict(x=pg.oneof([0, 1]), y=pg.oneof([0, 1]))),
            Space('oneof4', pg.oneof([0, 1, 2, 3])),
            Space('nested2x2', pg.oneof([pg.oneof(['a', 'b']), pg.oneof(['c', 'd'])]))]
  raise ValueError(d)


def seed_streams(spaces: List[Space], seeds: List[int], length: int):
  """Draws of pg.geno.Random(seed) on each space: (streams, prefix -> [(space index, seed)])."""
  streams = []
  prefix_map: Dict[Tuple[int, ...], List[Tuple[int, int]]] = collections.defaultdict(list)
  for si, sp in enumerate(spaces):
    for seed in seeds:
      g = pg.geno.Random(seed=seed)
      g.setup(sp.spec)
      st = [sp.idx(g.propose()) for _ in range(length)]
      streams.append(st)
      for n in range(length + 1):
        prefix_map[tuple(st[:n])].append((si, seed))
  return streams, prefix_map


# ---------------------------------------------------------------------------------------------
# The scripted mutator: children of an evolution step are the ones the behaviour names.

_SCRIPTS: Dict[int, Tuple[collections.deque, Space]] = {}
_NEXT_SLOT = [0]


@pg.members([('slot', pg.typing.Int())])
class ScriptedMutator(evo.Mutator):
  """Returns the next child of the script (a fresh DNA without metadata)."""

  def mutate(self, dna, step):    # pylint: disable=arguments-differ
    del dna
    q, space = _SCRIPTS[self.slot]
    _STEPS.setdefault(self.slot, []).append(step)     # the `step` the evolution handed to its reproduction
    return space.fresh(q.popleft())


_STEPS: Dict[int, List[int]] = {}


FAMILY = {
    'sweep': 'sweep', 'random': 'random',
    'regevo': 'evo', 'hill': 'evo', 'hill2': 'evo', 'nsga2': 'evo', 'neat': 'evo', 'sched': 'evo',
    'dd_sweep': 'dedup(sweep)', 'dd_random': 'dedup(random)', 'dd_random2': 'dedup(random)',
    'dd_regevo': 'dedup(evo)', 'dd_hill_auto': 'dedup(evo)',
}
DET = {'sweep', 'random', 'dedup(sweep)', 'dedup(random)'}


def rw_of(cfg: str, d: int, i: int):
  """The feedback function of the harness = Rw(d, i) of the specification."""
  r = float(10 * (d + 1 if d % 2 == 1 else d - 1) + i)
  return (r, r) if cfg == 'nsga2' else r


def make(cfg: str, space: Space, seed: int, slot: int):
  """The algorithm configuration `cfg` of Search.tla (Conf) built with the shipped constructors."""
  mut = ScriptedMutator(slot)
  if cfg == 'sweep':
    return pg.geno.Sweeping()
  if cfg == 'random':
    return pg.geno.Random(seed=seed)
  if cfg == 'regevo':
    return evo.regularized_evolution(mutator=mut, population_size=2, tournament_size=2, seed=seed)
  if cfg == 'hill':
    return evo.hill_climb(mutator=mut, batch_size=1, init_population_size=1, seed=seed)
  if cfg == 'hill2':
    return evo.hill_climb(mutator=mut, batch_size=2, init_population_size=2, seed=seed)
  if cfg == 'nsga2':
    return evo.nsga2(mutator=mut, population_size=2, seed=seed)
  if cfg == 'neat':
    return evo.neat(mutator=mut, population_size=2, seed=seed)
  if cfg == 'sched':
    # operations that read `step` (a scheduled population size and a scheduled number of children): the step
    # a recovered instance hands to them must be the one the uninterrupted instance handed
    return evo.Evolution(
        evo.selectors.Top(1) >> (mut * (lambda step: 2 if step % 2 == 0 else 1)),
        population_init=(pg.geno.Random(seed=seed), 2),
        population_update=evo.selectors.Last(lambda step: 1 if step % 2 == 1 else 3))
  if cfg == 'dd_sweep':
    return pg.geno.Deduping(pg.geno.Sweeping(), hash_fn=lambda d: (space.idx(d) + 1) // 2,
                            max_proposal_attempts=MAXATT)
  if cfg == 'dd_random':
    return pg.geno.Deduping(pg.geno.Random(seed=seed), max_proposal_attempts=MAXATT)
  if cfg == 'dd_random2':
    return pg.geno.Deduping(pg.geno.Random(seed=seed), max_duplicates=2, max_proposal_attempts=MAXATT)
  if cfg == 'dd_regevo':
    # NOTE the default hash (pg.hash of the DNA) covers the metadata, which differs for every proposal of
    # an evolution (proposal_id): over an evolution the de-duplication key must be given explicitly.
    return pg.geno.Deduping(
        evo.regularized_evolution(mutator=mut, population_size=2, tournament_size=2, seed=seed),
        hash_fn=space.idx, max_proposal_attempts=MAXATT)
  if cfg == 'dd_hill_auto':
    return pg.geno.Deduping(
        evo.hill_climb(mutator=mut, batch_size=1, init_population_size=1, seed=seed),
        hash_fn=space.idx, auto_reward_fn=lambda rs: max(rs),   # pylint: disable=unnecessary-lambda
        max_proposal_attempts=MAXATT)
  raise ValueError(cfg)


HISTORY_FORMS = ('list', 'generator', 'tuple', 'iterator', 'map')


def as_form(pairs: list, form: str):
  if form == 'list':
    return list(pairs)
  if form == 'tuple':
    return tuple(pairs)
  if form == 'generator':
    return (p for p in pairs)
  if form == 'iterator':
    return iter(list(pairs))
  if form == 'map':
    return map(lambda p: (p[0], p[1]), pairs)
  raise ValueError(form)


class Run:
  """One real run of one algorithm instance (the instance is replaced at a crash)."""

  def __init__(self, cfg: str, space: Space, seed: int):
    self.cfg, self.space, self.seed = cfg, space, seed
    self.slot = _NEXT_SLOT[0]
    _NEXT_SLOT[0] += 1
    self.q: collections.deque = collections.deque()
    _SCRIPTS[self.slot] = (self.q, space)
    self.alg = make(cfg, space, seed, self.slot)
    self.alg.setup(space.spec)
    self.live: List[pg.DNA] = []      # the DNA object of every history entry, as this run holds it

  def close(self):
    _SCRIPTS.pop(self.slot, None)
    _STEPS.pop(self.slot, None)

  def propose(self, kids: List[int]):
    self.q.clear()
    self.q.extend(list(kids) * (MAXATT if self.cfg.startswith('dd_') else 1))
    self.steps = _STEPS[self.slot] = []
    try:
      return 'ok', self.alg.propose()
    except StopIteration:
      return 'stop', None
    except Exception as e:   # pylint: disable=broad-except
      return 'exc', f'{type(e).__name__}: {e}'[:200]
    finally:
      self.q.clear()


# ---------------------------------------------------------------------------------------------
# Projection of a real instance onto the clauses of ObsG.


def _rw_int(r) -> int:
  if isinstance(r, (tuple, list)):
    r = r[0]
  return 0 if r is None else int(r)


def _ind(space: Space, d: pg.DNA) -> dict:
  m = d.metadata
  return dict(pid=m.get('proposal_id', 0), dna=space.idx(d), gen=m.get('generation_id', 0),
              init=bool(m.get('initial_population', False)),
              fsn=m.get('feedback_sequence_number') or 0, rw=_rw_int(m.get('reward')))


def _evo_clauses(space: Space, a, prefix: str, lost: int) -> dict:
  gs = a.global_state
  return {
      prefix + 'np': a.num_proposals - lost,
      prefix + 'nf': a.num_feedbacks,
      # the only private read: which phase the evolution is in (its public consequence - the
      # metadata of the next proposals - is compared as well)
      prefix + 'idone': getattr(a, '_population_initialized', None),
      prefix + 'gen': a.num_generations,
      prefix + 'pop': [_ind(space, d) for d in a.population],
      prefix + 'el': [_ind(space, d) for d in gs.get('elites', [])] if 'elites' in gs else [],
  }


def observe(run: Run, lost: int, keymap: Dict[Any, int]) -> dict:
  a, space, fam = run.alg, run.space, FAMILY[run.cfg]
  if fam == 'evo':
    return _evo_clauses(space, a, '', 0)
  o = {'np': a.num_proposals, 'nf': a.num_feedbacks}
  if fam.startswith('dedup'):
    cache = getattr(a, '_cache', None)     # de-duplication memory (hash -> rewards)
    if cache is not None:
      per_key = [[] for _ in range(space.D)]
      for k, v in cache.items():
        sk = keymap.get(k)
        if sk is None:
          per_key.append(['unknown key', repr(k)])
          continue
        per_key[sk - 1] = per_key[sk - 1] + list(v)
      if fam == 'dedup(evo)':
        o['cache'] = [sorted(_rw_int(x) for x in v) for v in per_key]
      else:
        o['cache'] = [[len(v)] for v in per_key]
    if fam == 'dedup(evo)':
      o.update(_evo_clauses(space, a.generator, 'inner.', lost))
  return o


def spec_clauses(obs: dict) -> dict:
  """Flattens the `obs` record of a specification state into the same clause names."""
  top = obs['top']
  o = {'np': top['np'], 'nf': top['nf']}
  o.update({'idone': top['idone'], 'gen': top['gen'], 'pop': list(top['pop']), 'el': list(top['el'])})
  if obs['cache']:
    o['cache'] = [list(x) for x in obs['cache']]
  if obs['inner']:
    for k, v in obs['inner'].items():
      o['inner.' + k] = list(v) if isinstance(v, list) else v
  return o


def diff_clauses(a: dict, b: dict) -> List[str]:
  out = []
  for k in a:
    if k in b and a[k] is not None and b[k] is not None and a[k] != b[k]:
      out.append(k)
  return out


_META_KEYS = ('proposal_id', 'generation_id', 'initial_population', 'reward', 'dedup_key')


def _meta(d: pg.DNA) -> dict:
  return {k: d.metadata.get(k) for k in _META_KEYS if k in d.metadata}


# ---------------------------------------------------------------------------------------------
# The double run of one behaviour.


def _spec_meta(cfg: str, e: dict) -> dict:
  """Metadata the specification expects on a proposal (history entry e)."""
  m = {}
  if FAMILY[cfg] in ('evo', 'dedup(evo)'):
    m.update(proposal_id=e['pid'], generation_id=e['gen'], initial_population=e['init'])
  if e['arw']:
    m['reward'] = float(e['arw'])
  return m


def replay(beh: List[Tuple[list, dict]], space: Space, seed: int, mirror: bool = False,
           tail: int = 3) -> dict:
  """Double run of one behaviour: beh = [(act, state)], state 0 = Init.  Returns a result dict."""
  st0 = beh[0][1]
  cfg, pm = st0['cfg'], st0['pm']
  fam = FAMILY[cfg]
  res = dict(cfg=cfg, pm=pm, space=space.name, seed=seed, steps=0, violations=[], machinery=None,
             counters=collections.Counter(), acts=[])
  U, C = Run(cfg, space, seed), Run(cfg, space, seed)
  runs = [U, C]
  u_on = True                    # the uninterrupted run is still comparable (see below)
  hist: List[list] = []          # persisted: [json of the DNA, reward or None]
  fb_order: List[int] = []
  keymap: Dict[Any, int] = {}
  crashed = stopped = diverged = False
  forms_used: List[str] = []
  prev_spec = spec_clauses(st0['obs'])

  def flags(state_before: dict) -> dict:
    sh = state_before['hist']
    alg = state_before['alg']
    idone = prev_spec.get('inner.idone', prev_spec.get('idone'))
    return dict(inflight=any(h[1] is None for h in hist),
                init_phase=(fam in ('evo', 'dedup(evo)') and not idone),
                out_of_order=fb_order != sorted(fb_order),
                dup_dropped=(sum(e['draws'] for e in sh) != len(sh)) or bool(alg.get('lost', 0)))

  def violate(clause: str, state_before: dict, detail: dict):
    sig = dict(alg=fam, clause=clause, **flags(state_before))
    d = dict(config=cfg, persist=pm, space=space.name, seed=seed, D=space.D, step=len(res['acts']),
             history=[a for a in res['acts']], reference='uninterrupted run' if u_on else 'specification',
             **detail)
    d['mirror'] = mirror
    d['history_passed_as'] = list(forms_used)
    d['behaviour'] = [[a, s] for a, s in beh[:len(res['acts']) + 1]]     # for ./check C15 --replay
    res['violations'].append((sig, d))

  def show(r):
    return f'{r[0]} {space.idx(r[1])}' if r[0] == 'ok' else f'{r[0]} {r[1] or ""}'.strip()

  try:
    for k in range(1, len(beh)):
      act, state = beh[k]
      before = beh[k - 1][1]
      name = act[0]
      res['acts'].append(act)
      if name in ('Propose', 'ProposeStop'):
        kids = list(act[2])
        want = 'ok' if name == 'Propose' else 'stop'
        entry = state['hist'][-1] if want == 'ok' else None
        agrees = lambda r: r[0] == want and (want != 'ok' or space.idx(r[1]) == act[1])   # pylint: disable=cell-var-from-loop
        rc = C.propose(kids)
        if u_on:
          ru = U.propose(kids)
          if not agrees(ru) or (want == 'ok' and any(ru[1].metadata.get(a) != b for a, b in _spec_meta(cfg, entry).items())):
            if mirror and crashed:
              break     # a design-level counter-example continues on the as-coded state: stop here
            if crashed and fam not in DET:
              # A crash loses state that is not part of the history by design (the pending batch of an
              # evolution, the initial-population generator's draws for proposals still in flight): from
              # here on the uninterrupted run legitimately proposes something else; the crash run is
              # compared with the specification alone.
              u_on = False
              res['counters']['uninterrupted_run_dropped'] += 1
            else:
              res['machinery'] = (f'{cfg}/{space.name}/seed {seed}: step {k} {act}: the uninterrupted run answered '
                                  f'{show(ru)} {_meta(ru[1]) if ru[0] == "ok" else ""}; history {res["acts"]}')
              break
        if u_on:
          if rc[0] != ru[0]:
            violate('propose_outcome', before, dict(uninterrupted=show(ru), recovered=show(rc)))
            diverged = True
          elif want == 'ok' and space.idx(ru[1]) != space.idx(rc[1]):
            violate('next_proposals', before, dict(uninterrupted=space.idx(ru[1]), recovered=space.idx(rc[1])))
            diverged = True
          elif want == 'ok' and _meta(ru[1]) != _meta(rc[1]):
            violate('proposal_metadata', before, dict(uninterrupted=_meta(ru[1]), recovered=_meta(rc[1])))
            diverged = True
          elif fam == 'evo' and U.steps != C.steps:
            # (under Deduping the wrapped evolution's proposal counter, hence this step, is only comparable net of
            # the proposals dropped as duplicates - see `lost` - and is not compared here)
            violate('operation_step', before, dict(uninterrupted=list(U.steps), recovered=list(C.steps)))
            diverged = True
        else:
          if rc[0] != want:
            violate('propose_outcome', before, dict(uninterrupted=want, recovered=show(rc)))
            diverged = True
          elif want == 'ok' and space.idx(rc[1]) != act[1]:
            violate('next_proposals', before, dict(uninterrupted=act[1], recovered=space.idx(rc[1])))
            diverged = True
          elif want == 'ok' and any(rc[1].metadata.get(a) != b for a, b in _spec_meta(cfg, entry).items()):
            violate('proposal_metadata', before, dict(uninterrupted=_spec_meta(cfg, entry), recovered=_meta(rc[1])))
            diverged = True
        if want == 'ok' and not diverged:
          dc = rc[1]
          if u_on:
            U.live.append(ru[1])
          C.live.append(dc)
          hist.append([pg.to_json_str(dc), None])
          if 'dedup_key' in dc.metadata:
            keymap[dc.metadata['dedup_key']] = ((space.idx(dc) + 1) // 2 if cfg == 'dd_sweep' else space.idx(dc))
        if want == 'stop':
          stopped = True
        res['counters'][name] += 1
      elif name == 'Feedback':
        i = act[1] - 1
        dc = C.live[i]
        auto = dc.metadata.get('reward') if fam == 'dedup(evo)' else None
        r = auto if auto is not None else rw_of(cfg, space.idx(dc), i + 1)
        if u_on:
          U.alg.feedback(U.live[i], r)
        try:
          C.alg.feedback(dc, r)
        except Exception as e:   # pylint: disable=broad-except
          violate('feedback_raises', before, dict(error=f'{type(e).__name__}: {e}'[:200]))
          diverged = True
        hist[i][1] = r
        fb_order.append(i)
        if pm == 'feedback' and not diverged:
          hist[i][0] = pg.to_json_str(dc)
        res['counters']['Feedback'] += 1
        if auto is not None:
          res['counters']['auto_reward_feedback'] += 1
      elif name == 'Crash':
        R = Run(cfg, space, seed)
        runs.append(R)
        objs = [pg.from_json_str(j) for j, _ in hist]
        # recover() takes an Iterable: the persisted history is handed over in every container form the
        # signature allows, incl. one-shot ones (a generator / a lazily decoded log can be read only once)
        # (which one is a function of the configuration, the seed and the calls made so far)
        salt = seed + sum(map(ord, cfg)) + sum(len(a) + (a[1] if len(a) > 1 and isinstance(a[1], int) else 0)
                                               for a in res['acts'])
        form = HISTORY_FORMS[salt % len(HISTORY_FORMS)]
        forms_used.append(form)
        res['counters']['Crash:history=' + form] += 1
        try:
          R.alg.recover(as_form([(o, h[1]) for o, h in zip(objs, hist)], form))
        except Exception as e:   # pylint: disable=broad-except
          violate('recover_raises', before, dict(error=f'{type(e).__name__}: {e}'[:200]))
          diverged = True
        R.live = objs
        C = R
        crashed = True
        if fam == 'dedup(evo)' and not diverged:
          # the wrapped evolution's proposal counter after recovery: history length or including the dropped
          # duplicates - both admissible (Search.tla RecVariants); follow the branch the code takes
          real_np = R.alg.generator.num_proposals
          alts = {len(hist), sum(e['draws'] for e in state['hist'])}
          if real_np != state['alg']['in']['np'] and real_np in alts:
            res['counters']['other_recovery_variant'] += 1
            break
        res['counters']['Crash'] += 1
        res['counters'][f'Crash:inflight={sum(1 for h in hist if h[1] is None)}'] += 1
        if fb_order != sorted(fb_order):
          res['counters']['Crash:after_out_of_order_feedback'] += 1
      else:
        raise ValueError(act)
      if diverged:
        break
      # inner.np is compared net of the inner proposals that never reached the history (Search.tla `lost`)
      oc = observe(C, _lost_of(C), keymap)
      spec = spec_clauses(state['obs'])
      if u_on:
        ou = observe(U, _lost_of(U), keymap)
        if not (mirror and crashed):
          bad = diff_clauses(spec, ou)
          if bad:
            res['machinery'] = (f'{cfg}/{space.name}/seed {seed}: after step {k} {act} the uninterrupted run and the '
                                f'specification differ in {bad}: spec {[spec[c] for c in bad]} real {[ou[c] for c in bad]}; '
                                f'history {res["acts"]}')
            break
        ref = ou
      else:
        ref = spec
      bad = diff_clauses(ref, oc)
      if bad:
        for c in bad:
          violate(c, before, dict(uninterrupted=ref[c], recovered=oc[c]))
        diverged = True
        break
      prev_spec = spec
      res['steps'] += 1
    else:
      # history-determined algorithms: both runs continue with the same proposals
      if fam in DET and u_on and not stopped and crashed and tail:
        last = beh[-1][1]
        su, sc = [], []
        for _ in range(tail):
          ru, rc = U.propose([]), C.propose([])
          su.append(space.idx(ru[1]) if ru[0] == 'ok' else ru[0])
          sc.append(space.idx(rc[1]) if rc[0] == 'ok' else rc[0])
          if ru[0] != 'ok' or rc[0] != 'ok':
            break
        res['counters']['tail_checked'] += 1
        if su != sc:
          violate('next_proposals', last, dict(uninterrupted=su, recovered=sc, where='after the behaviour'))
  finally:
    for r in runs:
      r.close()
  res['counters'] = dict(res['counters'])
  return res


def _lost_of(run: Run) -> int:
  """Inner proposals of a Deduping instance that never reached the history (dropped duplicates)."""
  a = run.alg
  if FAMILY[run.cfg] != 'dedup(evo)':
    return 0
  return a.generator.num_proposals - a.num_proposals if a.generator.num_proposals >= a.num_proposals else 0


# ---------------------------------------------------------------------------------------------
# Behaviours from TLC: state-graph dump (transition cover), simulation files, error traces.

_RE_NODE = re.compile(r'^(-?\d+) \[label="(.*?)"(?:,tooltip=".*")?(,style = filled)?\];?$')
_RE_EDGE = re.compile(r'^(-?\d+) -> (-?\d+) \[')


def _unescape(s: str) -> str:
  return s.replace('\\n', '\n').replace('\\"', '"').replace('\\\\', '\\')


def read_dump(path: str):
  nodes: Dict[str, dict] = {}
  out: Dict[str, List[str]] = collections.defaultdict(list)
  inits: List[str] = []
  with open(path) as f:
    for ln in f:
      ln = ln.rstrip('\n')
      m = _RE_EDGE.match(ln)
      if m:
        if m.group(2) not in out[m.group(1)] and m.group(1) != m.group(2):
          out[m.group(1)].append(m.group(2))
        continue
      m = _RE_NODE.match(ln)
      if m:
        nodes[m.group(1)] = tlaval.parse_state(_unescape(m.group(2)))
        if m.group(3):
          inits.append(m.group(1))
  return nodes, out, inits


def transition_cover(nodes, out, inits) -> List[List[str]]:
  """Paths from initial states such that every transition of the graph lies on at least one path."""
  parent: Dict[str, Optional[str]] = {}
  depth: Dict[str, int] = {}
  dq = collections.deque()
  for i in inits:
    parent[i] = None
    depth[i] = 0
    dq.append(i)
  while dq:
    u = dq.popleft()
    for v in out.get(u, []):
      if v not in parent:
        parent[v] = u
        depth[v] = depth[u] + 1
        dq.append(v)
  covered = set()
  paths = []
  edges = sorted(((u, v) for u in out for v in out[u] if u in parent), key=lambda e: (-depth[e[0]], e))
  for (u, v) in edges:
    if (u, v) in covered:
      continue
    p = [v, u]
    x = u
    while parent[x] is not None:
      x = parent[x]
      p.append(x)
    p.reverse()
    x = v
    while len(p) < 64:
      nxt = [w for w in out.get(x, []) if (x, w) not in covered]
      if not nxt:
        break
      p.append(nxt[0])
      x = nxt[0]
    for a, b in zip(p, p[1:]):
      covered.add((a, b))
    paths.append(p)
  return paths


def behaviour_of_path(nodes, path) -> List[Tuple[list, dict]]:
  return [(nodes[n]['act'], nodes[n]) for n in path]


def behaviour_of_steps(steps) -> List[Tuple[list, dict]]:
  """From tlc.simulate (Step objects) or tlc.parse_error_trace (dicts)."""
  out = []
  for s in steps:
    st = s.state if hasattr(s, 'state') else s['state']
    out.append((st['act'], st))
  return out


# ---------------------------------------------------------------------------------------------
# Parallel replay.

_CTX: Dict[str, Any] = {}


def _work(job):
  idx, beh, si, seed, mirror = job
  try:
    r = replay(beh, _CTX['spaces'][si], seed, mirror=mirror, tail=8 if mirror else 3)
  except Exception as e:   # pylint: disable=broad-except
    import traceback
    r = dict(cfg=beh[0][1].get('cfg'), pm=beh[0][1].get('pm'), steps=0, violations=[], counters={},
             acts=[a for a, _ in beh[1:]],
             machinery=f'harness exception {type(e).__name__}: {e}\n{traceback.format_exc()[-1500:]}')
  r['idx'] = idx
  return r


def replay_all(spaces: List[Space], jobs: List[tuple], procs: Optional[int] = None) -> List[dict]:
  """jobs: (idx, behaviour, space index, seed, mirror).  Results in job order."""
  _CTX['spaces'] = spaces
  procs = procs or int(os.environ.get('VERIF_REPLAY_PROCS', '12'))
  if len(jobs) < 8 or procs <= 1:
    return [_work(j) for j in jobs]
  ctx = mp.get_context('fork')
  with ctx.Pool(procs) as pool:
    return pool.map(_work, jobs, chunksize=max(1, min(64, len(jobs) // (procs * 4) or 1)))


def concretise(beh, prefix_map, n_spaces: int, salt: int) -> Optional[Tuple[int, int]]:
  """A (space index, seed) whose real RNG stream starts with the draws of the behaviour."""
  stream = tuple(beh[-1][1]['stream'])
  cands = prefix_map.get(stream)
  if not cands:
    return None
  by_space = collections.defaultdict(list)
  for si, seed in cands:
    by_space[si].append(seed)
  sis = sorted(by_space)
  si = sis[salt % len(sis)]
  return si, by_space[si][(salt // max(1, n_spaces)) % len(by_space[si])]
