"""C17 - replay of Scopes.tla behaviours on REAL threads.

Each spec thread is a Python thread parked on a queue.  A spec step `Enter(t, m, a)` is executed as
`cm.__enter__()` *in thread t*, `ExitNormal/ExitByException(t)` as `cm.__exit__(...)` of the
innermost open manager of thread t, `Propagate(t, u)` as `pg.with_contextual_override(fn)` built in t
and called in u (fn parks u on its queue again, so u can keep nesting inside the propagated scope).
After EVERY step EVERY thread reads all getters and runs the behavioural probes; the result is
compared with the spec variables `view[t]` / `beh[t]` (minus the components in `dc[t]`).

Nothing here knows a nesting rule: expected values are read from the TLC behaviour.
"""
from __future__ import annotations

import queue
import re
import sys
import threading
from typing import Any, Dict, List, Optional, Tuple

import pyglove as pg
from pyglove.core.hyper import base as hyper_base
from pyglove.core.symbolic import flags as pg_flags

# ---------------------------------------------------------------------------------------------
# Concretisation of the spec's integer codes


class _Boom(Exception):
  """The exception used for ExitByException."""


class CallbackError(Exception):
  """Raised by the user callbacks (exit_fn, error_handler) the spec marks as raising."""


def make_refused_cm(m: str):
  """A manager called with an argument it must refuse."""
  if m == 'dyn':
    return pg.hyper.dynamic_evaluate('not callable')
  if m == 'detour':
    return pg.detour([('not a class', CA)])
  if m == 'ldtypes':
    return pg.JSONConvertible.load_types_for_deserialization('T1')      # a type NAME instead of a type
  if m == 'catch':
    return pg.catch_errors(123)
  if m == 'wrap':
    return pg.apply_wrappers([int])                                       # not a wrapper class
  raise ValueError(m)


class A(pg.Object):
  x: int


class CA:          # detour classes 1..3
  def __init__(self):
    pass


class CB:
  def __init__(self):
    pass


class CC:
  def __init__(self):
    pass


class W0:          # class 4: wrapped; class 5: its wrapper
  def __init__(self):
    pass


W1 = pg.wrap(W0)
_FAULT = threading.local()     # .on: the user functions of this thread raise (InnerFault)


def _faulty() -> bool:
  return getattr(_FAULT, 'on', False)


def fn_dest(cls, *args, **kwargs):
  """A function used as detour destination: builds the source class itself (allowed: undetoured inside)."""
  if _faulty():
    raise _Boom('detour destination function raises')
  obj = cls(*args, **kwargs)
  obj.via_fn_dest = True
  return obj


CLASSES = {1: CA, 2: CB, 3: CC, 4: W0, 5: W1, 6: fn_dest}
CLASS_CODE = {v: k for k, v in CLASSES.items()}


class T1(pg.Object):     # on-demand deserialisation types
  auto_register = False
  x: int


class T2(pg.Object):
  auto_register = False
  x: int


TYPES = {1: T1, 2: T2}
TYPE_JSON = {1: {'_type': 'pgverif_scopes_probe.T1', 'x': 1}, 2: {'_type': 'pgverif_scopes_probe.T2', 'x': 1}}


def _f1(x):
  del x
  if _faulty():
    raise _Boom('evaluate function raises')
  return 'f1'


def _f2(x):
  del x
  if _faulty():
    raise _Boom('evaluate function raises')
  return 'f2'


FNS = {0: None, 1: _f1, 2: _f2}
NAMES = {1: 'a', 2: 'b'}
NAME_CODE = {'a': 1, 'b': 2}
BOOL = {0: False, 1: True, 2: None}
FMT_KEYS = {1: 'compact', 2: 'verbose'}
CTX_KEYS = {1: 'x', 2: 'y'}           # pg.coding.context keys
CTX_VALS = {0: 10, 1: 11}
OVR_KEYS = {1: 'cx', 2: 'cy'}         # contextual override keys
OVR_VALS = {1: 'v1', 2: 'v2'}
OVR_CODE = {'v1': 1, 'v2': 2}


class FmtProbe(pg.utils.Formattable):
  __str_format_kwargs__ = dict(compact='D', verbose='D')
  __repr_format_kwargs__ = dict(compact='D', verbose='D')

  def format(self, compact=None, verbose=None, **kwargs):
    del kwargs        # pg.format passes all its other (default) arguments through
    return f'{compact}|{verbose}|'


class CtxProbe(pg.ContextualObject):
  cx: Any = pg.contextual_attribute()


@pg.functor
def _inc(x):
  return x + 1


class ViewProbe(pg.Object):
  x: int


def pairs(a):
  return [(a[2 * i], a[2 * i + 1]) for i in range(len(a) // 2)]


def triples(a):
  return [(a[3 * i], a[3 * i + 1], a[3 * i + 2]) for i in range(len(a) // 3)]


def make_cm(m: str, a: List[int], calls: Optional[List[str]] = None):
  """The context manager object for spec manager m with argument a (public API only)."""
  if m == 'notify':
    return pg.notify_on_change(BOOL[a[0]])
  if m == 'typecheck':
    return pg.enable_type_check(BOOL[a[0]])
  if m == 'origin':
    return pg.track_origin(BOOL[a[0]])
  if m == 'autocall':
    return pg.auto_call_functors(BOOL[a[0]])
  if m == 'partial':
    return pg.allow_partial(BOOL[a[0]])
  if m == 'sealed':
    return pg.as_sealed(BOOL[a[0]])
  if m == 'accessor':
    return pg.allow_writable_accessors(BOOL[a[0]])
  if m == 'strfmt':
    return pg.str_format(**{FMT_KEYS[k]: BOOL[v] for k, v in pairs(a)})
  if m == 'reprfmt':
    return pg.repr_format(**{FMT_KEYS[k]: BOOL[v] for k, v in pairs(a)})
  if m == 'codectx':
    return pg.coding.context(**{CTX_KEYS[k]: CTX_VALS[v] for k, v in pairs(a)})
  if m == 'viewopt':
    kw: Dict[str, Any] = {}
    for k, v in pairs(a):
      if k == 1:
        kw['enable_summary_tooltip'] = BOOL[v]
      else:
        kw.setdefault('extra_flags', {})['a' if k == 21 else 'b'] = v
    return pg.view_options(**kw)
  if m == 'perm':
    return pg.coding.permission(pg.coding.CodePermission(a[0]))
  if m == 'ctx':
    tr = triples(a)
    cascades = {c for _, _, c in tr}
    assert len(cascades) == 1
    return pg.contextual_override(cascade=bool(tr[0][2]), **{OVR_KEYS[k]: OVR_VALS[v] for k, v, _ in tr})
  if m == 'detour':
    return pg.detour([(CLASSES[s], CLASSES[d]) for s, d in pairs(a)])
  if m == 'wrap':
    return pg.apply_wrappers([W1])
  if m == 'dyn':
    exit_fn = None
    if a[2]:
      def exit_fn():
        if calls is not None:
          calls.append('exit_fn')
        if a[2] == 2:
          raise CallbackError('exit_fn raises')
    return pg.hyper.dynamic_evaluate(FNS[a[0]], per_thread=bool(a[1]), exit_fn=exit_fn)
  if m == 'ldtypes':
    return pg.JSONConvertible.load_types_for_deserialization(*[TYPES[i] for i in a])
  if m == 'timeit':
    return pg.timeit(NAMES[a[0]])
  if m == 'catch':
    handler = None
    if a[0] == 1:
      def handler(e):
        if calls is not None:
          calls.append('error_handler')
        raise CallbackError('error_handler raises')
    return pg.catch_errors(_Boom, handler)
  raise ValueError(m)


# ---------------------------------------------------------------------------------------------
# Observation (runs in the observed thread)

def _tri(v):
  return {None: 2, True: 1, False: 0}.get(v, f'?{v!r}')


def _code(d: dict, key, table: dict, allowed_keys):
  extra = [k for k in d if k not in allowed_keys]
  if extra:
    return f'?extra:{sorted(map(str, extra))}'
  if key not in d:
    return -1
  return table.get(d[key], f'?{d[key]!r}')


def _raises(fn, *exc) -> Any:
  try:
    fn()
    return 0
  except exc:
    return 1
  except Exception as e:   # pylint: disable=broad-except
    return f'?{type(e).__name__}:{str(e)[:80]}'


_TOOLTIP = '<span class="tooltip'


class Observer:
  """Per-thread observation state (probe objects are created once, outside all scopes)."""

  def __init__(self):
    self.fmt = FmtProbe()
    self.a = A(1)
    self.ctxobj = CtxProbe()
    self.vp = ViewProbe(1)
    self.root_timer = None
    # tooltips rendered when the summary tooltip is switched off explicitly (an explicit argument
    # overrides any scope): the baseline the tooltip probe compares with
    self.n_off = pg.to_html_str(self.vp, enable_summary_tooltip=False).count(_TOOLTIP)

  def getters(self) -> Dict[str, Any]:
    o: Dict[str, Any] = {}
    o['notify'] = int(pg_flags.is_change_notification_enabled())
    o['typecheck'] = int(pg_flags.is_type_check_enabled())
    o['origin'] = int(pg_flags.is_tracking_origin())
    ac = pg_flags.should_call_functors_during_init()
    o['autocall'] = 1 if ac is True else 0 if ac in (None, False) else f'?{ac!r}'   # None == False (don't-care)
    o['partial'] = _tri(pg_flags.is_under_partial_scope())
    o['sealed'] = _tri(pg_flags.is_under_sealed_scope())
    o['accessor'] = _tri(pg_flags.is_under_accessor_writable_scope())
    bcode = {'True': 1, 'False': 0, 'D': -1}
    s = str(self.fmt).split('|')
    o['strfmt'] = [bcode.get(s[0], '?' + s[0]), bcode.get(s[1], '?' + s[1])] if not s[2] else '?extra:' + s[2]
    s = repr(self.fmt).split('|')
    o['reprfmt'] = [bcode.get(s[0], '?' + s[0]), bcode.get(s[1], '?' + s[1])] if not s[2] else '?extra:' + s[2]
    ctx = pg.coding.get_context()
    o['codectx'] = [_code(ctx, 'x', {10: 0, 11: 1}, ('x', 'y')), _code(ctx, 'y', {10: 0, 11: 1}, ('x', 'y'))]
    with pg.view_options() as vo:
      vo = dict(vo)
    ef = vo.get('extra_flags', {})
    o['viewopt'] = {1: _code(vo, 'enable_summary_tooltip', {True: 1, False: 0}, ('enable_summary_tooltip', 'extra_flags')),
                    21: _code(ef, 'a', {0: 0, 1: 1}, ('a', 'b')),
                    22: _code(ef, 'b', {0: 0, 1: 1}, ('a', 'b'))}
    p = pg.coding.get_permission()
    o['perm'] = -1 if p is None else int(p.value)
    cv = pg.utils.all_contextual_values()
    o['ctx'] = [_code(cv, 'cx', OVR_CODE, ('cx', 'cy')), _code(cv, 'cy', OVR_CODE, ('cx', 'cy'))]
    for i, k in enumerate(('cx', 'cy')):
      single = pg.contextual_value(k, None)
      if OVR_CODE.get(single, -1) != o['ctx'][i]:
        o['ctx'][i] = f'?contextual_value={single!r} all_contextual_values={cv.get(k)!r}'
    dm = pg.detouring.current_mappings()
    extra = [k for k in dm if k not in CLASS_CODE]
    o['detour'] = [CLASS_CODE.get(dm.get(CLASSES[c]), 0 if CLASSES[c] not in dm else '?') for c in (1, 2, 3)]
    if extra:
      o['detour'] = f'?extra:{extra}'
    o['wrap'] = CLASS_CODE.get(dm.get(W0), 0 if W0 not in dm else '?')
    # behavioural confirmation of the mapping (type of a fresh instance)
    for c in (1, 2, 3):
      code = o['detour'][c - 1] if isinstance(o['detour'], list) else 0
      inst = CLASSES[c]()
      if code == 6:        # a function destination: it builds the source class itself and marks the instance
        ok = type(inst) is CLASSES[c] and getattr(inst, 'via_fn_dest', False)
      else:
        ok = type(inst) is (CLASSES[code] if code else CLASSES[c]) and not getattr(inst, 'via_fn_dest', False)
      if not ok:
        o['detour'] = (f'?{CLASSES[c].__name__}() built {type(inst).__name__}'
                       f'(via_fn_dest={getattr(inst, "via_fn_dest", False)}), current_mappings says code {code}')
        break
    got = type(W0())
    if got is not (W1 if o['wrap'] == 5 else W0):
      o['wrap'] = f'?W0() built {got.__name__} under mapping code {o["wrap"]}'
    fn = hyper_base.get_dynamic_evaluate_fn()
    o['dyn'] = {None: 0, _f1: 1, _f2: 2}.get(fn, f'?{fn!r}')
    ld = set()
    for i in (1, 2):
      c = pg.JSONConvertible.class_from_typename(TYPE_JSON[i]['_type'])
      if c is TYPES[i]:
        ld.add(i)
      elif c is not None:
        ld.add(f'?{c!r}')
    o['ldtypes'] = frozenset(ld)
    # timing: current context (projection of the thread-local slot) and status of the latest root
    cur = pg.utils.thread_local_get('__timing_context__', None)
    chain = []
    while cur is not None:
      chain.append(NAME_CODE.get(cur.name, '?' + cur.name))
      cur = cur._parent   # pylint: disable=protected-access
    chain.reverse()
    st = set()
    if self.root_timer is not None:
      for k, v in self.root_timer.status().items():
        st.add((tuple(NAME_CODE.get(x, '?' + x) for x in k.split('.')), int(v.has_ended), int(v.has_error)))
    o['timeit'] = (tuple(chain), frozenset(st))
    return o

  def behaviour(self) -> Dict[str, Any]:
    b: Dict[str, Any] = {}
    wpe = pg.WritePermissionError

    def probe(make, op):
      try:
        d = make()
      except Exception as e:  # pylint: disable=broad-except
        return f'?construct:{type(e).__name__}'
      return _raises(lambda: op(d), wpe)

    def set_attr(d):
      d.x = 2
    b['write_unsealed_raises'] = probe(lambda: pg.Dict(x=1), lambda d: d.rebind(x=2))
    b['write_sealed_raises'] = probe(lambda: pg.Dict(x=1).seal(), lambda d: d.rebind(x=2))
    b['attr_default_raises'] = probe(lambda: pg.Dict(x=1), set_attr)
    b['attr_nonwritable_raises'] = probe(lambda: pg.Dict(x=1, accessor_writable=False), set_attr)
    fired = []
    try:
      d = pg.Dict(x=1, onchange_callback=lambda updates: fired.append(1))
      d.rebind(x=2)
    except wpe:
      pass
    except Exception as e:  # pylint: disable=broad-except
      fired = [f'?{type(e).__name__}']
    b['callback_fires'] = (1 if fired == [1] else 0 if not fired else f'?{fired}')
    b['wrong_type_raises'] = _raises(lambda: A(x='s'), TypeError)
    b['missing_arg_raises'] = _raises(A, TypeError)
    try:
      b['clone_has_origin'] = int(self.a.clone().sym_origin is not None)
    except Exception as e:  # pylint: disable=broad-except
      b['clone_has_origin'] = f'?{type(e).__name__}'
    try:
      r = _inc(1)
      b['functor_called'] = 1 if r == 2 else 0 if isinstance(r, pg.Functor) else f'?{r!r}'
    except Exception as e:  # pylint: disable=broad-except
      b['functor_called'] = f'?{type(e).__name__}'
    b['assign_rejected'] = _raises(lambda: pg.coding.evaluate('z = 1'), pg.coding.CodeError)
    try:
      b['eval_x'] = {10: 0, 11: 1}.get(pg.coding.evaluate('x'), '?')
    except pg.coding.CodeError as e:
      b['eval_x'] = -1 if isinstance(e.cause, NameError) else f'?{type(e.cause).__name__}'
    try:
      b['attr_cx'] = OVR_CODE.get(self.ctxobj.cx, '?')
    except AttributeError:
      b['attr_cx'] = -1
    try:
      r = pg.oneof([1, 2])
      b['oneof_evaluated'] = {'f1': 1, 'f2': 2}.get(r, 0) if isinstance(r, (str, pg.hyper.OneOf)) else f'?{r!r}'
    except Exception as e:  # pylint: disable=broad-except
      b['oneof_evaluated'] = f'?{type(e).__name__}'
    try:
      n_now = pg.to_html_str(self.vp).count(_TOOLTIP)
      b['tooltip_rendered'] = int(n_now > self.n_off)
    except Exception as e:  # pylint: disable=broad-except
      b['tooltip_rendered'] = f'?{type(e).__name__}:{str(e)[:60]}'
    return b


def handle_view(m: str, h: Any, cm: Any):
  """What the object returned by `__enter__` (the scope's user-visible handle) says, in the terms of `view`."""
  try:
    if m in ('strfmt', 'reprfmt'):
      return (m, [_code(h, 'compact', {True: 1, False: 0}, ('compact', 'verbose')),
                  _code(h, 'verbose', {True: 1, False: 0}, ('compact', 'verbose'))])
    if m == 'codectx':
      return (m, [_code(h, 'x', {10: 0, 11: 1}, ('x', 'y')), _code(h, 'y', {10: 0, 11: 1}, ('x', 'y'))])
    if m == 'viewopt':
      ef = h.get('extra_flags', {})
      return (m, {1: _code(h, 'enable_summary_tooltip', {True: 1, False: 0}, ('enable_summary_tooltip', 'extra_flags')),
                  21: _code(ef, 'a', {0: 0, 1: 1}, ('a', 'b')), 22: _code(ef, 'b', {0: 0, 1: 1}, ('a', 'b'))})
    if m == 'perm':
      return (m, int(h.value))
    if m == 'ctx':
      vals = {k: v.value for k, v in h.items()}
      return (m, [_code(vals, 'cx', OVR_CODE, ('cx', 'cy')), _code(vals, 'cy', OVR_CODE, ('cx', 'cy'))])
    if m in ('detour', 'wrap'):
      if m == 'wrap':
        return (m, CLASS_CODE.get(h.get(W0), 0))
      return (m, [CLASS_CODE.get(h.get(CLASSES[c]), 0) for c in (1, 2, 3)])
    if m == 'ldtypes':
      return (m, frozenset(i for i in (1, 2) if h.get(TYPES[i].__name__) is TYPES[i]))
    if m == 'timeit':
      return ('timeit_handle', h is cm and not h.has_ended and h.has_started)
  except Exception as e:   # pylint: disable=broad-except
    return (m, f'?handle:{type(e).__name__}:{e}')
  return None


def inner_fault(m: str) -> Dict[str, Any]:
  """Uses the scope of manager m in a way that raises, handles the exception here, inside the block."""
  res: Dict[str, Any] = {'raised': 0}
  _FAULT.on = True
  try:
    if m == 'detour':
      for c in (1, 2, 3):
        if pg.detouring.current_mappings().get(CLASSES[c]) is fn_dest:
          try:
            CLASSES[c]()
          except _Boom:
            res['raised'] += 1
    elif m == 'dyn':
      try:
        pg.oneof([1, 2])
      except Exception:   # pylint: disable=broad-except
        res['raised'] += 1          # _Boom, or the constructor refused under a sealed / accessor scope
    elif m == 'viewopt':
      hostile = dict(enable_summary_tooltip=False, extra_flags=dict(a=7, b=7), collapse_level=0)
      for fn in (lambda: pg.to_html_str(pg.Dict(bad=_BadLeaf()), **hostile),
                 lambda: pg.view(pg.Dict(x=1), view_id='no-such-view-id', **hostile)):
        try:
          fn()
        except Exception:   # pylint: disable=broad-except
          res['raised'] += 1
  finally:
    _FAULT.on = False
  return res


class _BadLeaf:
  def __repr__(self):
    raise _Boom('repr raises')
  __str__ = __repr__

  def __format__(self, spec):
    raise _Boom('format raises')


# ---------------------------------------------------------------------------------------------
# Worker threads

class Worker(threading.Thread):
  """A real thread executing enter/exit commands; re-entrant so that a propagated scope can stay open."""

  def __init__(self, tid: int):
    super().__init__(daemon=True, name=f'scopes-worker-{tid}')
    self.tid = tid
    self.inbox: 'queue.Queue' = queue.Queue()
    self.outbox: 'queue.Queue' = queue.Queue()
    self.stack: List[Any] = []          # open managers ('PROP' marks a propagated scope)
    self.open_timers = 0
    self.obs: Optional[Observer] = None
    self.completed_local_dyn = False    # this thread has left a per-thread dynamic_evaluate scope
    self.calls: List[str] = []          # user callbacks run by the managers of this thread

  def run(self):
    self.obs = Observer()
    self._loop(nested=False)

  def call(self, *cmd, timeout=30):
    self.inbox.put(cmd)
    try:
      return self.outbox.get(timeout=timeout)
    except queue.Empty as e:
      raise RuntimeError(f'worker {self.tid} did not answer {cmd[0]}') from e

  def _nested_fn(self):
    # body of the function wrapped by pg.with_contextual_override: the scope is now open in this thread
    self.stack.append('PROP')
    self.outbox.put(('ok', None))
    self._loop(nested=True)

  def _loop(self, nested: bool):
    while True:
      cmd = self.inbox.get()
      kind = cmd[0]
      if kind == 'stop':
        self.outbox.put(('ok', None))
        return
      if kind == 'enter':
        m, a = cmd[1], cmd[2]
        try:
          cm = make_cm(m, a, self.calls)
          handle = cm.__enter__()
          self.stack.append((m, a, cm))
          if m == 'timeit':
            if self.open_timers == 0:
              self.obs.root_timer = cm
            self.open_timers += 1
          self.outbox.put(('ok', handle_view(m, handle, cm)))
        except Exception as e:  # pylint: disable=broad-except
          self.outbox.put(('error', f'{type(e).__name__}: {e}'))
      elif kind == 'exit':
        by_exc = cmd[1]
        top = self.stack.pop()
        if top == 'PROP':
          assert nested
          if by_exc:
            raise _Boom('propagated scope left by exception')
          return
        m, a, cm = top
        del self.calls[:]
        try:
          raised = None
          try:
            if by_exc:
              try:
                raise _Boom('exit by exception')
              except _Boom:
                et, ev, tb = sys.exc_info()
              suppressed = bool(cm.__exit__(et, ev, tb))
            else:
              suppressed = bool(cm.__exit__(None, None, None))
          except CallbackError as e:
            suppressed = False
            raised = type(e).__name__
          if m == 'timeit':
            self.open_timers -= 1
          if m == 'dyn' and a[1] == 1:
            self.completed_local_dyn = True
          outcome = ('raised' if raised else 'suppressed' if (by_exc and suppressed) else
                     'propagated' if by_exc else 'ok')
          self.outbox.put(('ok', {'out': outcome, 'cbk': len(self.calls)}))
        except Exception as e:  # pylint: disable=broad-except
          self.outbox.put(('error', f'{type(e).__name__}: {e}'))
      elif kind == 'end_early':
        try:
          timers = [x[2] for x in self.stack if x != 'PROP' and x[0] == 'timeit']
          self.outbox.put(('ok', {'first_end': bool(timers[-1].end()), 'second_end': bool(timers[-1].end())}))
        except Exception as e:  # pylint: disable=broad-except
          self.outbox.put(('error', f'{type(e).__name__}: {e}'))
      elif kind == 'inner_fault':
        self.outbox.put(('ok', inner_fault(cmd[1])))
      elif kind == 'enter_refused':
        try:
          cm = make_refused_cm(cmd[1])
          cm.__enter__()
          self.stack.append((cmd[1], [], cm))
          self.outbox.put(('ok', {'out': 'entered'}))
        except (TypeError, ValueError, AttributeError) as e:
          self.outbox.put(('ok', {'out': 'refused', 'error': type(e).__name__}))
        except Exception as e:  # pylint: disable=broad-except
          self.outbox.put(('error', f'{type(e).__name__}: {e}'))
      elif kind == 'mkwrap':
        target: Worker = cmd[1]
        try:
          self.outbox.put(('ok', pg.with_contextual_override(target._nested_fn)))   # pylint: disable=protected-access
        except Exception as e:  # pylint: disable=broad-except
          self.outbox.put(('error', f'{type(e).__name__}: {e}'))
      elif kind == 'callwrapped':
        w = cmd[1]
        try:
          w()                                   # returns when the propagated scope is left normally
          self.outbox.put(('ok', {'out': 'ok', 'cbk': 0}))
        except _Boom:
          self.outbox.put(('ok', {'out': 'propagated', 'cbk': 0}))        # ... or by exception (not suppressed)
        except Exception as e:  # pylint: disable=broad-except
          self.outbox.put(('error', f'{type(e).__name__}: {e}'))
      elif kind == 'observe':
        try:
          g = self.obs.getters()
          b = self.obs.behaviour()
          self.outbox.put(('ok', (g, b)))
        except Exception as e:  # pylint: disable=broad-except
          import traceback
          self.outbox.put(('error', f'{type(e).__name__}: {e}\n{traceback.format_exc()[-800:]}'))


# ---------------------------------------------------------------------------------------------
# Comparison

def _norm(x):
  if isinstance(x, dict):
    return {k: _norm(v) for k, v in x.items()}
  if isinstance(x, (list, tuple)):
    return tuple(_norm(v) for v in x)
  if isinstance(x, (set, frozenset)):
    return frozenset(_norm(v) for v in x)
  return x


def expected_view(state: dict, t: int) -> Tuple[Dict[str, Any], Dict[str, Any], set]:
  v = state['view'][t - 1]
  e = {k: _norm(val) for k, val in v.items()}
  vo = v['viewopt']
  e['viewopt'] = dict(vo) if isinstance(vo, dict) else {k: vo[i] for i, k in enumerate((1, 21, 22))}
  chain, st = v['timeit']
  e['timeit'] = (tuple(chain), frozenset((tuple(p), en, er) for p, en, er in st))
  e['ldtypes'] = frozenset(v['ldtypes'])
  b = dict(state['beh'][t - 1])
  dc = set(state['dc'][t - 1])
  return e, b, dc


class Divergence(dict):
  pass


class Replayer:
  """Replays one behaviour (list of tlc.Step) on fresh real threads."""

  def __init__(self, nthreads: int):
    self.n = nthreads
    self.workers: Dict[int, Worker] = {}
    self.hits: Dict[str, int] = {}
    self.observations = 0

  def hit(self, k):
    self.hits[k] = self.hits.get(k, 0) + 1

  def _start(self):
    self.workers = {t: Worker(t) for t in range(1, self.n + 1)}
    for w in self.workers.values():
      w.start()

  def _stop(self):
    for w in self.workers.values():
      # unwind whatever is still parked in a nested loop
      while w.is_alive():
        w.inbox.put(('stop',))
        try:
          w.outbox.get(timeout=5)
        except queue.Empty:
          break
        w.join(timeout=0.05)
        if not w.is_alive():
          break

  def compare_all(self, state: dict, step_thread: Optional[int], step_kind: str, mgr: str,
                  chain_only: bool = False) -> List[dict]:
    divs = []
    for t, w in self.workers.items():
      status, payload = w.call('observe')
      if status != 'ok':
        raise RuntimeError(f'observation failed in thread {t}: {payload}')
      g, b = payload
      self.observations += 1
      e, eb, dc = expected_view(state, t)
      for comp, want in e.items():
        if comp in dc:
          self.hit('dont_care:' + comp)
          continue
        got = _norm(g[comp]) if comp != 'viewopt' else g[comp]
        if comp == 'timeit' and chain_only:
          got, want = got[0], want[0]
        if got != want:
          divs.append(self._div(t, comp, want, got, step_thread, step_kind, mgr, 'getter'))
      for comp, want in eb.items():
        got = b[comp]
        if want == 9:
          self.hit('probe_not_determined:' + comp)
          continue
        if got != want:
          divs.append(self._div(t, comp, want, got, step_thread, step_kind, mgr, 'probe'))
    return divs

  def _div(self, t, comp, want, got, step_thread, step_kind, mgr, how):
    if step_thread is not None and t != step_thread and comp not in ('dyn', 'ldtypes', 'oneof_evaluated'):
      clause = 'isolation'
    elif step_kind.startswith('Exit') or step_kind == 'Unwind':
      clause = 'restore'
    else:
      clause = 'nesting'
    return {'clause': clause, 'component': comp, 'thread': t, 'expected': want, 'observed': got,
            'step_kind': step_kind, 'step_mgr': mgr, 'observed_by': how}

  def replay(self, beh) -> Tuple[Optional[List[dict]], int]:
    """Returns (divergences at the first diverging step or None, number of steps replayed)."""
    self._start()
    self.prog: Dict[int, List[Tuple[str, list]]] = {t: [] for t in self.workers}
    self.gorder: List[int] = []
    try:
      divs, n = self._run(beh)
      if divs:
        for d in divs:
          d['polluted_threads'] = sorted(w.tid for w in self.workers.values() if w.completed_local_dyn)
        self._unwind(checked=False)
        return divs, n
      err = self._unwind(checked=True)
      if err:
        return err, len(beh)
      # everything must be back to the initial view (the status tree of the latest root timer is
      # history, so only the current timing context is compared)
      divs = self.compare_all(beh[0].state, None, 'Unwind', '', chain_only=True)
      for d in divs:
        d['polluted_threads'] = sorted(w.tid for w in self.workers.values() if w.completed_local_dyn)
      return (divs or None), len(beh) - 1
    finally:
      self._stop()
      _reset_process_wide()

  @staticmethod
  def _is_global(mgr, a):
    return mgr == 'ldtypes' or (mgr == 'dyn' and a[1] == 0)

  def _run(self, beh):
    prog, gorder = self.prog, self.gorder
    divs = self.compare_all(beh[0].state, None, 'Init', '')
    if divs:
      return divs, 0
    for i, step in enumerate(beh[1:], 1):
      act = step.state['act']
      kind = act[0]
      mgr = ''
      if kind == 'Enter':
        t, mgr, a = act[1], act[2], list(act[3])
        status, payload = self.workers[t].call('enter', mgr, a)
        if status == 'ok':
          prog[t].append((mgr, a))
          if self._is_global(mgr, a):
            gorder.append(t)
          if payload is not None:
            # the handle yielded by the manager must describe the scope that is now in effect
            comp, hv = payload
            e, _, _ = expected_view(step.state, t)
            want = True if comp == 'timeit_handle' else e[comp]
            got = hv if comp in ('viewopt', 'timeit_handle') else _norm(hv)
            self.hit('handle_checked:' + mgr)
            if got != want:
              return [{'clause': 'handle', 'component': mgr, 'thread': t, 'expected': want, 'observed': hv,
                       'step_kind': kind, 'step_mgr': mgr, 'observed_by': 'enter'}], i
        self.hit('enter:' + mgr)
        if len(prog[t]) >= 2:
          self.hit('nested_enter')
          if prog[t][-2][0] == mgr:
            self.hit('nested_same_mgr:' + mgr)
      elif kind == 'Propagate':
        src, t, a = act[1], act[2], list(act[3])
        mgr = 'ctxprop'
        status, payload = self.workers[src].call('mkwrap', self.workers[t])
        if status == 'ok':
          # the call returns only when the scope is left: the worker answers 'ok' from inside
          self.workers[t].inbox.put(('callwrapped', payload))
          status, payload = self.workers[t].outbox.get(timeout=30)
        if status == 'ok':
          prog[t].append((mgr, a))
        self.hit('propagate')
      elif kind in ('ExitNormal', 'ExitByException'):
        t = act[1]
        mgr, a = prog[t].pop()
        if self._is_global(mgr, a):
          gorder.pop()
        status, payload = self.workers[t].call('exit', kind == 'ExitByException')
        self.hit('exit:' + kind)
        self.hit('exit:' + mgr)
        if status == 'ok':
          want = {'out': step.state['out'], 'cbk': step.state['cbk']}
          self.hit('exit_outcome:' + want['out'])
          if want['cbk']:
            self.hit('exit_callback_run')
          if payload != want:
            return [{'clause': 'exit_outcome', 'component': mgr, 'thread': t, 'expected': want,
                     'observed': payload, 'step_kind': kind, 'step_mgr': mgr, 'observed_by': 'exit'}], i
      elif kind == 'EndEarly':
        t, mgr = act[1], 'timeit'
        status, payload = self.workers[t].call('end_early')
        self.hit('end_early')
        if status == 'ok' and payload != {'first_end': True, 'second_end': False}:
          return [{'clause': 'handle', 'component': 'timeit', 'thread': t, 'expected': 'end() True then False',
                   'observed': payload, 'step_kind': kind, 'step_mgr': mgr, 'observed_by': 'end'}], i
      elif kind == 'InnerFault':
        t, mgr = act[1], act[2]
        status, payload = self.workers[t].call('inner_fault', mgr)
        self.hit('inner_fault:' + mgr)
        if status == 'ok' and payload['raised']:
          self.hit('inner_fault_raised:' + mgr)
      elif kind == 'EnterRaises':
        t, mgr = act[1], act[2]
        status, payload = self.workers[t].call('enter_refused', mgr)
        self.hit('enter_refused:' + mgr)
        if status == 'ok' and payload['out'] != 'refused':
          return [{'clause': 'enter_refused', 'component': mgr, 'thread': t, 'expected': 'TypeError/ValueError',
                   'observed': payload, 'step_kind': kind, 'step_mgr': mgr, 'observed_by': 'enter'}], i
      else:
        raise RuntimeError(f'unknown action {act}')
      if status != 'ok':
        return [{'clause': 'raises', 'component': mgr, 'thread': t, 'expected': 'no error',
                 'observed': payload, 'step_kind': kind, 'step_mgr': mgr, 'observed_by': 'call'}], i
      divs = self.compare_all(step.state, t, kind, mgr)
      if divs:
        return divs, i
    return None, len(beh) - 1

  def _unwind(self, checked: bool):
    """Leaves what is still open: LIFO per thread, process-wide scopes in global LIFO order."""
    prog, gorder = self.prog, self.gorder
    guard = 0
    while any(prog.values()):
      guard += 1
      if guard > 1000:
        raise RuntimeError('unwind does not terminate')
      for t in sorted(prog):
        while prog[t]:
          mgr, a = prog[t][-1]
          g = self._is_global(mgr, a)
          if g and gorder and gorder[-1] != t:
            break
          prog[t].pop()
          if g and gorder:
            gorder.pop()
          try:
            status, payload = self.workers[t].call('exit', False)
          except RuntimeError:
            if checked:
              raise
            return None
          if status != 'ok' and checked:
            return [{'clause': 'raises', 'component': mgr, 'thread': t, 'expected': 'no error',
                     'observed': payload, 'step_kind': 'Unwind', 'step_mgr': mgr, 'observed_by': 'call'}]
    return None


def _reset_process_wide():
  """Harness hygiene between behaviours (only matters after a divergence)."""
  from pyglove.core.hyper import base as hyper_base   # pylint: disable=import-outside-toplevel
  if getattr(hyper_base, '_global_dynamic_evaluate_fn', None) is not None:
    hyper_base._global_dynamic_evaluate_fn = None      # pylint: disable=protected-access
  reg = getattr(pg.JSONConvertible, '_TYPE_REGISTRY', None)
  st = getattr(reg, '_ondemand_registry_stack', None)
  if st:
    del st[:]


# ---------------------------------------------------------------------------------------------
# Replaying many behaviours (in worker processes: behaviours are independent of each other)

def _replay_chunk(chunk):
  out = []
  for beh in chunk:
    nthreads = len(beh[0].state['view'])
    rp = Replayer(nthreads)
    divs, n = rp.replay(beh)
    out.append((divs, n, rp.hits, rp.observations))
  return out


def replay_many(behaviours, nproc: int = 8):
  """Returns one (divergences|None, steps replayed, hit counters, observations) per behaviour, in order."""
  import concurrent.futures as cf     # pylint: disable=import-outside-toplevel
  import multiprocessing as mp        # pylint: disable=import-outside-toplevel
  if nproc <= 1 or len(behaviours) < 8:
    return _replay_chunk(behaviours)
  size = max(1, (len(behaviours) + nproc * 4 - 1) // (nproc * 4))
  chunks = [behaviours[i:i + size] for i in range(0, len(behaviours), size)]
  out = []
  with cf.ProcessPoolExecutor(max_workers=nproc, mp_context=mp.get_context('fork')) as ex:
    for res in ex.map(_replay_chunk, chunks):
      out.extend(res)
  return out
