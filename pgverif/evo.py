"""C14 harness: records applications of the shipped evolution operators for EvoTrace.tla.

The search spaces and their valid-DNA sets come from TLC (EvoExport.tla); the harness builds the real
pg spaces from the exported structures, draws populations from the exported valid sets, applies every
mutator / recombinator / selector class (several parameterisations) and generated operator
expressions, and logs one event per application:

  {op, kind, det, expr, seed, in: [{id, dna, fit}], in_after: [dna], out: [{id, dna, ok, valid, aligned}],
   out2 (second run: fresh operator instance, same seed, same inputs), count, submulti, raised}

DNAs are logged in the nested form of EvoGeno.tla (space -> list of element DNAs, choices -> list of
[choice, sub-DNA], float -> thousandths); `id` is the identity index of an output within the inputs
(0 = not one of the input objects).  EvoTrace.tla decides every contract clause on these events.
"""
from __future__ import annotations

import json
import random
import signal
from typing import Any, Dict, List, Optional, Tuple

import pyglove as pg
from pyglove.ext import evolution as evo

M, R, S = evo.mutators, evo.recombinators, evo.selectors

# ---------------------------------------------------------------------------------------------
# Spaces from the exported structures; DNA <-> nested form.


def build_template(sp: dict):
  if sp['t'] == 'space':
    es = [build_template(e) for e in sp['elems']]
    if len(es) == 1:
      return es[0]
    return pg.Dict(**{f'e{i}': e for i, e in enumerate(es)})
  if sp['t'] == 'float':
    return pg.floatv(sp['lo'] / 1000.0, sp['hi'] / 1000.0)
  cands = [f'c{i}' if not c['elems'] else build_template(c) for i, c in enumerate(sp['cands'])]
  if sp['k'] == 1:
    return pg.oneof(cands)
  return pg.manyof(sp['k'], cands, distinct=sp['distinct'], sorted=sp['sorted'])


def flatten(sp: dict, d, out: list) -> list:
  if sp['t'] == 'space':
    for e, x in zip(sp['elems'], d):
      flatten(e, x, out)
  elif sp['t'] == 'float':
    out.append(d / 1000.0)
  else:
    for c, sub in d:
      out.append(c)
      flatten(sp['cands'][c], sub, out)
  return out


def nest(sp: dict, nums: list, pos: int = 0):
  """Parses the flat decision list of a DNA along the space structure (raises if it does not fit)."""
  if sp['t'] == 'space':
    r = []
    for e in sp['elems']:
      x, pos = nest(e, nums, pos)
      r.append(x)
    return r, pos
  if sp['t'] == 'float':
    v = nums[pos]
    if not isinstance(v, float):
      raise ValueError('float expected')
    return int(round(v * 1000)), pos + 1
  r = []
  for _ in range(sp['k']):
    c = nums[pos]
    pos += 1
    if isinstance(c, bool) or not isinstance(c, int):
      raise ValueError('choice expected')
    if not 0 <= c < len(sp['cands']):
      # out of range: keep the value (TLC rejects it), the sub-DNA cannot be parsed
      r.append([c, []])
      continue
    sub, pos = nest(sp['cands'][c], nums, pos)
    r.append([c, sub])
  return r, pos


class SpaceC:

  def __init__(self, name: str, struct: dict, valid: list):
    self.name, self.struct = name, struct
    self.spec = pg.dna_spec(build_template(struct))
    self.valid = valid            # nested DNAs from TLC ([] for float spaces)

  def dna(self, nested) -> pg.DNA:
    return pg.DNA.from_numbers(flatten(self.struct, nested, []), self.spec)

  def nested(self, dna: pg.DNA) -> Tuple[Any, bool]:
    try:
      nums = dna.to_numbers()
      n, pos = nest(self.struct, nums)
      if pos != len(nums):
        return [], False
      return n, True
    except Exception:   # pylint: disable=broad-except
      return [], False

  def validates(self, dna: pg.DNA) -> bool:
    try:
      self.spec.validate(dna)
      return True
    except Exception:   # pylint: disable=broad-except
      return False

  def aligned(self, dna: pg.DNA) -> bool:
    """Every node bound to the decision point at its position; views equal those of a rebuilt DNA."""
    try:
      rebuilt = pg.DNA.from_numbers(dna.to_numbers(), self.spec)
    except Exception:   # pylint: disable=broad-except
      return True       # not a valid DNA: reported by Closed, not by Aligned
    try:
      if dna.to_dict() != rebuilt.to_dict():
        return False
      if dna.to_dict(key_type='name_or_id') != rebuilt.to_dict(key_type='name_or_id'):
        return False
    except Exception:   # pylint: disable=broad-except
      return False

    def walk(a, b):
      if a.spec is not b.spec or len(a.children) != len(b.children):
        return False
      return all(walk(x, y) for x, y in zip(a.children, b.children))
    return walk(dna, rebuilt)


# ---------------------------------------------------------------------------------------------
# Expressions: one description -> the real operation and the record EvoAlg.tla evaluates.

BLANK = dict(op='identity', n=0, pct=0, k=0, lo=0, hi=0, st=1, thr=0, args=[])


def E(op, **kw):
  d = dict(BLANK)
  d['op'] = op
  d.update(kw)
  return d


def sel_leaves() -> List[dict]:
  out = [E('identity')]
  for op in ('first', 'last', 'top', 'bottom'):
    out += [E(op, n=0), E(op, n=1), E(op, n=2), E(op, n=-1), E(op, n=0, pct=50)]
  return out


def unary(x: dict) -> List[dict]:
  return [E('inv', args=[x]), E('repeat', k=2, args=[x]), E('power', k=2, args=[x]), E('power', k=0, args=[x]),
          E('slice', lo=0, hi=1, args=[x]), E('slice', lo=1, hi=-1, args=[x]), E('slice', lo=0, hi=-1, st=2, args=[x]),
          E('if_true', thr=1, args=[x]), E('if_false', thr=1, args=[x]), E('until_change', args=[x]),
          E('dup_each', args=[x])]


BINOPS = ('pipeline', 'concat', 'union', 'inter', 'diff', 'symdiff')


def gen_exprs(rng: random.Random, depth: int, count: int) -> List[dict]:
  """Random deterministic-selector expressions of the given depth (depth 1: one operator)."""
  leaves = sel_leaves()

  def gen(d):
    if d == 0:
      return rng.choice(leaves)
    if rng.random() < 0.4:
      return rng.choice(unary(gen(d - 1)))
    a, b = gen(d - 1), gen(rng.randint(0, d - 1))
    if rng.random() < 0.5:
      a, b = b, a
    return E(rng.choice(BINOPS), args=[a, b])
  return [gen(depth) for _ in range(count)]


def all_depth1() -> List[dict]:
  leaves = sel_leaves()
  out = []
  for x in leaves:
    out += unary(x)
  small = [E('identity'), E('first', n=1), E('first', n=2), E('last', n=1), E('top', n=1), E('top', n=2),
           E('bottom', n=1), E('first', n=0, pct=50)]
  for o in BINOPS:
    for a in small:
      for b in small:
        out.append(E(o, args=[a, b]))
  # operands that hand their input list through by identity (Identity, a conditional whose branch is not
  # taken) in first and in second position: the composition must not write into the caller's population
  passthrough = [E('identity'), E('if_true', thr=9, args=[E('first', n=1)]), E('if_false', thr=-1, args=[E('first', n=1)]),
                 E('power', k=0, args=[E('top', n=1)])]
  others = [E('top', n=1), E('last', n=2), E('repeat', k=2, args=[E('first', n=1)]), E('identity')]
  for o in BINOPS:
    for a in passthrough:
      for b in others:
        out.append(E(o, args=[a, b]))
        out.append(E(o, args=[b, a]))
  for a in passthrough:
    out.append(E('repeat', k=2, args=[a]))
    out.append(E('dup_each', args=[a]))
    out.append(E('concat', args=[E('concat', args=[a, E('top', n=1)]), E('bottom', n=1)]))
  return out


def _n_of(e):
  return (e['pct'] / 100.0) if e['pct'] > 0 else (None if e['n'] < 0 else e['n'])


def real_op(e: dict):
  """The pg.evolution operation an expression record denotes (built with the public operators)."""
  op = e['op']
  a = [real_op(x) for x in e['args']]
  if op == 'identity':
    return evo.Identity()
  if op == 'first':
    return S.First(_n_of(e))
  if op == 'last':
    return S.Last(_n_of(e))
  if op == 'top':
    return S.Top(_n_of(e))
  if op == 'bottom':
    return S.Bottom(_n_of(e))
  if op == 'pipeline':
    return a[0] >> a[1]
  if op == 'concat':
    return a[0] + a[1]
  if op == 'union':
    return a[0] | a[1]
  if op == 'inter':
    return a[0] & a[1]
  if op == 'diff':
    return a[0] - a[1]
  if op == 'symdiff':
    return a[0] ^ a[1]
  if op == 'inv':
    return ~a[0]
  if op == 'repeat':
    return a[0] * e['k']
  if op == 'power':
    return a[0] ** e['k']
  if op == 'slice':
    return a[0][slice(e['lo'], None if e['hi'] < 0 else e['hi'], e['st'])]
  if op == 'if_true':
    thr = e['thr']
    return a[0].if_true(lambda x: len(x) > thr)
  if op == 'if_false':
    thr = e['thr']
    return a[0].if_false(lambda x: len(x) > thr)
  if op == 'until_change':
    return a[0].until_change(max_attempts=2)
  if op == 'dup_each':
    return a[0].for_each(lambda d: [d, d]).flatten()
  raise ValueError(op)


# ---------------------------------------------------------------------------------------------
# Operator catalogue: (label, class name, kind, factory(seed), min parents, exact parents, extra)


def _w(xs):
  return [float(i + 1) for i in range(len(xs))]


def _wfit(xs):
  """Fitness-based weights (the usual choice): the result must follow the fitness the parents carry NOW."""
  return [float(evo.get_fitness(x)) for x in xs]


# operator labels without random state: each call's output depends on parameters and inputs only
RNGFREE = ('recombinators.Average', 'recombinators.WeightedAverage', 'recombinators.Segmented', 'selectors.Proportional')


def catalogue(thorough: bool):
  cat = []
  only_choices = lambda d: isinstance(d.spec, pg.geno.Choices)      # pylint: disable=unnecessary-lambda-assignment
  cat += [
      ('mutators.Uniform()', 'mutators.Uniform', 'mutator', lambda s: M.Uniform(seed=s), 1, None),
      ('mutators.Uniform(where=choices)', 'mutators.Uniform', 'mutator', lambda s: M.Uniform(where=only_choices, seed=s), 1, None),
      ('mutators.Uniform()**2', 'mutators.Uniform', 'mutator', lambda s: M.Uniform(seed=s) ** 2, 1, None),
      ('mutators.Swap()', 'mutators.Swap', 'mutator', lambda s: M.Swap(seed=s), 1, None),
      ('mutators.Swap(where=choices)', 'mutators.Swap', 'mutator', lambda s: M.Swap(where=only_choices, seed=s), 1, None),
      ('recombinators.Uniform()', 'recombinators.Uniform', 'recombinator', lambda s: R.Uniform(seed=s), 1, None),
      ('recombinators.Uniform(where=ANY)', 'recombinators.Uniform', 'recombinator',
       lambda s: R.Uniform(where=evo.where.Any(seed=s), seed=s), 1, None),
      ('recombinators.Sample(w)', 'recombinators.Sample', 'recombinator', lambda s: R.Sample(_w, seed=s), 1, None),
      ('recombinators.Average()', 'recombinators.Average', 'recombinator', lambda s: R.Average(), 1, None),
      ('recombinators.WeightedAverage(w)', 'recombinators.WeightedAverage', 'recombinator',
       lambda s: R.WeightedAverage(_w), 1, None),
      ('recombinators.WeightedAverage(fitness)', 'recombinators.WeightedAverage', 'recombinator',
       lambda s: R.WeightedAverage(_wfit), 1, None),
      ('recombinators.Sample(fitness)', 'recombinators.Sample', 'recombinator', lambda s: R.Sample(_wfit, seed=s), 1, None),
      ('recombinators.KPoint(1)', 'recombinators.KPoint', 'recombinator', lambda s: R.KPoint(1, seed=s), 2, 2),
      ('recombinators.KPoint(2)', 'recombinators.KPoint', 'recombinator', lambda s: R.KPoint(2, seed=s), 2, 2),
      ('recombinators.Segmented([1])', 'recombinators.Segmented', 'recombinator', lambda s: R.Segmented(lambda xs: [1]), 2, 2),
      ('recombinators.PartiallyMapped()', 'recombinators.PartiallyMapped', 'recombinator', lambda s: R.PartiallyMapped(seed=s), 2, 2),
      ('recombinators.Order()', 'recombinators.Order', 'recombinator', lambda s: R.Order(seed=s), 2, 2),
      ('recombinators.Cycle()', 'recombinators.Cycle', 'recombinator', lambda s: R.Cycle(seed=s), 2, 2),
  ]
  if thorough:
    cat += [
        ('recombinators.KPoint(3)', 'recombinators.KPoint', 'recombinator', lambda s: R.KPoint(3, seed=s), 2, 2),
        ('recombinators.Segmented([1,2])', 'recombinators.Segmented', 'recombinator', lambda s: R.Segmented(lambda xs: [1, 2]), 2, 2),
        ('recombinators.PartiallyMapped(where=ALL)', 'recombinators.PartiallyMapped', 'recombinator',
         lambda s: R.PartiallyMapped(where=evo.where.ALL, seed=s), 2, 2),
        ('recombinators.Order(where=ALL)', 'recombinators.Order', 'recombinator', lambda s: R.Order(where=evo.where.ALL, seed=s), 2, 2),
        ('recombinators.Cycle(where=ALL)', 'recombinators.Cycle', 'recombinator', lambda s: R.Cycle(where=evo.where.ALL, seed=s), 2, 2),
    ]
  return cat


def random_selectors():
  """(label, class, factory(seed), documented count(len), sub-multiset?, needs non-empty input)"""
  out = []
  for n in (0, 1, 2, 0.5, None):
    cnt = (lambda n_: (lambda ln: ln if n_ is None else (-(-ln * 50 // 100) if isinstance(n_, float) else n_)))(n)
    out.append((f'selectors.Random({n})', 'selectors.Random', (lambda n_: lambda s: S.Random(n_, seed=s))(n),
                (lambda c: lambda ln: min(c(ln), ln))(cnt), True, False))
    out.append((f'selectors.Random({n}, replacement)', 'selectors.Random',
                (lambda n_: lambda s: S.Random(n_, replacement=True, seed=s))(n), cnt, False, True))
    out.append((f'selectors.Sample({n})', 'selectors.Sample',
                (lambda n_: lambda s: S.Sample(n_, _w, seed=s))(n), cnt, False, True))
    out.append((f'selectors.Proportional({n})', 'selectors.Proportional',
                (lambda n_: lambda s: S.Proportional(n_, _w))(n), cnt, False, True))
  for n in (1, 2):
    out.append((f'selectors.Sample({n}, fitness)', 'selectors.Sample',
                (lambda n_: lambda s: S.Sample(n_, _wfit, seed=s))(n), (lambda n_: lambda ln: n_)(n), False, True))
    out.append((f'selectors.Proportional({n}, fitness)', 'selectors.Proportional',
                (lambda n_: lambda s: S.Proportional(n_, _wfit))(n), (lambda n_: lambda ln: n_)(n), False, True))
  return out


def mixed_exprs():
  """Expressions with random parts / mutators: (label, uses, factory(seed))."""
  return [
      ('Top(2) >> mutators.Uniform()', 'mutators.Uniform', lambda s: S.Top(2) >> M.Uniform(seed=s)),
      ('Identity + (First(1) >> mutators.Uniform())', 'mutators.Uniform', lambda s: evo.Identity() + (S.First(1) >> M.Uniform(seed=s))),
      ('(Last(2) >> recombinators.Uniform()) | First(1)', 'recombinators.Uniform', lambda s: (S.Last(2) >> R.Uniform(seed=s)) | S.First(1)),
      ('mutators.Uniform() * 2', 'mutators.Uniform', lambda s: M.Uniform(seed=s) * 2),
      ('mutators.Uniform().with_prob(0.5)', 'mutators.Uniform', lambda s: M.Uniform(seed=s).with_prob(0.5, seed=s)),
      ('Random(2) >> Top(1) >> mutators.Uniform()', 'mutators.Uniform',
       lambda s: S.Random(2, seed=s) >> S.Top(1) >> M.Uniform(seed=s)),
      ('Random(2) - Top(1)', 'selectors.Random', lambda s: S.Random(2, seed=s) - S.Top(1)),
      ('First(2) >> recombinators.KPoint(1) >> mutators.Uniform()', 'recombinators.KPoint',
       lambda s: S.First(2) >> R.KPoint(1, seed=s) >> M.Uniform(seed=s)),
      ('Top(1) >> mutators.Uniform().until_change(3)', 'mutators.Uniform',
       lambda s: S.Top(1) >> M.Uniform(seed=s).until_change(3)),
      ('Top(2) >> mutators.Swap()', 'mutators.Swap', lambda s: S.Top(2) >> M.Swap(seed=s)),
      # first operand passes the population through (elitism pattern / operation applied with probability 0)
      ('Identity + (Top(1) >> mutators.Uniform())', 'mutators.Uniform', lambda s: evo.Identity() + (S.Top(1) >> M.Uniform(seed=s))),
      ('First(1).with_prob(0.0) + Top(1)', 'selectors.First', lambda s: S.First(1).with_prob(0.0, seed=s) + S.Top(1)),
      ('mutators.Uniform().with_prob(0.0) + mutators.Uniform()', 'mutators.Uniform',
       lambda s: M.Uniform(seed=s).with_prob(0.0, seed=s) + M.Uniform(seed=s)),
      ('Top(1).if_true(len>9) + (Last(1) >> mutators.Uniform())', 'mutators.Uniform',
       lambda s: S.Top(1).if_true(lambda x: len(x) > 9) + (S.Last(1) >> M.Uniform(seed=s))),
  ]


# ---------------------------------------------------------------------------------------------
# Recording.


class _Timeout(Exception):
  pass


def _alarm(signum, frame):
  del signum, frame
  raise _Timeout()


def _apply(op, inputs, limit: float = 10.0):
  old = signal.signal(signal.SIGALRM, _alarm)
  signal.setitimer(signal.ITIMER_REAL, limit)
  try:
    return list(op(inputs)), ''
  except _Timeout:
    return [], 'timeout'
  except Exception as e:   # pylint: disable=broad-except
    return [], f'{type(e).__name__}: {e}'[:160]
  finally:
    signal.setitimer(signal.ITIMER_REAL, 0)
    signal.signal(signal.SIGALRM, old)


def record_event(space: SpaceC, inputs: List[pg.DNA], in_ids: List[int], fits: List[int], label: str, cls: str,
                 kind: str, factory, seed: int, expr: Optional[dict] = None, det: bool = False,
                 count: int = -1, submulti: bool = False, cache: Optional[dict] = None,
                 session: bool = False, rngfree: bool = False) -> dict:
  """Applies the operator (twice: fresh instance, same seed) to the population list `inputs`.

  `inputs` is the caller's list OBJECT and is handed to the operator as it is, both times; the event logs what
  that list contains afterwards (identity + decisions of every member, whatever its length now is), so a
  population that grew, shrank, was reordered or had members replaced fails InputsUnchanged, and the second
  run sees the corrupted population (SeedDeterministic / Exact).  The list is restored before returning.
  """
  orig = list(inputs)                      # snapshot: the member objects, in order
  before = [space.nested(d)[0] for d in orig]
  cache = cache if cache is not None else {}

  def facts(o):
    """(nested, ok, valid, aligned) of a DNA object; cached per (object, decisions)."""
    try:
      key = (id(o), repr(o.to_numbers()))
    except Exception:   # pylint: disable=broad-except
      key = None
    if key is not None and key in cache and cache[key][0] is o:
      return cache[key][1]
    n, ok = space.nested(o)
    f = (n, ok, space.validates(o), space.aligned(o))
    if key is not None:
      cache[key] = (o, f)
    return f

  def ident(o):
    for i, d in enumerate(orig):
      if d is o:
        return in_ids[i]
    return 0

  def content(lst):
    """The population list as it is now: [{id, dna}] (id 0 = not one of the original members)."""
    res = []
    for o in list(lst):
      if isinstance(o, pg.DNA):
        res.append(dict(id=ident(o), dna=space.nested(o)[0]))
      else:
        res.append(dict(id=0, dna=[]))
    return res

  def describe(outs, full):
    res = []
    for o in outs:
      if not isinstance(o, pg.DNA):
        res.append(dict(id=0, dna=[], ok=False, valid=False, aligned=True) if full else dict(id=0, dna=[]))
        continue
      n, ok, valid, aligned = facts(o)
      r = dict(id=ident(o), dna=n)
      if full:
        r.update(ok=ok, valid=valid, aligned=aligned)
      res.append(r)
    return res

  op1, op2 = factory(seed), factory(seed)
  out1, raised = _apply(op1, inputs)
  d1 = describe(out1, True)
  after = content(inputs)
  out2, raised2 = _apply(op2, inputs)
  d2 = describe(out2, False)
  after2 = content(inputs)
  if len(after2) != len(orig) or any(a is not b for a, b in zip(list(inputs), orig)):
    if [x['id'] for x in after] == list(in_ids) and [x['dna'] for x in after] == before:
      after = after2                       # only the second application corrupted the population
    inputs[:] = orig                       # later events start from the original population again
  calls = []
  if session and not raised and not raised2:
    calls = _session(space, op1, op2, factory, seed, orig, in_ids, fits, rngfree)
  return dict(op=label, cls=cls, kind=kind, det=det, expr=expr or dict(BLANK, op='opaque'), seed=seed,
              **{'in': [dict(id=i, dna=b, fit=f) for i, b, f in zip(in_ids, before, fits)]},
              in_after=after, out=d1, out2=d2, count=count, submulti=submulti,
              raised=raised or raised2, rngfree=rngfree, calls=calls)


def _session(space: SpaceC, op1, op2, factory, seed: int, orig: List[pg.DNA], in_ids: List[int], fits: List[int],
             rngfree: bool) -> List[dict]:
  """Keeps using the operator INSTANCE `op1` (already applied once to the population): value-equal parents with
  new fitness, the original population again, a different population, the original once more.  Every result
  is logged next to a reference: for an operator without random state, what a FRESHLY constructed operator
  returns for the same input (the output may depend on parameters and inputs only, not on earlier calls); for
  a seeded operator, what a second instance with the same seed returns along the same call sequence."""
  def twin(new_fits):
    objs = {}
    lst = []
    for d, i, f in zip(orig, in_ids, new_fits):
      if i not in objs:
        objs[i] = pg.DNA.from_numbers(d.to_numbers(), space.spec)
        evo.set_fitness(objs[i], float(f))
      lst.append(objs[i])
    return lst
  by_id = {}
  for i, f in zip(in_ids, fits):
    by_id.setdefault(i, f)
  distinct = sorted(by_id)
  rev = dict(zip(distinct, [by_id[i] for i in reversed(distinct)]))
  if len(distinct) == 1:
    rev = {distinct[0]: by_id[distinct[0]] + 7}
  refit = [rev[i] for i in in_ids]
  seqs = [('value-equal, new fitness', twin(refit), in_ids),
          ('same population', list(orig), in_ids),
          ('reversed population', list(reversed(orig)), list(reversed(in_ids))),
          ('value-equal, new fitness (2)', twin([f + 3 for f in refit]), in_ids),
          ('same population (2)', list(orig), in_ids)]
  calls = []
  for what, lst, ids_ in seqs:
    def desc(outs, err):
      if err:
        return [dict(id=-1, dna=[])]
      res = []
      for o in outs:
        ident = 0
        for d, i in zip(lst, ids_):
          if d is o:
            ident = i
            break
        res.append(dict(id=ident, dna=space.nested(o)[0] if isinstance(o, pg.DNA) else []))
      return res
    keep = list(lst)
    o1, e1 = _apply(op1, lst)
    lst[:] = keep
    if rngfree:
      o2, e2 = _apply(factory(seed), lst)
    else:
      o2, e2 = _apply(op2, lst)
    lst[:] = keep
    calls.append(dict(what=what, out=desc(o1, e1), ref=desc(o2, e2)))
  return calls


def populations(space: SpaceC, rng: random.Random, n_pops: int):
  """Populations of 1-4 valid DNAs (objects may repeat), with distinct fitness per object."""
  pops = []
  for p in range(n_pops):
    size = 1 + (p % 4) if p < 4 else rng.randint(2, 4)
    objs = []
    for _ in range(size):
      if space.valid:
        objs.append(space.dna(rng.choice(space.valid)))
      else:
        objs.append(pg.random_dna(space.spec, rng))
    ids = list(range(1, size + 1))
    fit_pool = rng.sample(range(1, 20), size)
    dnas = list(objs)
    if size >= 3 and p % 3 == 2:
      dnas[-1] = dnas[0]          # the same individual twice
      ids[-1] = ids[0]
      fit_pool[-1] = fit_pool[0]
    for d, f in zip(dnas, fit_pool):
      evo.set_fitness(d, float(f))
    pops.append((dnas, ids, fit_pool))
  return pops


def record_space(args) -> List[dict]:
  """All events of one space: returns traces [{id, space, spec, ev: [...]}] (one per population)."""
  name, struct, valid, seed, thorough, n_pops, n_seeds, depth2, part = args     # part: population index or 'all'
  space = SpaceC(name, struct, valid)
  rng = random.Random(f'{seed}-{name}')
  # operators that (wrongly) fall back to the process-wide generator must still give a reproducible run
  random.seed(f'global-{seed}-{name}-{part}')
  traces = []
  d1 = all_depth1()
  for pi, (dnas, ids, fits) in enumerate(populations(space, rng, n_pops)):
    rng = random.Random(f'{seed}-{name}-{pi}')
    if pi != part:
      continue
    ev = []
    ln = len(dnas)
    pair = dnas[:2]
    cache: Dict[Any, Any] = {}
    for s in range(n_seeds):
      sd = seed * 100 + s
      for label, cls, kind, factory, minp, exact in catalogue(thorough):
        if ln < minp:
          continue
        # the same list objects are handed to consecutive applications (`dnas`, or `pair` for 2-parent operators)
        sub = slice(0, exact) if exact else slice(0, ln)
        plist = pair if exact == 2 else dnas
        ev.append(record_event(space, plist, ids[sub], fits[sub], label, cls, kind, factory, sd, cache=cache,
                               session=s == 0, rngfree=label.startswith(RNGFREE)))
        if 'where=ANY' in label:     # which decision point is crossed depends on the seed: try a few more
          for extra in range(1, 5):
            ev.append(record_event(space, plist, ids[sub], fits[sub], label, cls, kind, factory, sd + 10 * extra,
                                   cache=cache))
      for label, cls, factory, cnt, submulti, nonempty in random_selectors():
        ev.append(record_event(space, dnas, ids, fits, label, cls, 'selector', factory, sd, count=cnt(ln), submulti=submulti,
                               cache=cache, session=s == 0 and ('fitness' in label or '(1' in label or '(2' in label),
                               rngfree=label.startswith(RNGFREE)))
      for label, uses, factory in mixed_exprs():
        if 'KPoint' in label and ln < 2:
          continue
        ev.append(record_event(space, dnas, ids, fits, label, f'expr[{uses}]', 'expr', factory, sd, cache=cache,
                               session=s == 0))
    # deterministic selectors and expressions over them (seed independent)
    for e in sel_leaves():
      if e['op'] == 'identity':
        continue
      cnt = min(ln, (-(-ln * e['pct'] // 100)) if e['pct'] else (ln if e['n'] < 0 else e['n']))
      ev.append(record_event(space, dnas, ids, fits, json.dumps({k: e[k] for k in ('op', 'n', 'pct')}), 'selectors.' + e['op'].capitalize(),
                             'selector', (lambda e_: lambda s: real_op(e_))(e), 0, expr=e, det=True, count=cnt, submulti=True, cache=cache,
                             session=True, rngfree=True))
    # the algebra does not depend on the space: the complete depth-1 set runs on one population of every third
    # space (rotating with the seed), a sample of it everywhere else
    full = thorough or (pi == 0 and (sum(map(ord, name)) + seed) % 3 == 0)
    exprs = list(d1) if full else rng.sample(d1, len(d1) // 4)
    exprs += gen_exprs(rng, 2, depth2)
    if thorough:
      exprs += gen_exprs(rng, 3, depth2 // 2)
    for k, e in enumerate(exprs):
      ev.append(record_event(space, dnas, ids, fits, 'expr', 'expr[selectors]', 'expr', (lambda e_: lambda s: real_op(e_))(e), 0,
                             expr=e, det=True, cache=cache, session=k % 24 == 0, rngfree=True))
    traces.append(dict(id=f'{name}-p{pi}', space=name, spec=struct, ev=ev))
  # every valid DNA as single parent of the mutators, (a sample of) all ordered pairs as parents of the recombinators
  if space.valid and part == 'all':
    rng = random.Random(f'{seed}-{name}-all')
    ev = []
    cache = {}
    objs = [space.dna(v) for v in space.valid]
    for i, d in enumerate(objs):
      evo.set_fitness(d, float(i + 1))
    sd = seed * 100 + 7
    for i, d in enumerate(objs):
      for label, cls, kind, factory, _, _ in catalogue(thorough)[:5]:
        ev.append(record_event(space, [d], [1], [i + 1], label, cls, kind, factory, sd, cache=cache))
    pairs = [(i, j) for i in range(len(objs)) for j in range(len(objs)) if i != j]
    cap = 150 if thorough else 40
    if len(pairs) > cap:
      pairs = rng.sample(pairs, cap)
    recs = [c for c in catalogue(thorough) if c[2] == 'recombinator']
    for k, (i, j) in enumerate(pairs):
      for label, cls, kind, factory, _, _ in recs:
        if not thorough and k % 3 and 'Uniform' not in label and 'KPoint(1)' not in label:
          continue
        ev.append(record_event(space, [objs[i], objs[j]], [1, 2], [i + 1, j + 1], label, cls, kind, factory, sd + k % 3,
                               cache=cache))
    traces.append(dict(id=f'{name}-all', space=name, spec=struct, ev=ev))
  return traces


def rerecord(space_name: str, struct: dict, ev: dict) -> dict:
  """Re-executes a recorded event on the current code (for ./check C14 --replay)."""
  space = SpaceC(space_name, struct, [])
  objs: Dict[int, pg.DNA] = {}
  dnas, ids, fits = [], [], []
  for x in ev['in']:
    if x['id'] not in objs:
      objs[x['id']] = space.dna(x['dna'])
      evo.set_fitness(objs[x['id']], float(x['fit']))
    dnas.append(objs[x['id']])
    ids.append(x['id'])
    fits.append(x['fit'])
  factory = None
  for label, cls, kind, f, _, _ in catalogue(True):
    if label == ev['op']:
      factory = f
  for label, cls, f, _, _, _ in random_selectors():
    if label == ev['op']:
      factory = f
  for label, _, f in mixed_exprs():
    if label == ev['op']:
      factory = f
  if factory is None and ev['expr']['op'] != 'opaque':
    e = ev['expr']
    factory = lambda s: real_op(e)
  if factory is None:
    raise ValueError('unknown operator ' + ev['op'])
  return record_event(space, dnas, ids, fits, ev['op'], ev['cls'], ev['kind'], factory, ev['seed'], expr=ev['expr'],
                      det=ev['det'], count=ev['count'], submulti=ev['submulti'])
