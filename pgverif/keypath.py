"""C10 driver: evaluates the real pg.KeyPath / KeyPathSet / pg.utils.flatten / canonicalize / traverse /
pg.traverse / pg.query on the universes exported by specs/KeyPathModel.tla and projects the results back
into the value encoding of specs/KeyPath.tla.  No expected value is computed here: the observed relations
go back to TLC (specs/KeyPathLaws.tla), KeyPathSet behaviours come from TLC (specs/KeyPathSetM.tla).
"""
from __future__ import annotations

import random
from typing import Any, Dict, List, Optional, Tuple

import pyglove as pg
from pyglove.core import utils as pg_utils

KeyPath = pg.KeyPath
KeyPathSet = pg_utils.KeyPathSet

# char codes of KeyPath.tla (code point order): 1 '-' 2 '.' 3 '0' 4 '1' 5 '[' 6 ']' 7 'a' 8 'b' 9 u
FIXED = {1: '-', 2: '.', 3: '0', 4: '1', 5: '[', 6: ']', 7: 'a', 8: 'b'}
# representatives of the non-ASCII class (all > ']' and > 'b' in code point order, none a digit or bracket)
U_POOL = ['\u00e9', '\u4e2d', '\U0001F600', '\u00df', '\u0416', '\u0e01', '\u00b7']
UNKNOWN_CHAR = 99


class Conc:
  """Concretisation of abstract chars / keys / paths / values (one choice of the non-ASCII char)."""

  def __init__(self, uchar: str = U_POOL[0]):
    self.uchar = uchar
    self.c2s = dict(FIXED)
    self.c2s[9] = uchar
    self.s2c = {v: k for k, v in self.c2s.items()}

  # --- abstract -> concrete
  def text(self, codes) -> str:
    return ''.join(self.c2s[c] for c in codes)

  def key(self, k) -> Any:
    return int(k['n']) if k['int'] else self.text(k['s'])

  def keys(self, p) -> List[Any]:
    return [self.key(k) for k in p]

  def path(self, p) -> KeyPath:
    return KeyPath(self.keys(p))

  def has_u(self, p) -> bool:
    return any((not k['int']) and 9 in k['s'] for k in p)

  # --- concrete -> abstract
  def codes(self, s: str) -> List[int]:
    return [self.s2c.get(ch, UNKNOWN_CHAR) for ch in s]

  def akey(self, k) -> dict:
    if isinstance(k, bool) or not isinstance(k, (int, str)):
      return {'int': False, 'n': 0, 's': [UNKNOWN_CHAR, UNKNOWN_CHAR]}
    if isinstance(k, int):
      return {'int': True, 'n': k, 's': []}
    return {'int': False, 'n': 0, 's': self.codes(k)}

  def apath(self, keys) -> List[dict]:
    return [self.akey(k) for k in keys]


# ------------------------------------------------------------------------------------------------
# parse table and format/parse round trip


def eval_parse_table(strs: List[dict], conc: Conc) -> List[dict]:
  out = []
  for e in strs:
    s = conc.text(e['s'])
    try:
      kp = KeyPath.parse(s)
      out.append({'s': e['s'], 'ok': True, 'keys': conc.apath(kp.keys), 'err': ''})
    except Exception as ex:  # pylint: disable=broad-except
      out.append({'s': e['s'], 'ok': False, 'keys': [], 'err': type(ex).__name__})
  return out


def eval_roundtrip(paths: List[dict], concs: List[Conc]) -> List[dict]:
  """str(KeyPath(keys)) parsed back, for every path (and every non-ASCII representative where it matters)."""
  out = []
  for e in paths:
    p = e['p']
    for ci, conc in enumerate(concs):
      if ci > 0 and not conc.has_u(p):
        continue
      try:
        kp = conc.path(p)
        s = str(kp)
        q = KeyPath.parse(s)
        same = (q == kp) and (hash(q) == hash(kp)) and (kp == s) and not (q != kp)
        out.append({'p': p, 'f': conc.codes(s), 'ok': True, 'keys': conc.apath(q.keys), 'eq': bool(same)})
      except Exception as ex:  # pylint: disable=broad-except
        out.append({'p': p, 'f': [], 'ok': False, 'keys': [], 'eq': False, 'err': type(ex).__name__})
  return out


# ------------------------------------------------------------------------------------------------
# path algebra


def _res(fn, conc: Conc) -> dict:
  try:
    return {'ok': True, 'keys': conc.apath(fn().keys), 'err': ''}
  except Exception as ex:  # pylint: disable=broad-except
    return {'ok': False, 'keys': [], 'err': type(ex).__name__}


def eval_algebra(au: List[list], conc: Conc) -> Tuple[dict, List[dict]]:
  """All binary tables over the algebra universe.  Returns (tables, raised) where `raised` lists
  comparisons / predicates that raised (they have no table encoding)."""
  n = len(au)
  mk = lambda i: conc.path(au[i])     # a fresh KeyPath every time (no cached printed form)
  names = ['add', 'addstr', 'sub', 'substr', 'subadd', 'rel', 'relstr', 'reladd', 'paradd', 'lt', 'le', 'gt', 'ge', 'eq', 'ne', 'hasheq']
  t: Dict[str, Any] = {k: [[None] * n for _ in range(n)] for k in names}
  raised = []
  t['parent'] = [_res(lambda i=i: mk(i).parent, conc) for i in range(n)]
  t['depth'] = [len(mk(i)) for i in range(n)]
  for i in range(n):
    for j in range(n):
      a, b = mk(i), mk(j)
      t['add'][i][j] = _res(lambda: a + b, conc)
      t['addstr'][i][j] = _res(lambda: mk(i) + str(mk(j)), conc)
      t['sub'][i][j] = _res(lambda: a - b, conc)
      t['subadd'][i][j] = _res(lambda: (a + b) - a, conc)
      t['substr'][i][j] = _res(lambda: mk(i) - str(mk(j)), conc)
      t['paradd'][i][j] = _res(lambda: (a + b).parent, conc)
      try:
        t['rel'][i][j] = bool(a.is_relative_to(b))
        t['reladd'][i][j] = bool((a + b).is_relative_to(a))
        t['relstr'][i][j] = bool(mk(i).is_relative_to(str(mk(j))))
        t['lt'][i][j] = bool(a < b)
        t['le'][i][j] = bool(a <= b)
        t['gt'][i][j] = bool(a > b)
        t['ge'][i][j] = bool(a >= b)
        t['eq'][i][j] = bool(a == b)
        t['ne'][i][j] = bool(a != b)
        t['hasheq'][i][j] = hash(a) == hash(b)
      except Exception as ex:  # pylint: disable=broad-except
        raised.append({'a': au[i], 'b': au[j], 'err': type(ex).__name__})
        for k in ('rel', 'relstr', 'reladd', 'lt', 'le', 'gt', 'ge', 'eq', 'ne', 'hasheq'):
          if t[k][i][j] is None:
            t[k][i][j] = False
  return t, raised


# ------------------------------------------------------------------------------------------------
# nested values: traversal, lookup, flatten / canonicalize


class ValueConc:
  """Builds a concrete nested value: every leaf is a distinct int 10 * (preorder leaf index) + atom."""

  def __init__(self, conc: Conc):
    self.conc = conc
    self.n = 0

  def build(self, v) -> Any:
    t = v['t']
    if t == 'leaf':
      self.n += 1
      return 1000 + 10 * self.n + int(v['a'])
    if t == 'dict':
      return {self.conc.key(k): self.build(x) for k, x in zip(v['ks'], v['xs'])}
    return [self.build(x) for x in v['xs']]


def avalue(x, conc: Conc) -> dict:
  """Concrete nested value -> record encoding of KeyPath.tla."""
  if isinstance(x, dict):
    return {'t': 'dict', 'a': 0, 'ks': [conc.akey(k) for k in x.keys()], 'xs': [avalue(y, conc) for y in x.values()]}
  if isinstance(x, list):
    return {'t': 'list', 'a': 0, 'ks': [], 'xs': [avalue(y, conc) for y in x]}
  if isinstance(x, int) and not isinstance(x, bool) and x >= 1000:
    return {'t': 'leaf', 'a': x % 10, 'ks': [], 'xs': []}
  return {'t': 'leaf', 'a': 97, 'ks': [], 'xs': []}


def _is_at(path: KeyPath, root, node) -> bool:
  try:
    return path.query(root) is node
  except Exception:  # pylint: disable=broad-except
    return False


def _entry(path: KeyPath, node, root, conc: Conc) -> dict:
  try:
    reparsed = KeyPath.parse(str(path))
  except Exception:  # pylint: disable=broad-except
    reparsed = None
  return {'p': conc.apath(path.keys), 'node': avalue(node, conc),
          'is': _is_at(path, root, node),
          'rt': reparsed is not None and _is_at(reparsed, root, node)}


PROBE_KEYS = [{'int': False, 'n': 0, 's': [7]}, {'int': True, 'n': 0, 's': []},
              {'int': True, 'n': 1, 's': []}, {'int': False, 'n': 0, 's': [8, 8]}]


def _exists(path: KeyPath, root) -> str:
  try:
    e = path.exists(root)
    g = path.get(root, _exists)        # a default that cannot be in the tree
    if e != (g is not _exists):
      return 'E'
    return 'T' if e else 'F'
  except Exception:  # pylint: disable=broad-except
    return 'E'


def eval_value(v: dict, dom: bool, conc: Conc) -> dict:
  plain = ValueConc(conc).build(v)
  sym = pg.Dict(plain) if isinstance(plain, dict) else (pg.List(plain) if isinstance(plain, list) else plain)
  logs: Dict[str, list] = {}
  # pg.utils.traverse on plain containers
  for name, kw in (('utils_traverse_pre', 'preorder_visitor_fn'), ('utils_traverse_post', 'postorder_visitor_fn')):
    log: list = []
    def visit(path, node, log=log):
      log.append(_entry(path, node, plain, conc))
      return True
    pg_utils.traverse(plain, **{kw: visit})
    logs[name] = log
  # pg.traverse on symbolic containers
  for name, kw in (('pg_traverse_pre', 'preorder_visitor_fn'), ('pg_traverse_post', 'postorder_visitor_fn')):
    log = []
    def visit3(path, node, parent, log=log):
      del parent
      log.append(_entry(path, node, sym, conc))
      return pg.TraverseAction.ENTER
    pg.traverse(sym, **{kw: visit3})
    logs[name] = log
  # pg.query: printed path -> node
  log = []
  for k, node in pg.query(sym, custom_selector=lambda k, v: True, enter_selected=True).items():
    try:
      path = KeyPath.parse(k)
    except Exception:  # pylint: disable=broad-except
      log.append({'p': [conc.akey(None)], 'node': avalue(node, conc), 'is': False, 'rt': False})
      continue
    log.append({'p': conc.apath(path.keys), 'node': avalue(node, conc),
                'is': _is_at(path, sym, node), 'rt': _is_at(path, sym, node)})
  logs['pg_query'] = log
  # exists / get probes: every visited path and one-key extensions
  probes, seen = [], set()
  for e in logs['pg_traverse_pre']:
    for ext in [[]] + [[k] for k in PROBE_KEYS]:
      p = e['p'] + ext
      key = repr(p)
      if key in seen or len(probes) >= 40:
        continue
      seen.add(key)
      probes.append({'p': p, 'plain': _exists(conc.path(p), plain), 'sym': _exists(conc.path(p), sym)})
  # flatten (complex keys preserved) and canonicalize
  try:
    f = pg_utils.flatten(plain, flatten_complex_keys=False)
    if f is plain and (not isinstance(plain, (dict, list)) or not plain):
      entries = [{'k': [], 'node': avalue(plain, conc)}]
    else:
      entries = [{'k': conc.codes(k) if isinstance(k, str) else [UNKNOWN_CHAR], 'node': avalue(x, conc)}
                 for k, x in f.items()]
    flat = {'ok': True, 'entries': entries}
    try:
      canon = {'ok': True, 'v': avalue(pg_utils.canonicalize(f), conc)}
    except Exception as ex:  # pylint: disable=broad-except
      canon = {'ok': False, 'v': avalue(None, conc), 'err': type(ex).__name__}
    # the path-keyed form is a MAPPING: the same entries stored in another order must canonicalize to the same value
    canonp = []
    if isinstance(f, dict) and f is not plain:
      items = list(f.items())
      orders = [list(reversed(items)), sorted(items, key=lambda kv: str(kv[0]))]
      shuffled = list(items)
      random.Random(len(items) * 7919 + sum(len(str(k)) for k, _ in items)).shuffle(shuffled)
      orders.append(shuffled)
      for order in orders:
        try:
          canonp.append({'ok': True, 'v': avalue(pg_utils.canonicalize(dict(order)), conc)})
        except Exception as ex:  # pylint: disable=broad-except
          canonp.append({'ok': False, 'v': avalue(None, conc), 'err': type(ex).__name__})
  except Exception as ex:  # pylint: disable=broad-except
    flat = {'ok': False, 'entries': [], 'err': type(ex).__name__}
    canon = {'ok': False, 'v': avalue(None, conc)}
    canonp = []
  return {'v': v, 'dom': dom, 'logs': logs, 'probes': probes, 'flat': flat, 'canon': canon, 'canonp': canonp}


# ------------------------------------------------------------------------------------------------
# KeyPathSet: S->C replay of behaviours of specs/KeyPathSetM.tla

# pools of concrete keys for the key ids of the spec (distinct as dict keys; '0' vs 0 on purpose)
KEY_POOL = ['a', 'b', 0, 1, -1, '0', 'x.y', '[0]', 'é', 10, '10', '-1', 'a[0].b', '\U0001F600', -10, 'ab', '01', 'a.b']
DOLLAR_POOL = ['$']          # collides with the trie's terminal marker (known design collision)


class SetDivergence(Exception):
  def __init__(self, clause, detail):
    super().__init__(clause)
    self.clause = clause
    self.detail = detail


class SetReplayer:
  """Executes one behaviour of KeyPathSetM.tla on real KeyPathSet objects and compares after every step."""

  def __init__(self, nkeys: int, max_depth: int, regs: List[int], rng: random.Random, with_dollar: bool = False):
    pool = list(KEY_POOL)
    rng.shuffle(pool)
    chosen = pool[:nkeys]
    if with_dollar:
      chosen[rng.randrange(nkeys)] = '$'
    self.keymap = {i + 1: chosen[i] for i in range(nkeys)}
    self.inv = {(type(v).__name__, v): k for k, v in self.keymap.items()}
    self.rng = rng
    self.regs: Dict[int, Any] = {i: KeyPathSet() for i in regs}
    # all key-id sequences up to max_depth
    level, allp = [()], [()]
    for _ in range(max_depth):
      level = [p + (k,) for p in level for k in range(1, nkeys + 1)]
      allp += level
    self.universe = allp
    self.hits: Dict[str, int] = {}
    self.resyncs = 0

  # -- concretisation of path arguments (KeyPath object, printed form, or bare int)
  def kp(self, ids) -> KeyPath:
    return KeyPath([self.keymap[i] for i in ids])

  def arg(self, ids):
    p = self.kp(ids)
    form = self.rng.randrange(4)
    if form == 0 and KeyPath.parse(str(p)).keys == p.keys:
      return str(p)
    if form == 1 and len(ids) == 1 and isinstance(self.keymap[ids[0]], int):
      return self.keymap[ids[0]]
    return p

  def ids(self, path: KeyPath):
    out = []
    for k in path.keys:
      out.append(self.inv.get((type(k).__name__, k), 0))
    return tuple(out)

  def members(self, s) -> List[tuple]:
    return [self.ids(p) for p in s]

  # -- one step
  def apply(self, act: list, prev_abs: Dict[int, set]):
    name = act[0]
    R = self.regs
    ret = None
    if name == 'Init':
      pass
    elif name == 'Add':
      ret = R[act[1]].add(self.arg(act[2]))
    elif name == 'Remove':
      ret = R[act[1]].remove(self.arg(act[2]))
    elif name == 'Update':
      R[act[1]].update(R[act[2]])
    elif name == 'DiffUpdate':
      R[act[1]].difference_update(R[act[2]])
    elif name == 'InterUpdate':
      R[act[1]].intersection_update(R[act[2]])
    elif name in ('Union', 'Plus', 'Difference', 'Intersection'):
      a, b = R[act[1]], R[act[2]]
      res = {'Union': lambda: a.union(b), 'Plus': lambda: a + b,
             'Difference': lambda: a.difference(b), 'Intersection': lambda: a.intersection(b)}[name]()
      if res is a or res is b:
        raise SetDivergence('fresh_result', {'what': 'a pure operation returned one of its operands'})
      R[act[3]] = res
    elif name == 'Copy':
      R[act[2]] = R[act[1]].copy()
    elif name == 'Rebase':
      R[act[1]].rebase(self.arg(act[2]))
    elif name == 'KeyPathPlus':
      res = self.kp(act[1]) + R[act[2]]
      if res is R[act[2]]:
        raise SetDivergence('fresh_result', {'what': 'KeyPath + KeyPathSet returned its operand'})
      R[act[3]] = res
    elif name == 'Clear':
      R[act[1]].clear()
    elif name == 'Subtree':
      ret = R[act[1]].subtree(self.arg(act[2]))
    else:
      raise ValueError(f'unknown action {name}')
    return ret

  def compare(self, act: list, ret, state: dict):
    """Compares every register with the spec state; raises SetDivergence(clause, detail)."""
    name = act[0]
    out = state['out']
    if name in ('Add', 'Remove'):
      if bool(ret) != bool(out['b']):
        raise SetDivergence('return', {'expected': bool(out['b']), 'observed': ret})
    if name == 'Subtree':
      if out['none']:
        if ret is not None:
          raise SetDivergence('subtree', {'expected': None, 'observed': self.members(ret)})
      else:
        want = {tuple(p) for p in out['s']}
        got = None if ret is None else self.members(ret)
        if got is None or set(got) != want or len(got) != len(want):
          raise SetDivergence('subtree', {'expected': sorted(want), 'observed': got})
    spec_abs = state['abs']
    for i, s in self.regs.items():
      want = {tuple(p) for p in reg(spec_abs, i)}
      got = self.members(s)
      if set(got) != want or len(got) != len(want):
        raise SetDivergence('members', {'reg': i, 'expected': sorted(want), 'observed': sorted(got)})
      if bool(s) != bool(want):
        raise SetDivergence('bool', {'reg': i, 'expected': bool(want), 'observed': bool(s)})
      for p in self.universe:
        if (self.kp(p) in s) != (p in want):
          raise SetDivergence('in', {'reg': i, 'path': p, 'expected': p in want})
        if p and s.has_prefix(self.kp(p)) != any(q[:len(p)] == p for q in want):
          raise SetDivergence('has_prefix', {'reg': i, 'path': p})
    ks = sorted(self.regs)
    for i in ks:
      for j in ks:
        wi = {tuple(p) for p in reg(spec_abs, i)}
        wj = {tuple(p) for p in reg(spec_abs, j)}
        e = self.regs[i] == self.regs[j]
        n = self.regs[i] != self.regs[j]
        if bool(e) != (wi == wj) or bool(n) == bool(e):
          raise SetDivergence('eq', {'regs': [i, j], 'expected': wi == wj, 'observed_eq': e, 'observed_ne': n})

  def resync(self, state: dict):
    """After a known divergence: rebuild every register from the spec state so the walk can go on."""
    for i in self.regs:
      self.regs[i] = KeyPathSet([self.kp(p) for p in sorted(tuple(q) for q in reg(state['abs'], i))])
    self.resyncs += 1


def reg(fn, i):
  """abs / trie are functions over Regs: TLC prints 1..n domains as sequences."""
  if isinstance(fn, dict):
    return fn[i] if i in fn else fn[str(i)]
  return fn[i - 1]
