"""C10 driver: evaluates the real pg.KeyPath / KeyPathSet / pg.utils.flatten / canonicalize / traverse /
pg.traverse / pg.query on the universes exported by specs/KeyPathModel.tla and projects the results back
into the value encoding of specs/KeyPath.tla.  No expected value is computed here: the observed relations
go back to TLC (specs/KeyPathLaws.tla), KeyPathSet behaviours come from TLC (specs/KeyPathSetM.tla).
"""
from __future__ import annotations

import random
from typing import Any, Dict, List, Optional, Tuple

import pyglove as pg
from pyglove.core import utils as pg_utils

KeyPath = pg.KeyPath
KeyPathSet = pg_utils.KeyPathSet

# char codes of KeyPath.tla (code point order): 1 '-' 2 '.' 3 '0' 4 '1' 5 '[' 6 ']' 7 'a' 8 'b' 9 u
FIXED = {1: '-', 2: '.', 3: '0', 4: '1', 5: '[', 6: ']', 7: 'a', 8: 'b'}
# representatives of the non-ASCII class (all > ']' and > 'b' in code point order, none a digit or bracket)
U_POOL = ['\u00e9', '\u4e2d', '\U0001F600', '\u00df', '\u0416', '\u0e01', '\u00b7']
UNKNOWN_CHAR = 99


class Conc:
  """Concretisation of abstract chars / keys / paths / values (one choice of the non-ASCII char)."""

  def __init__(self, uchar: str = U_POOL[0]):
    self.uchar = uchar
    self.c2s = dict(FIXED)
    self.c2s[9] = uchar
    self.s2c = {v: k for k, v in self.c2s.items()}

  # --- abstract -> concrete
  def text(self, codes) -> str:
    return ''.join(self.c2s[c] for c in codes)

  def key(self, k) -> Any:
    return int(k['n']) if k['int'] else self.text(k['s'])

  def keys(self, p) -> List[Any]:
    return [self.key(k) for k in p]

  def path(self, p) -> KeyPath:
    return KeyPath(self.keys(p))

  def has_u(self, p) -> bool:
    return any((not k['int']) and 9 in k['s'] for k in p)

  # --- concrete -> abstract
  def codes(self, s: str) -> List[int]:
    return [self.s2c.get(ch, UNKNOWN_CHAR) for ch in s]

  def akey(self, k) -> dict:
    if isinstance(k, bool) or not isinstance(k, (int, str)):
      return {'int': False, 'n': 0, 's': [UNKNOWN_CHAR, UNKNOWN_CHAR]}
    if isinstance(k, int):
      return {'int': True, 'n': k, 's': []}
    return {'int': False, 'n': 0, 's': self.codes(k)}

  def apath(self, keys) -> List[dict]:
    return [self.akey(k) for k in keys]


# ------------------------------------------------------------------------------------------------
# parse table and format/parse round trip


def eval_parse_table(strs: List[dict], conc: Conc) -> List[dict]:
  out = []
  for e in strs:
    s = conc.text(e['s'])
    try:
      kp = KeyPath.parse(s)
      out.append({'s': e['s'], 'ok': True, 'keys': conc.apath(kp.keys), 'err': ''})
    except Exception as ex:  # pylint: disable=broad-except
      out.append({'s': e['s'], 'ok': False, 'keys': [], 'err': type(ex).__name__})
  return out


def eval_roundtrip(paths: List[dict], concs: List[Conc]) -> List[dict]:
  """str(KeyPath(keys)) parsed back, for every path (and every non-ASCII representative where it matters)."""
  out = []
  for e in paths:
    p = e['p']
    for ci, conc in enumerate(concs):
      if ci > 0 and not conc.has_u(p):
        continue
      try:
        kp = conc.path(p)
        s = str(kp)
        q = KeyPath.parse(s)
        same = (q == kp) and (hash(q) == hash(kp)) and (kp == s) and not (q != kp)
        out.append({'p': p, 'f': conc.codes(s), 'ok': True, 'keys': conc.apath(q.keys), 'eq': bool(same)})
      except Exception as ex:  # pylint: disable=broad-except
        out.append({'p': p, 'f': [], 'ok': False, 'keys': [], 'eq': False, 'err': type(ex).__name__})
  return out


# ------------------------------------------------------------------------------------------------
# path algebra


def _res(fn, conc: Conc) -> dict:
  try:
    return {'ok': True, 'keys': conc.apath(fn().keys), 'err': ''}
  except Exception as ex:  # pylint: disable=broad-except
    return {'ok': False, 'keys': [], 'err': type(ex).__name__}


def eval_algebra(au: List[list], conc: Conc) -> Tuple[dict, List[dict]]:
  """All binary tables over the algebra universe.  Returns (tables, raised) where `raised` lists
  comparisons / predicates that raised (they have no table encoding)."""
  n = len(au)
  mk = lambda i: conc.path(au[i])     # a fresh KeyPath every time (no cached printed form)
  names = ['add', 'addstr', 'sub', 'subadd', 'rel', 'reladd', 'paradd', 'lt', 'le', 'gt', 'ge', 'eq', 'ne', 'hasheq']
  t: Dict[str, Any] = {k: [[None] * n for _ in range(n)] for k in names}
  raised = []
  t['parent'] = [_res(lambda i=i: mk(i).parent, conc) for i in range(n)]
  t['depth'] = [len(mk(i)) for i in range(n)]
  for i in range(n):
    for j in range(n):
      a, b = mk(i), mk(j)
      t['add'][i][j] = _res(lambda: a + b, conc)
      t['addstr'][i][j] = _res(lambda: mk(i) + str(mk(j)), conc)
      t['sub'][i][j] = _res(lambda: a - b, conc)
      t['subadd'][i][j] = _res(lambda: (a + b) - a, conc)
      t['paradd'][i][j] = _res(lambda: (a + b).parent, conc)
      try:
        t['rel'][i][j] = bool(a.is_relative_to(b))
        t['reladd'][i][j] = bool((a + b).is_relative_to(a))
        t['lt'][i][j] = bool(a < b)
        t['le'][i][j] = bool(a <= b)
        t['gt'][i][j] = bool(a > b)
        t['ge'][i][j] = bool(a >= b)
        t['eq'][i][j] = bool(a == b)
        t['ne'][i][j] = bool(a != b)
        t['hasheq'][i][j] = hash(a) == hash(b)
      except Exception as ex:  # pylint: disable=broad-except
        raised.append({'a': au[i], 'b': au[j], 'err': type(ex).__name__})
        for k in ('rel', 'reladd', 'lt', 'le', 'gt', 'ge', 'eq', 'ne', 'hasheq'):
          if t[k][i][j] is None:
            t[k][i][j] = False
  return t, raised


# ------------------------------------------------------------------------------------------------
# nested values: traversal, lookup, flatten / canonicalize


class ValueConc:
  """Builds a concrete nested value: every leaf is a distinct int 10 * (preorder leaf index) + atom."""

  def __init__(self, conc: Conc):
    self.conc = conc
    self.n = 0

  def build(self, v) -> Any:
    t = v['t']
    if t == 'leaf':
      self.n += 1
      return 1000 + 10 * self.n + int(v['a'])
    if t == 'dict':
      return {self.conc.key(k): self.build(x) for k, x in zip(v['ks'], v['xs'])}
    return [self.build(x) for x in v['xs']]


def avalue(x, conc: Conc) -> dict:
  """Concrete nested value -> record encoding of KeyPath.tla."""
  if isinstance(x, dict):
    return {'t': 'dict', 'a': 0, 'ks': [conc.akey(k) for k in x.keys()], 'xs': [avalue(y, conc) for y in x.values()]}
  if isinstance(x, list):
    return {'t': 'list', 'a': 0, 'ks': [], 'xs': [avalue(y, conc) for y in x]}
  if isinstance(x, int) and not isinstance(x, bool) and x >= 1000:
    return {'t': 'leaf', 'a': x % 10, 'ks': [], 'xs': []}
  return {'t': 'leaf', 'a': 97, 'ks': [], 'xs': []}


def _is_at(path: KeyPath, root, node) -> bool:
  try:
    return path.query(root) is node
  except Exception:  # pylint: disable=broad-except
    return False


def _entry(path: KeyPath, node, root, conc: Conc) -> dict:
  try:
    reparsed = KeyPath.parse(str(path))
  except Exception:  # pylint: disable=broad-except
    reparsed = None
  return {'p': conc.apath(path.keys), 'node': avalue(node, conc),
          'is': _is_at(path, root, node),
          'rt': reparsed is not None and _is_at(reparsed, root, node)}


PROBE_KEYS = [{'int': False, 'n': 0, 's': [7]}, {'int': True, 'n': 0, 's': []},
              {'int': True, 'n': 1, 's': []}, {'int': False, 'n': 0, 's': [8, 8]}]


def _exists(path: KeyPath, root) -> str:
  try:
    e = path.exists(root)
    g = path.get(root, _exists)        # a default that cannot be in the tree
    if e != (g is not _exists):
      return 'E'
    return 'T' if e else 'F'
  except Exception:  # pylint: disable=broad-except
    return 'E'


def eval_value(v: dict, dom: bool, conc: Conc) -> dict:
  plain = ValueConc(conc).build(v)
  sym = pg.Dict(plain) if isinstance(plain, dict) else (pg.List(plain) if isinstance(plain, list) else plain)
  logs: Dict[str, list] = {}
  # pg.utils.traverse on plain containers
  for name, kw in (('utils_traverse_pre', 'preorder_visitor_fn'), ('utils_traverse_post', 'postorder_visitor_fn')):
    log: list = []
    def visit(path, node, log=log):
      log.append(_entry(path, node, plain, conc))
      return True
    pg_utils.traverse(plain, **{kw: visit})
    logs[name] = log
  # pg.traverse on symbolic containers
  for name, kw in (('pg_traverse_pre', 'preorder_visitor_fn'), ('pg_traverse_post', 'postorder_visitor_fn')):
    log = []
    def visit3(path, node, parent, log=log):
      del parent
      log.append(_entry(path, node, sym, conc))
      return pg.TraverseAction.ENTER
    pg.traverse(sym, **{kw: visit3})
    logs[name] = log
  # pg.query: printed path -> node
  log = []
  for k, node in pg.query(sym, custom_selector=lambda k, v: True, enter_selected=True).items():
    try:
      path = KeyPath.parse(k)
    except Exception:  # pylint: disable=broad-except
      log.append({'p': [conc.akey(None)], 'node': avalue(node, conc), 'is': False, 'rt': False})
      continue
    log.append({'p': conc.apath(path.keys), 'node': avalue(node, conc),
                'is': _is_at(path, sym, node), 'rt': _is_at(path, sym, node)})
  logs['pg_query'] = log
  # exists / get probes: every visited path and one-key extensions
  probes, seen = [], set()
  for e in logs['pg_traverse_pre']:
    for ext in [[]] + [[k] for k in PROBE_KEYS]:
      p = e['p'] + ext
      key = repr(p)
      if key in seen or len(probes) >= 40:
        continue
      seen.add(key)
      probes.append({'p': p, 'plain': _exists(conc.path(p), plain), 'sym': _exists(conc.path(p), sym)})
  # flatten (complex keys preserved) and canonicalize
  try:
    f = pg_utils.flatten(plain, flatten_complex_keys=False)
    if f is plain and (not isinstance(plain, (dict, list)) or not plain):
      entries = [{'k': [], 'node': avalue(plain, conc)}]
    else:
      entries = [{'k': conc.codes(k) if isinstance(k, str) else [UNKNOWN_CHAR], 'node': avalue(x, conc)}
                 for k, x in f.items()]
    flat = {'ok': True, 'entries': entries}
    try:
      canon = {'ok': True, 'v': avalue(pg_utils.canonicalize(f), conc)}
    except Exception as ex:  # pylint: disable=broad-except
      canon = {'ok': False, 'v': avalue(None, conc), 'err': type(ex).__name__}
  except Exception as ex:  # pylint: disable=broad-except
    flat = {'ok': False, 'entries': [], 'err': type(ex).__name__}
    canon = {'ok': False, 'v': avalue(None, conc)}
  return {'v': v, 'dom': dom, 'logs': logs, 'probes': probes, 'flat': flat, 'canon': canon}
