"""C20 - renders values to HTML, tokenises STRICTLY, computes taint, builds traces for HtmlDoc.tla.

The tokenizer is deliberately small and unforgiving: whatever a browser would silently repair
(stray `<`, bare `&`, attributes without separating white space, duplicate quotes, `/>` on a
non-void element, an unterminated comment ...) is an `error` event, which the specification never
accepts.  Element nesting and the taint rules are NOT judged here: they are in HtmlDoc.tla.
"""
from __future__ import annotations

import html
import html.entities
import re
from typing import Any, Dict, List, Optional, Tuple

import pyglove as pg

SENT = re.compile(r'zq\d{3}x')
_NAME = re.compile(r'[A-Za-z][A-Za-z0-9-]*')
_ATTR = re.compile(r'[^\s"\'<>/=]+')
_ATTR_STRICT = re.compile(r'[A-Za-z_:][A-Za-z0-9_:.-]*\Z')
_WS = re.compile(r'[ \t\r\n\f]*')
_UNQUOTED = re.compile(r'[^\s"\'=<>`]+')
_INERT = re.compile(r'[A-Za-z0-9_ -]*\Z')
_CHARREF = re.compile(r'&(#[0-9]+|#[xX][0-9a-fA-F]+|[A-Za-z][A-Za-z0-9]*);')
VOID = {'area', 'base', 'br', 'col', 'embed', 'hr', 'img', 'input', 'link', 'meta', 'source', 'track', 'wbr'}
RAW = {'script', 'style'}


def _refs_ok(s: str) -> Optional[str]:
  """None if every `&` starts a valid character reference."""
  i = 0
  while True:
    i = s.find('&', i)
    if i < 0:
      return None
    m = _CHARREF.match(s, i)
    if not m:
      return f'bare & at {i}: {s[i:i + 12]!r}'
    body = m.group(1)
    if not body.startswith('#') and (body + ';') not in html.entities.html5:
      return f'unknown character reference &{body};'
    i = m.end()


def tokenize(doc: str) -> List[Dict[str, Any]]:
  """Token list: dicts with k in open/void/close/text/rawtext/comment/doctype/error (+ fields)."""
  out: List[Dict[str, Any]] = []
  i, n = 0, len(doc)
  raw: Optional[str] = None

  def err(msg):
    out.append({'k': 'error', 'msg': msg, 'at': i, 'near': doc[max(0, i - 40):i + 300]})

  while i < n:
    if raw is not None:
      m = re.compile(r'</' + raw + r'(?=[\s/>])', re.I).search(doc, i)
      if not m:
        err(f'unterminated <{raw}>')
        return out
      if m.start() > i:
        out.append({'k': 'rawtext', 'text': doc[i:m.start()]})
      i = m.start()
      raw = None
      continue
    if doc[i] != '<':
      j = doc.find('<', i)
      j = n if j < 0 else j
      text = doc[i:j]
      bad = _refs_ok(text)
      if bad:
        err(bad)
        return out
      out.append({'k': 'text', 'text': text})
      i = j
      continue
    if doc.startswith('<!--', i):
      j = doc.find('-->', i + 4)
      body = doc[i + 4:j] if j >= 0 else ''
      if j < 0 or body.startswith('>') or body.startswith('->') or '--!>' in body or '<!--' in body:
        err('malformed comment')
        return out
      out.append({'k': 'comment', 'text': body})
      i = j + 3
      continue
    if doc.startswith('<!', i):
      m = re.compile(r'<!DOCTYPE\s+html\s*>', re.I).match(doc, i)
      if not m:
        err('malformed markup declaration')
        return out
      out.append({'k': 'doctype'})
      i = m.end()
      continue
    if doc.startswith('</', i):
      m = _NAME.match(doc, i + 2)
      if not m:
        err('malformed end tag')
        return out
      j = _WS.match(doc, m.end()).end()
      if j >= n or doc[j] != '>':
        err('end tag with attributes or unterminated')
        return out
      out.append({'k': 'close', 'tag': m.group(0).lower()})
      i = j + 1
      continue
    m = _NAME.match(doc, i + 1)
    if not m:
      err('stray <')
      return out
    tag = m.group(0).lower()
    j = m.end()
    attrs: List[Tuple[str, Optional[str]]] = []
    wellformed = True
    selfclose = False
    while True:
      k = _WS.match(doc, j).end()
      had_ws = k > j
      j = k
      if j >= n:
        err('unterminated start tag')
        return out
      if doc[j] == '>':
        j += 1
        break
      if doc.startswith('/>', j):
        selfclose = True
        j += 2
        break
      if not had_ws:
        err('attributes not separated by white space')
        return out
      ma = _ATTR.match(doc, j)
      if not ma:
        err('malformed attribute name')
        return out
      aname = ma.group(0)
      if not _ATTR_STRICT.match(aname):
        wellformed = False
      j = ma.end()
      k = _WS.match(doc, j).end()
      val: Optional[str] = None
      if k < n and doc[k] == '=':
        k = _WS.match(doc, k + 1).end()
        if k < n and doc[k] in '"\'':
          q = doc[k]
          e = doc.find(q, k + 1)
          if e < 0:
            err('unterminated attribute value')
            return out
          val = doc[k + 1:e]
          j = e + 1
        else:
          mu = _UNQUOTED.match(doc, k)
          if not mu:
            err('missing attribute value')
            return out
          val = mu.group(0)
          j = mu.end()
        bad = _refs_ok(val)
        if bad:
          err('attribute value: ' + bad)
          return out
      attrs.append((aname.lower(), val))
    if selfclose and tag not in VOID:
      err(f'self-closing syntax on non-void <{tag}>')
      return out
    out.append({'k': 'void' if tag in VOID else 'open', 'tag': tag, 'attrs': attrs, 'attrs_wellformed': wellformed})
    if tag in RAW:
      raw = tag
    i = j
  return out


# ---------------------------------------------------------------------------------------------
# Taint

def _intact(u: str, data: Dict[str, str]) -> bool:
  """Every sentinel occurrence in the unescaped string u belongs to a complete copy of its datum
  (or to a prefix of it cut by `...` / by the end of the string: truncation, not mangling)."""
  rest = u
  for s in sorted({m.group(0) for m in SENT.finditer(u)}, key=lambda x: -len(data.get(x, ''))):
    d = data.get(s)
    if d is None:
      return False
    rest = rest.replace(d, '\x00' * len(d))
  covered = 0
  for m in SENT.finditer(rest):
    if m.start() < covered:
      continue                      # a sentinel inside the payload of the (truncated) datum just accepted
    d = data[m.group(0)]
    tail = rest[m.start():]
    k = 0
    while k < len(d) and k < len(tail) and d[k] == tail[k]:
      k += 1
    after = tail[k:]
    if not (after == '' or after.startswith('...') or after.startswith('\u2026')):
      return False
    covered = m.start() + k
  return True


def events(doc: str, data: Dict[str, str]) -> Tuple[List[Dict[str, Any]], List[str]]:
  """(events for HtmlDoc.tla, unescaped normal-mode text tokens)."""
  evs = []
  texts = []
  for t in tokenize(doc):
    k = t['k']
    e = {'k': k, 'tag': t.get('tag', ''), 'an': [], 'attrs_wellformed': True, 'taint': [], 'ws': False}
    if k in ('open', 'void'):
      e['an'] = [a for a, _ in t['attrs']]
      e['attrs_wellformed'] = t['attrs_wellformed']
      if SENT.search(t['tag']):
        e['taint'].append('tag')
      for a, v in t['attrs']:
        if SENT.search(a):
          e['taint'].append('attrname')
        if v is not None and SENT.search(v):
          if _intact(html.unescape(v), data):
            e['taint'].append('attrvalue_ok')
          elif _INERT.match(v):
            # a sanitised derivative of the datum (e.g. a CSS class made of a class name): it is not the
            # datum any more, but a value made of identifier characters only cannot introduce anything
            e['taint'].append('attrvalue_inert')
          else:
            e['taint'].append('attrvalue_bad')
    elif k == 'close':
      if SENT.search(t['tag']):
        e['taint'].append('tag')
    elif k == 'text':
      u = html.unescape(t['text'])
      texts.append(u)
      e['ws'] = not t['text'].strip(' \t\r\n\f')
      if SENT.search(t['text']):
        e['taint'].append('text_ok' if _intact(u, data) else 'text_bad')
    elif k == 'rawtext':
      e['k'] = 'text'
      if SENT.search(t['text']):
        e['taint'].append('rawtext')
    elif k == 'comment':
      if SENT.search(t['text']):
        e['taint'].append('comment')
    elif k == 'doctype':
      continue
    elif k == 'error':
      e['tag'] = t['msg'][:60]
      e['_near'] = t.get('near', '')
    if k in ('open', 'void'):
      e['_src'] = t['tag'] + ' ' + ' '.join(f'{a}={v}' for a, v in t['attrs'])
    elif k in ('text', 'rawtext', 'comment'):
      e['_src'] = t['text'][-200:]
    elif k == 'close':
      e['_src'] = t['tag']
    e['taint'] = sorted(set(e['taint']))
    evs.append(e)
  evs.append({'k': 'end', 'tag': '', 'an': [], 'attrs_wellformed': True, 'taint': [], 'ws': False})
  return evs, texts


# ---------------------------------------------------------------------------------------------
# Concretisation of shapes, metacharacter classes, options

CLASSES = [
    ('plain', 'plain'),
    ('lt', '<{s} a=1>x</{s}>'),
    ('amp', '&{s};&lt;{s}&gt;&amp;'),
    ('dquote', '" {s}="1'),
    ('squote', "' {s}='1"),
    ('script', '</script><{s}>'),
    ('comment', '--><{s}><!--'),
    ('cdata', ']]><{s}>'),
    ('style', '</style><{s}>'),
]


class Builder:
  """Builds one value from a shape; every user datum gets a unique sentinel."""

  def __init__(self, cls_index: int, taint_class_name: bool, plain_roles=()):
    self.cls_name, self.payload = CLASSES[cls_index % len(CLASSES)]
    self.plain_roles = set(plain_roles)      # roles whose data carry no metacharacters in this document
    self.n = 0
    self.data: Dict[str, str] = {}          # sentinel -> datum
    self.roles: Dict[str, str] = {}         # sentinel -> key / str / name / doc / classname
    self.taint_class_name = taint_class_name
    self.root_name: Optional[str] = None

  def datum(self, role: str) -> str:
    self.n += 1
    s = f'zq{self.n:03d}x'
    payload = self.payload
    if role in self.plain_roles:
      payload = CLASSES[0][1]
    if role in ('key', 'name') and any(ch in payload for ch in '[].'):
      # pg.Dict parses a key that contains path syntax (brackets, dots) as a path - a matter of
      # C10/C02, not of rendering: such keys get the plain angle-bracket payload instead
      payload = CLASSES[1][1]
    d = s + payload.format(s=s)
    self.data[s] = d
    self.roles[s] = role
    return d

  def build(self, shape) -> Any:
    k = shape[0]
    if k == 's':
      return self.datum('str')
    if k == 'n':
      self.n += 1
      return 1000 + self.n
    if k == 'z':
      return None
    if k == 'c':
      # a class object (not an instance) with a hostile __name__
      return type('K' + self.datum('classname'), (), {})
    if k == 'dict1':
      return pg.Dict({self.datum('key'): self.build(shape[1])})
    if k == 'dict2':
      return pg.Dict({self.datum('key'): self.build(shape[1]), self.datum('key'): self.build(shape[2])})
    if k == 'list1':
      return pg.List([self.build(shape[1])])
    if k == 'list2':
      return pg.List([self.build(shape[1]), self.build(shape[2])])
    if k == 'tuple':
      return (self.build(shape[1]),)
    if k == 'pdict1':
      return {self.datum('key'): self.build(shape[1])}
    if k == 'pdict2':
      return {self.datum('key'): self.build(shape[1]), self.datum('key'): self.build(shape[2])}
    if k == 'plist1':
      return [self.build(shape[1])]
    if k == 'plist2':
      return [self.build(shape[1]), self.build(shape[2])]
    if k == 'obj':
      cls = self.make_class()
      return cls(fx=self.build(shape[1]), fy=self.build(shape[2]))
    raise ValueError(k)

  def make_class(self):
    doc = 'Doc ' + self.datum('doc')
    fdoc = 'Field ' + self.datum('doc')

    @pg.members([('fx', pg.typing.Any(), fdoc), ('fy', pg.typing.Any(), 'plain doc')])
    class Obj(pg.Object):
      auto_register = False
    Obj.__doc__ = doc
    if self.taint_class_name:
      Obj.__name__ = 'Obj' + self.datum('classname')
    return Obj


def first_key(value) -> Optional[Any]:
  if isinstance(value, dict):          # pg.Dict and plain dict
    return next(iter(value.keys()), None)
  if isinstance(value, pg.Object):
    return 'fx'
  if isinstance(value, (list, tuple)) and len(value):
    return 0
  return None


def render_kwargs(opts: Dict[str, Any], value: Any, b: Builder) -> Tuple[Dict[str, Any], Optional[Any]]:
  """(kwargs for pg.to_html_str, key of the root whose subtree is filtered out or None)."""
  kw: Dict[str, Any] = {
      'collapse_level': None if opts['collapse_level'] == 9 else opts['collapse_level'],
      'enable_summary_tooltip': opts['enable_summary_tooltip'],
      'enable_key_tooltip': opts['enable_key_tooltip'],
      'key_style': opts['key_style'],
      'max_summary_len_for_str': opts['max_summary_len_for_str'],
      'enable_summary_for_str': opts['enable_summary_for_str'],
  }
  excluded = None
  fk = first_key(value)
  is_map = isinstance(value, (dict, pg.Object))
  kf = opts['keys_filter']
  missing = 'zq999x_no_such_key'
  if is_map and fk is not None:
    if kf == 'include_first':
      kw['include_keys'] = [fk]
      excluded = ('all_but', fk)
    elif kf == 'include_first_and_missing':
      kw['include_keys'] = [fk, missing]
      excluded = ('all_but', fk)
    elif kf == 'include_first_callable':
      kw['include_keys'] = lambda path, v, parent, _k=fk: path.depth != 1 or path.key == _k
      excluded = ('all_but', fk)
    elif kf == 'exclude_first':
      kw['exclude_keys'] = [fk]
      excluded = ('only', fk)
    elif kf == 'exclude_missing':
      kw['exclude_keys'] = [missing]
    elif kf == 'include_all_reversed_generator':
      keys = list(value.sym_keys()) if isinstance(value, pg.Object) else list(value.keys())
      kw['include_keys'] = (k for k in reversed(keys))          # one-shot, order differs from the container
    elif kf == 'exclude_first_iterator':
      kw['exclude_keys'] = iter([fk])
      excluded = ('only', fk)
    elif kf == 'include_first_map':
      kw['include_keys'] = map(lambda k: k, [fk])
      excluded = ('all_but', fk)
    elif kf == 'exclude_first_callable':
      kw['exclude_keys'] = lambda path, v, parent, _k=fk: path.depth == 1 and path.key == _k
      excluded = ('only', fk)
  if opts['uncollapse_first'] and fk is not None:
    kw['uncollapse'] = pg.KeyPathSet([pg.KeyPath([fk])])
  if opts['root_name']:
    if b.root_name is None:
      b.root_name = b.datum('name')
    kw['name'] = b.root_name
  return kw, excluded


KEY_VALUE_KIND: Dict[str, str] = {}     # sentinel of a key -> type name of its value (last document walked)


def visible_sentinels(value: Any, excluded, b: Builder) -> List[str]:
  """Sentinels of the keys and string leaves that the rendering must contain."""
  out: List[str] = []

  def sent(d):
    return SENT.match(d).group(0)

  def walk(v, top):
    if isinstance(v, str):
      out.append(sent(v))
    elif isinstance(v, (dict, pg.Object)):
      items = list(v.sym_items()) if isinstance(v, pg.Object) else list(v.items())
      for k, c in items:
        if top and excluded is not None:
          mode, key = excluded
          if (mode == 'only' and k == key) or (mode == 'all_but' and k != key):
            continue
        if isinstance(v, dict):
          out.append(sent(k))
          KEY_VALUE_KIND[sent(k)] = type(c).__name__
        walk(c, False)
    elif isinstance(v, (tuple, list)):
      for c in v:
        walk(c, False)
  walk(value, True)
  return out


def culprit_role(evs: List[Dict[str, Any]], k: int, roles: Dict[str, str],
                 data: Optional[Dict[str, str]] = None, doc: str = '') -> str:
  """Role of the user datum nearest to (at or before) the rejected event k - provided that datum really
  was emitted unescaped (it has metacharacters and occurs verbatim in the document); else 'none'."""
  r = _nearest_role(evs, k, roles)
  if r[0] != 'none' and data is not None:
    d = data.get(r[1], '')
    if html.escape(d) == d or d not in doc:
      return 'none'
  return r[0]


def _nearest_role(evs, k, roles):
  for j in range(min(k, len(evs) - 1), max(-1, k - 4), -1):
    e = evs[j]
    if e['k'] == 'error':
      # the sentinel named by the error message, else the first one after the error position
      m = SENT.search(e['tag']) or SENT.search(e.get('_near', '')[40:]) or SENT.search(e.get('_near', ''))
      if m:
        return roles.get(m.group(0), 'unknown'), m.group(0)
      continue
    ms = list(SENT.finditer(e.get('_src') or ''))
    if ms:
      return roles.get(ms[-1].group(0), 'unknown'), ms[-1].group(0)
  return 'none', ''


def for_tlc(evs: List[Dict[str, Any]]) -> List[Dict[str, Any]]:
  return [{k: v for k, v in e.items() if not k.startswith('_')} for e in evs]


def snapshot(v, depth=0):
  """Deep structural snapshot of a value: plain and symbolic containers alike (purity of rendering)."""
  if depth > 12:
    return '...'
  if isinstance(v, pg.Object):
    return ('obj', type(v).__name__, tuple((k, snapshot(c, depth + 1)) for k, c in v.sym_items()))
  if isinstance(v, dict):
    return (type(v).__name__, tuple((k, snapshot(c, depth + 1)) for k, c in v.items()))
  if isinstance(v, (list, tuple)):
    return (type(v).__name__, tuple(snapshot(c, depth + 1) for c in v))
  return ('leaf', type(v).__name__, repr(v))


# ---------------------------------------------------------------------------------------------
# The shipped HTML controls

def control_desc(rec: Dict[str, Any], b: Builder) -> Dict[str, Any]:
  """A plain description (nested dicts) of the control of one HtmlGen.Controls record, and of the control it
  becomes through its update API (key 'final'; equal to the initial one when rec['upd'] == 0).

  Label texts / tab contents given as str are HTML content by the controls' own documentation, so they carry no
  metacharacters; a Tooltip's str content is data (the control escapes it) and carries the metacharacter class."""
  import copy   # pylint: disable=import-outside-toplevel
  n = [0]

  def text(prefix):
    n[0] += 1
    return f'{prefix}{n[0]}txt'

  taint = rec.get('taint', 'none')
  used = [False]

  def dat(field, plain):
    """The hostile datum if `field` is the tainted str field of this record (first occurrence), else `plain`."""
    if taint == field and not used[0]:
      used[0] = True
      return b.datum('ctl_' + field)
    return plain

  def common(d, own=True):
    """id / css_classes / styles of the control itself (the record's top-level control when own)."""
    if own:
      d['id'] = dat('id', d.get('id'))
      c = dat('css_class', None)
      if c is not None:
        d['css_classes'] = list(d.get('css_classes') or []) + [c]
      v = dat('style_value', None)
      if v is not None:
        d['styles'] = dict(d.get('styles') or {}, color=v)
    return d

  def label(kind='label', tooltip=0, link=0, interactive=0, styled=0, own=False, text_field='text'):
    tip = None
    if tooltip:
      # in the records that taint one specific field only that field is hostile
      tip = b.datum('str') if taint == 'none' else dat('tooltip', text('tip'))
    return common({'k': kind, 'text': dat(text_field, text('label')), 'tooltip': tip,
                   'link': dat('link', 'http://example.com/x') if link else None,
                   'target': dat('target', '_blank') if link else None, 'id': None,
                   'css_classes': ['c1', 'c2'] if styled else [],
                   'styles': dict(color='red', font_weight='bold') if styled else {},
                   'interactive': bool(interactive)}, own)

  k, p1, p2, p3, p4 = rec['ctl'], rec['p1'], rec['p2'], rec['p3'], rec['p4']
  upd = rec.get('upd', 0)
  if k == 'tab':
    def tab(i):
      if p4 == 0:
        content = {'k': 'text', 'text': dat('tab_content_text', text('content'))}
      elif p4 == 1:
        content = {'k': 'value', 'datum': b.datum('str') if taint == 'none' else text('value')}
      else:
        content = label(tooltip=1)
      tc = dat('tab_css', None)
      return {'label': dat('tab_label', text('tab')), 'content': content,
              'name': dat('tab_name', f'name{i}' if i % 2 else None), 'css_classes': [tc] if tc else []}
    d = common({'k': 'tab', 'tabs': [tab(i) for i in range(p2)], 'selected': p3, 'pos': 'left' if p1 else 'top'})
    f = copy.deepcopy(d)
    if upd:
      f['tabs'].append(tab(7))                    # append
      f['tabs'].insert(0, tab(8))                 # insert before the first
      f['selected'] = len(f['tabs']) - 1          # select the last
  elif k in ('label', 'badge'):
    d = label(k, p1, p2, p3, p4, own=True)
    f = copy.deepcopy(d)
    if upd:
      f['text'] = text('newlabel')
      if f['tooltip'] is not None:
        f['tooltip'] = b.datum('str')
      if f['link'] is not None:
        f['link'] = 'http://example.com/y'
      f['styles'] = dict(f['styles'], color='blue')
      f['css_classes'] = [c for c in f['css_classes'] if c != 'c1'] + ['c3']
  elif k == 'labelgroup':
    d = common({'k': 'labelgroup', 'labels': [label(tooltip=i % 2, interactive=p3) for i in range(p1)],
                'name': label(interactive=p3, text_field='name_text') if p2 else None, 'interactive': bool(p3)})
    f = copy.deepcopy(d)
    if upd:
      for lb in f['labels'] + ([f['name']] if f['name'] else []):
        lb['text'] = text('newlabel')
        if lb['tooltip'] is not None:
          lb['tooltip'] = b.datum('str')
  elif k == 'tooltip':
    d = common({'k': 'tooltip', 'html': bool(p1), 'interactive': bool(p2),
                'content': text('tip') if p1 else (b.datum('str') if taint == 'none' else dat('content', text('tip')))})
    f = copy.deepcopy(d)
    if upd:
      f['content'] = text('newtip') if p1 else b.datum('str')
  elif k == 'progress':
    def sub(i):
      sc = dat('sub_css', None)
      return {'name': dat('sub_name', f'sub{i}'), 'value': i + 1, 'css_classes': [sc] if sc else []}
    d = common({'k': 'progress', 'subs': [sub(i) for i in range(p1)], 'total': 10 if p2 else None,
                'interactive': bool(p3)})
    f = copy.deepcopy(d)
    if upd:
      for i, sb in enumerate(f['subs']):
        sb['value'] = sb['value'] + 1 if i % 2 == 0 else 5       # increment() / update(5)
      if f['total'] is None:
        f['total'] = 20
  else:
    raise ValueError(k)
  d['final'] = f
  return d


def construct_control(d: Dict[str, Any]):
  """The control described by d, built with its constructor."""
  from pyglove.core.views.html import Html               # pylint: disable=import-outside-toplevel
  from pyglove.core.views.html import controls as C      # pylint: disable=import-outside-toplevel

  def base_kw(x):
    kw: Dict[str, Any] = {}
    if x.get('id') is not None:
      kw['id'] = x['id']
    if x.get('css_classes'):
      kw['css_classes'] = list(x['css_classes'])
    if x.get('styles'):
      kw['styles'] = dict(x['styles'])
    return kw

  def label(x):
    kw: Dict[str, Any] = {}
    if x.get('id') is not None:
      kw['id'] = x['id']
    if x['tooltip'] is not None:
      kw['tooltip'] = x['tooltip']
    if x['link'] is not None:
      kw['link'], kw['target'] = x['link'], x['target']
    if x['css_classes']:
      kw['css_classes'] = list(x['css_classes'])
    if x['styles']:
      kw['styles'] = dict(x['styles'])
    if x['interactive']:
      kw['interactive'] = True
    return (C.Badge if x['k'] == 'badge' else C.Label)(x['text'], **kw)

  def tab(t):
    c = t['content']
    content = c['text'] if c['k'] == 'text' else pg.Dict(v=c['datum']) if c['k'] == 'value' else label(c)
    return C.Tab(t['label'], content, name=t['name'], css_classes=list(t.get('css_classes') or []))

  k = d['k']
  if k == 'tab':
    return C.TabControl([tab(t) for t in d['tabs']], selected=d['selected'], tab_position=d['pos'], **base_kw(d))
  if k in ('label', 'badge'):
    return label(d)
  if k == 'labelgroup':
    return C.LabelGroup([label(x) for x in d['labels']], name=label(d['name']) if d['name'] else None,
                        **({'interactive': True} if d['interactive'] else {}), **base_kw(d))
  if k == 'tooltip':
    content = Html.element('b', [d['content']]) if d['html'] else d['content']
    return C.Tooltip(content, for_element='.x', **({'interactive': True} if d['interactive'] else {}), **base_kw(d))
  if k == 'progress':
    return C.ProgressBar([C.SubProgress(x['name'], value=x['value'], css_classes=list(x.get('css_classes') or []))
                          for x in d['subs']], total=d['total'],
                         **({'interactive': True} if d['interactive'] else {}), **base_kw(d))
  raise ValueError(k)


def update_control(ctl, d: Dict[str, Any]) -> None:
  """Brings the control built from d to d['final'] through its PUBLIC update API only."""
  from pyglove.core.views.html import Html               # pylint: disable=import-outside-toplevel
  from pyglove.core.views.html import controls as C      # pylint: disable=import-outside-toplevel
  f, k = d['final'], d['k']

  def update_label(lb, old, new):
    kw: Dict[str, Any] = {}
    if new['text'] != old['text']:
      kw['text'] = new['text']
    if new['tooltip'] != old['tooltip']:
      kw['tooltip'] = new['tooltip']
    if new['link'] != old['link']:
      kw['link'] = new['link']
    if new['styles'] != old['styles']:
      kw['styles'] = {x: y for x, y in new['styles'].items() if old['styles'].get(x) != y}
    add = [c for c in new['css_classes'] if c not in old['css_classes']]
    rem = [c for c in old['css_classes'] if c not in new['css_classes']]
    if add:
      kw['add_class'] = add
    if rem:
      kw['remove_class'] = rem
    lb.update(**kw)

  if k == 'tab':
    helper = dict(d, tabs=[f['tabs'][-1], f['tabs'][0]])
    built = construct_control(dict(helper, selected=0)).tabs
    ctl.append(built[0].clone(deep=True))
    ctl.insert(0, built[1].clone(deep=True))
    ctl.select(f['selected'])
  elif k in ('label', 'badge'):
    update_label(ctl, d, f)
  elif k == 'labelgroup':
    for lb, old, new in zip(ctl.labels, d['labels'], f['labels']):
      update_label(lb, old, new)
    if d['name']:
      update_label(ctl.name, d['name'], f['name'])
  elif k == 'tooltip':
    ctl.update(Html.element('b', [f['content']]) if d['html'] else f['content'])
  elif k == 'progress':
    for i, (sb, new) in enumerate(zip(ctl.subprogresses, f['subs'])):
      if i % 2 == 0:
        sb.increment()
      else:
        sb.update(new['value'])
    if d['total'] is None:
      ctl.update(total=f['total'])
    else:
      ctl.update()
  del C


def expected_texts(d: Dict[str, Any]) -> List[str]:
  """Texts the rendering of the control described by d must contain."""
  out: List[str] = []

  def lab(x):
    out.append(x['text'])
    if x['tooltip'] is not None:
      out.append(x['tooltip'])
  k = d['k']
  if k == 'tab':
    for t in d['tabs']:
      out.append(t['label'])
      c = t['content']
      if c['k'] == 'text':
        out.append(c['text'])
      elif c['k'] == 'value':
        out.append(c['datum'])
      else:
        lab(c)
  elif k in ('label', 'badge'):
    lab(d)
  elif k == 'labelgroup':
    for x in d['labels'] + ([d['name']] if d['name'] else []):
      lab(x)
  elif k == 'tooltip':
    out.append(d['content'])
  elif k == 'progress':
    out.extend(x['name'] for x in d['subs'] if d['total'] is not None)     # shown in the progress tooltip
  return out


_CONTROL_ID = re.compile(r'control-\d+')
_CLASS_ATTR = re.compile(r'class="([^"]*)"')
_CLASS_FIELD = re.compile(r'css_classes=\[([^\]]*)\]')


def normalize_ids(doc: str) -> str:
  """Element ids of controls are derived from id(object): renumbered by first appearance."""
  seen: Dict[str, str] = {}
  doc = _CONTROL_ID.sub(lambda m: seen.setdefault(m.group(0), f'control-#{len(seen)}'), doc)
  # the order of the tokens of a class attribute means nothing (a control appends its own class when bound)
  doc = _CLASS_ATTR.sub(lambda m: 'class="' + ' '.join(sorted(m.group(1).split())) + '"', doc)
  # ... also where the css_classes field of a control is printed (tooltip of an enclosing value)
  return _CLASS_FIELD.sub(lambda m: 'css_classes=[' + ','.join(sorted(x.strip() for x in m.group(1).split(','))) + ']', doc)


def wrap_control(ctl, wrap: int):
  return pg.Dict(ctl=ctl) if wrap == 1 else [ctl] if wrap == 2 else ctl

# ---------------------------------------------------------------------------------------------
# Faults: renderings / option scopes that carry options and raise part-way

class _FaultError(Exception):
  pass


class BadLeaf:
  """A leaf whose every textual form raises."""

  def __repr__(self):
    raise _FaultError('repr raises')

  __str__ = __repr__

  def __format__(self, spec):
    raise _FaultError('format raises')


class BadExtension(pg.views.HtmlTreeView.Extension):
  """A user extension whose rendering hook raises."""

  def _html_tree_view_content(self, **kwargs):
    raise _FaultError('extension raises')


def run_fault(kind: str, value: Any) -> str:
  """Performs one failing rendering that carries options hostile to the later document (they hide its first key
  and collapse everything); returns how it ended."""
  fk = first_key(value)
  hostile: Dict[str, Any] = dict(collapse_level=0, enable_summary_tooltip=False, enable_key_tooltip=False,
                                 key_style='label', max_summary_len_for_str=3)
  if fk is not None:
    hostile['exclude_keys'] = [fk]
  try:
    if kind == 'fail_repr':
      pg.to_html_str(pg.Dict(bad=BadLeaf(), keep=1), **hostile)
    elif kind == 'fail_view_id':
      pg.view(value, view_id='no-such-view-id', **hostile)
    elif kind == 'fail_in_scope':
      with pg.views.view_options(**hostile):
        raise _FaultError('raised inside a view_options scope')
    elif kind == 'fail_extension':
      pg.to_html_str([BadExtension()], **hostile)
    else:
      raise ValueError(kind)
    return 'completed'
  except Exception as e:   # pylint: disable=broad-except
    return type(e).__name__
