"""Binding of ValueSpec.tla to pg.typing: build real specs/values from the TLA+ records, observe the relations.

Nothing here decides a property: the functions construct the concrete spec / value a TLA+ record denotes,
call the real `apply / is_compatible / extend / default`, and encode results back into the record form so
that TLC (ValueSpecLaws.tla) can evaluate the laws on them.
"""
from __future__ import annotations

import copy
import json
from typing import Any, Dict, List, Tuple

import pyglove as pg
from pyglove.core import typing as pgt

NONE = 9999
MISSING = pg.MISSING_VALUE
STRS = {1: 'foo', 2: 'bar'}
STR_CODES = {v: k for k, v in STRS.items()}
REGEX = {(1,): '^f.*$', (2,): '^b.*$', (1, 2): '^(f|b).*$'}


class TA(pg.Object):        # test class 1
  x: int = 0


class TB(TA):               # class 2: a subclass of class 1
  pass


class TC(pg.Object):        # class 3: unrelated
  y: int = 0


CLASSES = {1: TA, 2: TB, 3: TC}
CLASS_IDS = {TA: 1, TB: 2, TC: 3}


def key_name(k: int) -> str:
  """Keys 5..8 are the strings matched by the dynamic key field StrKey('^d') of a mixed Dict spec."""
  return f'd{k}' if 5 <= k <= 8 else f'k{k}'


def key_code(name: str) -> int:
  return int(name[1:])


# ---------------------------------------------------------------------------
# value record -> fresh Python value ; Python value -> value record

def mkvalue(v: Dict[str, Any]) -> Any:
  t, a, xs = v['t'], v['a'], v['xs']
  if t == 'none':
    return None
  if t == 'missing':
    return MISSING
  if t == 'bool':
    return bool(a)
  if t == 'int':
    return int(a)
  if t == 'float':
    return a / 10.0
  if t == 'str':
    return STRS[a]
  if t == 'list':
    return [mkvalue(x) for x in xs]
  if t == 'tuple':
    return tuple(mkvalue(x) for x in xs)
  if t == 'dict':
    return {key_name(k): mkvalue(x) for k, x in xs if x['t'] != 'missing'}
  if t == 'obj':
    if not xs:
      return CLASSES[a]()
    # an object with explicit content (classes registered by the C03 driver); missing members make it partial
    kwargs = {key_name(k): mkvalue(x) for k, x in xs if x['t'] != 'missing'}
    with pg.allow_partial(True):
      return CLASSES[a](**kwargs)
  raise ValueError(f'unknown value record {v}')


def V(t, a=0, xs=()):
  return {'t': t, 'a': a, 'xs': list(xs)}


class NotEncodable(Exception):
  pass


def encode(x: Any) -> Dict[str, Any]:
  """Python value -> value record (raises NotEncodable for values outside the vocabulary)."""
  if x is None:
    return V('none')
  if isinstance(x, bool):
    return V('bool', int(x))
  if isinstance(x, int):
    return V('int', x)
  if isinstance(x, float):
    n = round(x * 10)
    if abs(n / 10.0 - x) > 1e-12:
      raise NotEncodable(repr(x))
    return V('float', n)
  if isinstance(x, str):
    if x not in STR_CODES:
      raise NotEncodable(repr(x))
    return V('str', STR_CODES[x])
  if isinstance(x, pg.Object):
    if type(x) not in CLASS_IDS:
      raise NotEncodable(repr(x))
    cid = CLASS_IDS[type(x)]
    if cid < 10:
      return V('obj', cid)
    kvs = sorted((key_code(k), encode(x.sym_getattr(k))) for k in x.sym_keys())
    return V('obj', cid, [[k, e] for k, e in kvs])
  if pg.MISSING_VALUE == x:       # MissingValue(spec) instances compare equal to MISSING_VALUE
    return V('missing')
  if isinstance(x, list):
    items = x.sym_values() if isinstance(x, pg.List) else list(x)
    return V('list', 0, [encode(e) for e in items])
  if isinstance(x, tuple):
    return V('tuple', 0, [encode(e) for e in x])
  if isinstance(x, dict):
    items = list(x.sym_items()) if isinstance(x, pg.Dict) else list(x.items())
    try:
      kvs = sorted((key_code(k), encode(e)) for k, e in items)
    except (ValueError, TypeError) as e:
      raise NotEncodable(repr(x)) from e
    return V('dict', 0, [[k, e] for k, e in kvs])
  raise NotEncodable(repr(x))


def vkey(v: Dict[str, Any]) -> str:
  return json.dumps(v, sort_keys=True)


# ---------------------------------------------------------------------------
# spec record -> fresh pg.typing spec

def _bound(n, scale=None):
  if n == NONE:
    return None
  return n / scale if scale else n


def build(s: Dict[str, Any]) -> pgt.ValueSpec:
  """The spec a record denotes; None-ability is declared the usual way, with `.noneable()` (which also
  makes None the default when no other default is given -- RefDefault in ValueSpec.tla)."""
  spec = _build(s)
  if s['non'] and s['t'] not in ('Enum', 'Any'):
    spec = spec.noneable()
  return spec


def _build(s: Dict[str, Any]) -> pgt.ValueSpec:
  t = s['t']
  dflt = mkvalue(s['dflt'])
  frz = s['frz']
  kw = dict(default=dflt, frozen=frz)
  if t == 'Int':
    return pgt.Int(min_value=_bound(s['lo']), max_value=_bound(s['hi']), **kw)
  if t == 'Float':
    return pgt.Float(min_value=_bound(s['lo'], 10.0), max_value=_bound(s['hi'], 10.0), **kw)
  if t == 'Bool':
    return pgt.Bool(**kw)
  if t == 'Str':
    if s['vals']:
      return pgt.Str(regex=REGEX[tuple(sorted(v['a'] for v in s['vals']))], **kw)
    return pgt.Str(**kw)
  if t == 'Enum':
    return pgt.Enum(dflt, [mkvalue(v) for v in s['vals']], frozen=frz)
  if t == 'List':
    return pgt.List(build(s['elems'][0]), min_size=s['lo'], max_size=_bound(s['hi']), **kw)
  if t == 'TupleFix':
    return pgt.Tuple([build(e) for e in s['elems']], **kw)
  if t == 'TupleVar':
    return pgt.Tuple(build(s['elems'][0]), min_size=s['lo'], max_size=_bound(s['hi']), **kw)
  if t == 'Dict':
    if not s['fields']:
      return pgt.Dict(**kw)
    def key(k):
      return pgt.StrKey('^d') if k == 0 else pgt.StrKey() if k == -1 else key_name(k)
    return pgt.Dict([(key(k), build(f)) for k, f in s['fields']], **kw)
  if t == 'DictDyn':
    return pgt.Dict([(pgt.StrKey(), build(s['fields'][0][1]))], **kw)
  if t == 'Object':
    return pgt.Object(CLASSES[s['lo']], **kw)
  if t == 'Union':
    return pgt.Union([build(e) for e in s['elems']], **kw)
  if t == 'Any':
    return pgt.Any(default=dflt, frozen=frz)
  raise ValueError(f'unknown spec record {s}')


def family(s: Dict[str, Any]) -> str:
  return s['t']


def mods(s: Dict[str, Any]) -> str:
  m = []
  if s['frz']:
    m.append('frozen')
  elif s['dflt']['t'] != 'missing' and s['t'] != 'Enum':
    m.append('default')
  if s['non']:
    m.append('noneable')
  return '+'.join(m)


def describe(s: Dict[str, Any]) -> str:
  try:
    return build(s).format(compact=True)
  except Exception as e:  # pylint: disable=broad-except
    return f'<unbuildable {e}>'


# ---------------------------------------------------------------------------
# observation

REJECT = (TypeError, ValueError, KeyError)


def outcome_class(e: BaseException) -> str:
  for c in REJECT:
    if type(e) is c:
      return c.__name__
  for c in REJECT:
    if isinstance(e, c):
      return c.__name__
  return 'Other:' + type(e).__name__


class Universe:
  """Specs and values exported by TLC + the growing list of extra values apply produced."""

  def __init__(self, data: Dict[str, Any]):
    self.specs: List[dict] = data['specs']
    self.values: List[dict] = list(data['values'])
    self.nv0 = len(self.values)
    self.index: Dict[str, int] = {vkey(v): i + 1 for i, v in enumerate(self.values)}
    self.unencodable = 0

  def idx(self, rec: dict) -> int:
    k = vkey(rec)
    i = self.index.get(k)
    if i is None:
      self.values.append(rec)
      i = len(self.values)
      self.index[k] = i
    return i


def observe_apply(spec: pgt.ValueSpec, vrec: dict) -> Tuple[str, Any]:
  """Returns (outcome class, result value or None)."""
  try:
    r = spec.apply(mkvalue(vrec))
  except Exception as e:  # pylint: disable=broad-except
    return outcome_class(e), None
  return 'ok', r


def observe(data: Dict[str, Any], counters: Dict[str, int]) -> Dict[str, Any]:
  """Evaluates the real pg.typing code on the whole universe."""
  uni = Universe(data)
  ns = len(uni.specs)
  pristine = [build(s) for s in uni.specs]          # never applied to anything; reference for ApplyPure
  pristine_fmt = [p.format(compact=True) for p in pristine]
  work = [build(s) for s in uni.specs]              # the instances apply / is_compatible are called on

  acc: List[List[str]] = [[] for _ in range(ns)]
  app: List[List[int]] = [[] for _ in range(ns)]
  pure: List[List[bool]] = [[] for _ in range(ns)]

  def eval_cell(i: int, j: int):
    out, r = observe_apply(work[i], uni.values[j])
    k = 0
    if out == 'ok':
      try:
        k = uni.idx(encode(r))
      except NotEncodable:
        uni.unencodable += 1
        k = -1
    acc[i].append(out)
    app[i].append(k)
    pure[i].append(work[i] == pristine[i] and work[i].format(compact=True) == pristine_fmt[i])
    counters['apply'] = counters.get('apply', 0) + 1

  # closure: results of apply that are not in the universe are appended and evaluated as well
  done = 0
  while done < len(uni.values):
    upto = len(uni.values)
    for i in range(ns):
      for j in range(len(acc[i]), upto):
        eval_cell(i, j)
    done = upto

  # defaults
  dflt: List[int] = []
  dacc: List[str] = []
  for i in range(ns):
    d = work[i].default
    try:
      drec = encode(d)
    except NotEncodable:
      drec = None
    if drec is None or _has_missing(drec):
      dflt.append(0)
      dacc.append('none')
      continue
    dflt.append(uni.idx(drec))
    try:
      work[i].apply(copy.deepcopy(d))
      dacc.append('ok')
    except Exception as e:  # pylint: disable=broad-except
      dacc.append(outcome_class(e))
  # (defaults may have added values: close again)
  while done < len(uni.values):
    upto = len(uni.values)
    for i in range(ns):
      for j in range(len(acc[i]), upto):
        eval_cell(i, j)
    done = upto
  nv = len(uni.values)

  # compatibility
  compat = []
  for a in range(ns):
    row = []
    for b in range(ns):
      try:
        row.append(bool(work[a].is_compatible(work[b])))
      except Exception as e:  # pylint: disable=broad-except
        row.append(False)
        counters['compat_raises'] = counters.get('compat_raises', 0) + 1
      counters['is_compatible'] = counters.get('is_compatible', 0) + 1
    compat.append(row)
  # is_compatible must not have changed the specs either
  compat_pure = [work[i] == pristine[i] and work[i].format(compact=True) == pristine_fmt[i] for i in range(ns)]

  # extension: child c extends base b (fresh child and base every time, extend mutates the child)
  ext = []
  exterr = []
  for c in range(ns):
    row = []
    for b in range(ns):
      child = build(uni.specs[c])
      base = build(uni.specs[b])
      counters['extend'] = counters.get('extend', 0) + 1
      try:
        e = child.extend(base)
      except Exception as ex:  # pylint: disable=broad-except
        row.append(outcome_class(ex))
        continue
      row.append('ok')
      eacc, eapp = [], []
      for j in range(nv):
        out, res = observe_apply(e, uni.values[j])
        k = 0
        if out == 'ok':
          try:
            rec = encode(res)
            # (a result that still contains the missing marker is not a value of the universe)
            k = -1 if _has_missing(rec) and rec['t'] != 'missing' else uni.idx(rec)
          except NotEncodable:
            k = -1
        eacc.append(out)
        eapp.append(k)
        counters['apply_ext'] = counters.get('apply_ext', 0) + 1
      try:
        bcompat = bool(base.is_compatible(e))
      except Exception:  # pylint: disable=broad-except
        bcompat = False
      # "for the fields they share": Dict specs with different key sets are compared field-wise
      shared = False
      if isinstance(base, pgt.Dict) and isinstance(e, pgt.Dict) and base.schema is not None and e.schema is not None:
        bkeys, ekeys = list(base.schema.keys()), list(e.schema.keys())
        if set(map(str, bkeys)) != set(map(str, ekeys)):
          shared = True
          bcompat = all(base.schema[k].value.is_compatible(e.schema[k].value) for k in bkeys if k in e.schema)
      d = e.default
      edacc = 'none'
      try:
        drec = encode(d)
        if not _has_missing(drec):
          try:
            e.apply(copy.deepcopy(d))
            edacc = 'ok'
          except Exception as ex:  # pylint: disable=broad-except
            edacc = outcome_class(ex)
      except NotEncodable:
        pass
      base_same = base == pristine[b]
      ext.append({'c': c + 1, 'b': b + 1, 'acc': eacc, 'app': eapp, 'bcompat': bcompat, 'shared': shared, 'dacc': edacc,
                  'basesame': bool(base_same), 'repr': e.format(compact=True)})
    exterr.append(row)

  # results of extended specs may have added values: close once more (rows of `ext` keep their shorter length)
  while done < len(uni.values):
    upto = len(uni.values)
    for i in range(ns):
      for j in range(len(acc[i]), upto):
        eval_cell(i, j)
    done = upto

  return {
      'specs': uni.specs, 'values': uni.values, 'nv0': uni.nv0,
      'acc': acc, 'app': app, 'pure': pure, 'cpure': compat_pure,
      'dflt': dflt, 'dacc': dacc, 'compat': compat, 'ext': ext, 'exterr': exterr,
      'unencodable': uni.unencodable,
  }


def _has_missing(rec: dict) -> bool:
  if rec['t'] == 'missing':
    return True
  if rec['t'] == 'dict':
    return any(_has_missing(x) for _, x in rec['xs'])
  return any(_has_missing(x) for x in rec['xs'])


# ---------------------------------------------------------------------------
# The C04 check for one universe: export -> observe -> TLC evaluates the laws on the observed tables.

def _contains(s: dict, pred) -> bool:
  return pred(s) or any(_contains(e, pred) for e in s['elems']) or any(_contains(f, pred) for _, f in s['fields'])


PRIMS = ('Int', 'Float', 'Str', 'Bool')


def _enum_over_prim(c: dict, b: dict) -> bool:
  if c['t'] == 'Enum' and b['t'] in PRIMS:
    return True
  if c['t'] == 'Enum' and b['t'] == 'Union':
    return any(e['t'] in PRIMS for e in b['elems'])
  if c['t'] == b['t'] or {c['t'], b['t']} <= {'TupleFix', 'TupleVar'}:
    if c['t'] in ('List', 'TupleVar', 'TupleFix'):
      return any(_enum_over_prim(x, y) for x in c['elems'] for y in b['elems'])
    if c['t'] in ('Dict', 'DictDyn'):
      bf = dict((k, f) for k, f in b['fields'])
      return any(k in bf and _enum_over_prim(f, bf[k]) for k, f in c['fields'])
  if b['t'] == 'Union':
    return any(_enum_over_prim(c, e) for e in b['elems'])
  return False


def extension_shape(c: dict, b: dict) -> str:
  """Labels an extension pair for finding signatures (no verdict depends on it)."""
  if _enum_over_prim(c, b):
    return 'enum_over_primitive'
  if c['t'] == 'TupleVar' and b['t'] == 'TupleVar':
    lo = c['lo'] if c['lo'] != 0 else b['lo']
    hi = c['hi'] if c['hi'] != NONE else b['hi']
    if lo == hi and c['lo'] != c['hi']:
      return 'tuplevar_becomes_fixed'
  if _contains(c, lambda s: s['frz']):
    return 'frozen_child'
  return 'plain'


def _why(path) -> Tuple[str, str]:
  parts = [f'{path[k]}.{path[k + 1]}' for k in range(0, len(path) - 1, 2)]
  if not parts:
    return '', '', ''
  return '/'.join(parts), parts[-1], parts[-1].split('.')[-1]


def run_universe(chk, u: str, timeout: int = 1500, only_sig: Dict[str, Any] = None) -> Dict[str, int]:
  """Runs the three steps for universe `u`; reports violations through chk; returns counters."""
  from . import tlc   # pylint: disable=import-outside-toplevel
  try:
    data, r = tlc.export_json('ValueSpecExport', f'C04_export_{u}.cfg', name=f'c04-export-{u}', timeout=timeout)
  except FileNotFoundError as e:
    raise tlc.TLCError(f'ValueSpecExport wrote no universe for {u}: a law fails on the reference semantics') from e
  chk.add_tlc(r, count_states=False)
  if not r.ok:
    raise tlc.TLCError(f'reference laws fail on the reference semantics (universe {u}):\n{r.out[-2000:]}')
  # SetToSeq order is not stable across TLC runs: the harness fixes a canonical order
  data = {'specs': sorted(data['specs'], key=vkey), 'values': sorted(data['values'], key=vkey)}
  counters: Dict[str, int] = {}
  obs = observe(data, counters)
  S, Vs = obs['specs'], obs['values']
  ns, nv = len(S), len(Vs)

  d = tlc.workdir(f'obs/c04-{u}')
  f = d / 'obs.json'
  f.write_text(json.dumps(obs))
  try:
    r2 = tlc.run('ValueSpecLaws', f'C04_laws_{u}.cfg', name=f'c04-laws-{u}', env={'OBS_FILE': str(f)},
                 extra=['-continue'], allow_violation=True, timeout=timeout)
  finally:
    import shutil  # pylint: disable=import-outside-toplevel
    shutil.rmtree(d, ignore_errors=True)
  chk.add_tlc(r2)
  if r2.violated == 'ASSUME':
    raise tlc.TLCError(f'ValueSpecLaws rejects the observation file of universe {u}:\n{r2.out[-2000:]}')

  sizes = [p for p in r2.prints if p and p[0] == 'sizes']
  chk.require(bool(sizes) and list(sizes[0][1:]) == [ns, nv, len(obs['ext'])],
              f'vacuous: TLC did not load the observed tables of universe {u} ({sizes})')
  bads = [p for p in r2.prints if p and p[0] == 'BAD']
  chk.require(r2.ok == (not bads), f'TLC verdict and printed law violations disagree (universe {u})')
  expected_states = 1 + 12 * 4 + 4 * (8 * ns + 4 * len(obs['ext'])) // 4
  chk.require(r2.distinct >= 8 * ns + 4 * len(obs['ext']), f'vacuous: TLC evaluated only {r2.distinct} law instances')
  del expected_states

  def show(j):
    return repr(mkvalue(Vs[j - 1])) if j and j > 0 else None

  nviol = 0
  for _, law, i, bad in bads:
    for item in sorted(bad, key=repr):
      nviol += 1
      if law.startswith('Extend'):
        e = obs['ext'][i - 1]
        c, b = S[e['c'] - 1], S[e['b'] - 1]
        why, last, tag = _why(item[1]) if law == 'ExtendNarrow' else ('', '', '')
        clause = {'ExtendNarrow': 'narrow', 'ExtendCompat': 'base_compatible', 'ExtendDefault': 'default',
                  'ExtendBase': 'base_unchanged'}[law]
        shape = extension_shape(c, b)
        if shape == 'frozen_child' and tag == 'frozen':
          # the base rejects the witness because the base itself is frozen (to another value): not the situation of
          # C04-F4 (a frozen child over constraints of an unfrozen base)
          shape = 'frozen_over_frozen'
        sig = {'law': 'ExtendNarrow', 'clause': clause, 'c': family(c), 'b': family(b), 'c_mods': mods(c),
               'b_mods': mods(b), 'shape': shape, 'why': why, 'why_last': last, 'why_tag': tag}
        det = {'universe': u, 'child': describe(c), 'base': describe(b), 'extended': e['repr'],
               'value': show(item[0]), 'note': list(item[1]) if law != 'ExtendNarrow' else why}
      elif law == 'CompatSound':
        a, b = S[i - 1], S[item[0] - 1]
        why, last, tag = _why(item[2])
        sig = {'law': law, 'a': family(a), 'b': family(b), 'a_mods': mods(a), 'b_mods': mods(b), 'why': why,
               'why_last': last, 'why_tag': tag}
        det = {'universe': u, 'a': describe(a), 'b': describe(b), 'value_b_accepts_a_rejects': show(item[1])}
      else:
        a = S[i - 1]
        sig = {'law': law, 'a': family(a), 'a_mods': mods(a)}
        if law == 'RefAcc':
          sig['ref'] = item[1]
          sig['value_type'] = Vs[item[0] - 1]['t']
        det = {'universe': u, 'spec': describe(a), 'value': show(item[0]), 'item': list(item)}
      if only_sig is not None and sig != only_sig:
        continue
      chk.violation(sig, det)
      chk.count('law_violation_instances')

  # evidence
  n_ok = sum(1 for row in obs['acc'] for x in row if x == 'ok')
  n_rej = sum(1 for row in obs['acc'] for x in row if x != 'ok')
  n_compat = sum(1 for a in range(ns) for b in range(ns) if a != b and obs['compat'][a][b])
  fam_compat = {family(S[a]) for a in range(ns) for b in range(ns) if a != b and obs['compat'][a][b]}
  fam_ext = {family(S[e['c'] - 1]) for e in obs['ext'] if e['c'] != e['b']}
  import collections  # pylint: disable=import-outside-toplevel
  fam_n = collections.Counter(family(s) for s in S)
  fams = {f for f, n in fam_n.items() if n >= 3}      # families that are a subject of this universe
  chk.require(n_ok > 0 and n_rej > 0, f'vacuous: no accepted / rejected cell in universe {u}')
  chk.require(n_compat > 0 and len(obs['ext']) > 0, f'vacuous: no compatible pair / successful extension in {u}')
  missing_c = fams - fam_compat - {'Any'}
  missing_e = fams - fam_ext - {'Any'}
  chk.require(not missing_c, f'vacuous: no compatible pair with a in families {sorted(missing_c)} ({u})')
  chk.require(not missing_e, f'vacuous: no successful extension with child in families {sorted(missing_e)} ({u})')
  chk.evaluations += sum(counters.values())
  chk.traces += ns          # observed relations (one per spec: its apply / compat / extend rows) validated by TLC
  for k, v in counters.items():
    chk.count(k, v)
  chk.count('cells_accepted', n_ok)
  chk.count('cells_rejected', n_rej)
  chk.count('compatible_pairs', n_compat)
  chk.count('successful_extensions', len(obs['ext']))
  chk.count('specs', ns)
  chk.count('values_incl_apply_results', nv)
  for i in range(ns):
    for j in range(nv):
      if obs['acc'][i][j] == 'ok':
        chk.distinct_case(('acc', u, vkey(S[i]), vkey(Vs[j])))
  for a in range(ns):
    for b in range(ns):
      if a != b and obs['compat'][a][b]:
        chk.distinct_case(('compat', u, vkey(S[a]), vkey(S[b])))
  for e in obs['ext']:
    chk.distinct_case(('ext', u, e['c'], e['b']))
  # a few concrete cases
  import random  # pylint: disable=import-outside-toplevel
  rnd = random.Random(chk.seed)
  for _ in range(2):
    i, j = rnd.randrange(ns), rnd.randrange(nv)
    chk.sample({'universe': u, 'spec': describe(S[i]), 'value': show(j + 1), 'apply': obs['acc'][i][j],
                'returned': show(obs['app'][i][j])})
  if obs['ext']:
    e = obs['ext'][rnd.randrange(len(obs['ext']))]
    chk.sample({'universe': u, 'child': describe(S[e['c'] - 1]), 'base': describe(S[e['b'] - 1]),
                'extended': e['repr'], 'base_is_compatible_with_it': e['bcompat']})
  return {'violations': nviol, 'specs': ns, 'values': nv}
