"""Driver for GenoViews.tla (C12): views of DNAs, lookups, bindings after library operations.

Everything recorded here is an *observation* (raw trees, annotated trees, strings); the expected values and
the laws live in GenoViews.tla / GenoViewsLaws.tla and are evaluated by TLC.
"""
from __future__ import annotations

import copy
import itertools
import json
import random
from typing import Any, Dict, List

from . import geno
from .geno import LOCS, mk_dna, project, tree_str

INACTIVE = ['x', 0, []]

KEY_TYPES = ['id', 'name_or_id', 'dna_spec']
VALUE_TYPES = ['value', 'dna', 'choice', 'literal', 'choice_and_literal']
MULTI_KEYS = ['subchoice', 'parent', 'both']
OPTION_TUPLES = [(k, v, m, i) for k in KEY_TYPES for v in VALUE_TYPES for m in MULTI_KEYS for i in (False, True)]

OPS = ['next', 'clone', 'deep_clone', 'deepcopy', 'from_numbers', 'parse', 'from_dict', 'from_json', 'random',
       'uniform', 'swap', 'rc_uniform', 'kpoint', 'pmx', 'order', 'cycle']
DETERMINISTIC_SAME = {'clone', 'deep_clone', 'deepcopy', 'from_numbers', 'parse', 'from_dict', 'from_json'}


# --------------------------------------------------------------------------- ids
def id_tokens(keypath) -> list:
  pg = geno._pg()  # pylint: disable=protected-access
  out = []
  for k in keypath.keys:
    if isinstance(k, pg.geno.ConditionalKey):
      out.append(['cond', k.index, k.num_choices])
    elif isinstance(k, int):
      out.append(['sub', k, 0])
    elif isinstance(k, str) and k in LOCS:
      out.append(['loc', LOCS.index(k) + 1, 0])
    else:
      out.append(['?', 0, 0])
  return out


def render_id(tokens) -> str:
  """The string PyGlove prints for a decision id (concretisation of the abstract id)."""
  s = ''
  for kind, a, b in tokens:
    if kind == 'loc':
      s += ('.' if s else '') + LOCS[a - 1]
    elif kind == 'sub':
      s += f'[{a}]'
    elif kind == 'cond':
      s += f'[={a}/{b}]'
  return s


def spec_nodes(spec) -> set:
  """ids (Python identity) of every spec node a DNA node may be bound to."""
  out = set()

  def walk(s):
    out.add(id(s))
    if s.is_space:
      for e in s.elements:
        walk(e)
    elif s.is_categorical:
      if s.num_choices > 1 and not s.is_subchoice:
        for i in range(s.num_choices):
          walk(s.subchoice(i))
      else:
        for c in s.candidates:
          walk(c)
  walk(spec)
  return out


def ann_of(s, nodes: set) -> list:
  if s is None:
    return ['unbound', [], -1]
  if s.is_space:
    role, x = 'space', -1
  elif s.is_categorical:
    if s.num_choices > 1 and not s.is_subchoice:
      role, x = 'multi', int(bool(s.sorted))
    else:
      role, x = 'choice', (-1 if s.subchoice_index is None else s.subchoice_index)
  elif s.is_numerical:
    role, x = 'float', -1
  else:
    role, x = 'custom', -1
  if id(s) not in nodes:
    role += '!foreign'
  return [role, id_tokens(s.id), x]


def project_ann(dna, nodes: set) -> list:
  t = project(dna)
  return [t[0], t[1], [project_ann(c, nodes) for c in dna.children], ann_of(dna.spec, nodes)]


def plain(at) -> list:
  return [at[0], at[1], [plain(k) for k in at[2]]]


# --------------------------------------------------------------------------- views
def _val(v) -> Any:
  pg = geno._pg()  # pylint: disable=protected-access
  if isinstance(v, pg.DNA):
    return 'DNA:' + tree_str(project(v))
  if isinstance(v, list):
    return [_val(x) for x in v]
  return v


def _key(k) -> str:
  pg = geno._pg()  # pylint: disable=protected-access
  if isinstance(k, pg.geno.DNASpec):
    return 'spec:' + str(k.id)
  return str(k)


def dict_view(d, kt, vt, mk, inact) -> str:
  try:
    return json.dumps([[_key(k), _val(v)] for k, v in d.to_dict(kt, vt, mk, inact).items()])
  except Exception as e:  # pylint: disable=broad-except
    return 'ERR:' + type(e).__name__


VIEWSET = [('id', 'value', 'subchoice', False), ('id', 'dna', 'both', True), ('name_or_id', 'choice', 'parent', False),
           ('id', 'literal', 'subchoice', True), ('name_or_id', 'choice_and_literal', 'both', False),
           ('dna_spec', 'value', 'parent', True)]


def views(d) -> List[str]:
  out = [dict_view(d, *o) for o in VIEWSET]
  out.append(json.dumps(d.to_numbers()))
  out.append(json.dumps(repr(d.to_numbers(flatten=False))))
  try:
    out.append(json.dumps(d.to_json(compact=True), default=repr))
  except Exception as e:  # pylint: disable=broad-except
    out.append('ERR:' + type(e).__name__)
  return out


def uses_int_literals(js) -> bool:
  if js['t'] == 'space':
    return any(uses_int_literals(e) for e in js['elems'])
  if js['t'] == 'choices':
    return js.get('lits', 0) == 2 or any(uses_int_literals(c) for c in js['cands'])
  return False


def has_literals(js) -> bool:
  if js['t'] == 'space':
    return any(has_literals(e) for e in js['elems'])
  if js['t'] == 'choices':
    return js.get('lits', 0) != 0 or any(has_literals(c) for c in js['cands'])
  return False


# --------------------------------------------------------------------------- lookups
def lookups_of(d, spec) -> dict:
  """d[decision point], d[id], d[str(id)] for every decision point; d[multi spec], d[multi id]; d[name].

  Also serves to *warm* every lazily built lookup table of `d` (decision-by-id cache, named decisions)."""
  pg = geno._pg()  # pylint: disable=protected-access
  DNA = pg.DNA
  out: Dict[str, Any] = {'lookups': [], 'multis': [], 'names': []}
  for dp in spec.decision_points:
    row = []
    for key in (dp, dp.id, str(dp.id)):
      try:
        v = d[key]
        row.append(INACTIVE if v is None else (project(v) if isinstance(v, DNA) else ['list', len(v), []]))
      except Exception:  # pylint: disable=broad-except
        row.append(['!', 0, []])
    out['lookups'].append(row)
  named = {}
  multis = []
  for dp in spec.decision_points:
    target = dp.parent_spec if (dp.is_categorical and dp.is_subchoice) else dp
    if dp.is_categorical and dp.is_subchoice:
      if dp.subchoice_index == 0:
        multis.append(target)
      else:
        continue
    if target.name is not None:
      named.setdefault(target.name, []).append(target)
  for m in multis:
    row = [id_tokens(m.id)]
    for key in (m, m.id):
      try:
        v = d[key]
        row.append([INACTIVE] if v is None else [INACTIVE if x is None else project(x) for x in v])
      except Exception:  # pylint: disable=broad-except
        row.append([['!', 0, []]])
    out['multis'].append(row)
  for name, targets in named.items():
    if len(targets) != 1:
      continue                      # several decision points under one name: outside the compared domain
    try:
      v = d[name]
      vs = v if isinstance(v, list) else [v]
      out['names'].append([id_tokens(targets[0].id), [INACTIVE if x is None else project(x) for x in vs]])
    except Exception:  # pylint: disable=broad-except
      out['names'].append([id_tokens(targets[0].id), [['!', 0, []]]])
  return out


# --------------------------------------------------------------------------- one DNA: round trips, lookups
def observe_dna(spec, js, tree, nodes, opt_tuples, errs) -> dict:
  pg = geno._pg()  # pylint: disable=protected-access
  DNA = pg.DNA
  d = mk_dna(tree, spec=spec)
  rec: Dict[str, Any] = {'tree': project(d), 'anns': [['bind', project_ann(d, nodes)]], 'rts': [], 'lookups': [],
                         'names': [], 'multis': [], 'todict': []}

  def rt(name, fn, ann=True):
    try:
      r = fn()
      rec['rts'].append([name, project(r), bool(r == d)])
      if ann:
        rec['anns'].append([name, project_ann(r, nodes)])
    except Exception as e:  # pylint: disable=broad-except
      rec['rts'].append([name, ['!', 0, []], False])
      rec.setdefault('raised', []).append(f'{name}:{type(e).__name__}')

  rt('numbers_flat', lambda: DNA.from_numbers(d.to_numbers(), spec))
  rt('numbers_nested', lambda: DNA(d.to_numbers(flatten=False), spec=spec))
  rt('parse_nested', lambda: DNA.parse(d.to_numbers(flatten=False), spec))
  rt('json_compact', lambda: pg.from_json_str(d.to_json_str(compact=True)).use_spec(spec))
  rt('json_verbose', lambda: pg.from_json_str(d.to_json_str(compact=False)).use_spec(spec))
  rt('json_compact_notype', lambda: DNA(pg.from_json(json.loads(json.dumps(
      pg.to_json(d.to_json(compact=True, type_info=False))))), spec=spec))
  rt('clone', lambda: d.clone())
  rt('deep_clone', lambda: d.clone(deep=True))
  rt('deepcopy', lambda: copy.deepcopy(d))
  intlit = uses_int_literals(js)
  for (kt, vt, mk, inact) in opt_tuples:
    name = f'dict:{kt}/{vt}/{mk}/{int(inact)}'

    def f(kt=kt, vt=vt, mk=mk, inact=inact):
      dd = d.to_dict(kt, vt, mk, inact)
      return DNA.from_dict(dict(dd), spec, use_ints_as_literals=(vt == 'literal' and intlit))
    rt(name, f, ann=False)
  lk = lookups_of(d, spec)
  rec['lookups'], rec['multis'], rec['names'] = lk['lookups'], lk['multis'], lk['names']
  # the default dictionary view, keyed by decision point
  try:
    for k, v in d.to_dict('dna_spec', 'value', 'subchoice', True).items():
      rec['todict'].append([id_tokens(k.id), ['x', 0] if v is None else project(pg.DNA(v))[:2]])
    table = {render_id(id_tokens(dp.id)): id_tokens(dp.id) for dp in spec.decision_points}
    rec['todict_id_keys'] = [table.get(k, [['?', 0, 0]]) for k in d.to_dict('id', 'value', 'subchoice', True).keys()]
  except Exception as e:  # pylint: disable=broad-except
    errs.append(f'to_dict:{type(e).__name__}')
    rec['todict_id_keys'] = []
  return rec


# --------------------------------------------------------------------------- chains of library operations
def apply_op(op, d, spec, js, pool, rng):
  """One library operation that turns DNA(s) into a DNA."""
  pg = geno._pg()  # pylint: disable=protected-access
  from pyglove.ext.evolution import mutators, recombinators  # pylint: disable=import-outside-toplevel
  DNA = pg.DNA
  k = rng.randrange(1 << 30)
  other = pool[rng.randrange(len(pool))]
  if op == 'next':
    n = spec.next_dna(d)
    return n if n is not None else spec.first_dna()
  if op == 'clone':
    return d.clone()
  if op == 'deep_clone':
    return d.clone(deep=True)
  if op == 'deepcopy':
    return copy.deepcopy(d)
  if op == 'from_numbers':
    return DNA.from_numbers(d.to_numbers(), spec)
  if op == 'parse':
    return DNA.parse(d.to_numbers(flatten=False), spec)
  if op == 'from_dict':
    kt, vt, mk, inact = OPTION_TUPLES[k % len(OPTION_TUPLES)]
    return DNA.from_dict(dict(d.to_dict(kt, vt, mk, inact)), spec,
                         use_ints_as_literals=(vt == 'literal' and uses_int_literals(js)))
  if op == 'from_json':
    return pg.from_json_str(d.to_json_str(compact=bool(k % 2))).use_spec(spec)
  if op == 'random':
    return spec.random_dna(random.Random(k), True, d if k % 2 else None)
  if op == 'uniform':
    return mutators.Uniform(seed=k).mutate(d)
  if op == 'swap':
    return mutators.Swap(seed=k).mutate(d)
  if op == 'rc_uniform':
    r = recombinators.Uniform(seed=k)([d, other])
  elif op == 'kpoint':
    r = recombinators.KPoint(1 + k % 2, seed=k)([d, other])
  elif op == 'pmx':
    r = recombinators.PartiallyMapped(seed=k)([d, other])
  elif op == 'order':
    r = recombinators.Order(seed=k)([d, other])
  elif op == 'cycle':
    r = recombinators.Cycle(seed=k)([d, other])
  else:
    raise ValueError(op)
  r = list(r)
  return r[k % len(r)] if r else d.clone()


def observe_chain(spec, js, start_tree, pool, nodes, length, rng, errs) -> dict:
  pg = geno._pg()  # pylint: disable=protected-access
  d = mk_dna(start_tree, spec=spec)
  steps = []
  for _ in range(length):
    op = OPS[rng.randrange(len(OPS))]
    before = project(d)
    # the user inspects the DNA before handing it to the operation: every lazily built table of `d` is warm
    lookups_of(d, spec)
    views(d)
    try:
      out = apply_op(op, d, spec, js, pool, rng)
    except Exception as e:  # pylint: disable=broad-except
      # the step is recorded as "raised"; TLC reports it (an operation on a valid DNA must not raise)
      steps.append([op, before, ['!', 0, [], ['raised:' + type(e).__name__, [], -1]], [], [], True,
                    {'lookups': [], 'multis': [], 'names': []}])
      break
    try:
      rebuilt = pg.DNA.from_numbers(out.to_numbers(), spec)
      vr = views(rebuilt)
    except Exception as e:  # pylint: disable=broad-except
      vr = ['REBUILD-ERR:' + type(e).__name__]
    steps.append([op, before, project_ann(out, nodes), views(out), vr, project(d) == before,
                  lookups_of(out, spec)])
    d = out
  return {'start': project(mk_dna(start_tree)), 'steps': steps}


# --------------------------------------------------------------------------- one spec
def observe_c12(entry: dict, seed: int, opts: dict) -> dict:
  js = entry['spec']
  errs: List[str] = []
  o: Dict[str, Any] = {'spec': js, 'index': entry['index'], 'dpids': [], 'dnas': [], 'chains': [], 'errs': errs}
  try:
    spec = geno.build_space(js, use_locations=True)
    nodes = spec_nodes(spec)
    o['dpids'] = [id_tokens(dp.id) for dp in spec.decision_points]
    o['dpid_strs_ok'] = all(str(dp.id) == render_id(id_tokens(dp.id)) for dp in spec.decision_points)
  except Exception as e:  # pylint: disable=broad-except
    errs.append('build:' + type(e).__name__ + ':' + str(e)[:100])
    o['dpid_strs_ok'] = False
    return o
  rng = random.Random(seed * 1000003 + entry['index'])
  trees = entry['trees']
  full = opts['full_dicts']
  for j, tree in enumerate(trees):
    if j < full:
      tuples = OPTION_TUPLES
    else:
      tuples = rng.sample(OPTION_TUPLES, opts['sample_dicts'])
    try:
      o['dnas'].append(observe_dna(spec, js, tree, nodes, tuples, errs))
    except Exception as e:  # pylint: disable=broad-except
      errs.append('observe_dna:' + type(e).__name__ + ':' + str(e)[:100])
  pool = [mk_dna(t, spec=spec) for t in trees[:6]]
  for c in range(opts['chains'] if entry['size'] != -1 else 0):   # chains only on enumerable spaces
    start = trees[rng.randrange(len(trees))]
    o['chains'].append(observe_chain(spec, js, start, pool, nodes, opts['chain_len'], rng, errs))
  return o
