"""C18 driver: Python functions generated from the signatures of specs/Callable.tla, driven through
pg.functor / pg.symbolize / pg.Object / pg.wrap and compared with the outcomes TLC computed.

Expected outcomes (values per parameter, *args, **kw, or the error kind) always come from TLC: either the exported
BindV table (CallableExport.tla) or the `res` / `rep` / `bound` / `vargs` variables of simulated behaviours.  The only
oracle besides the spec is the interpreter itself: every generated function is also called directly, and a
disagreement between the interpreter and BindV is a machinery failure (the spec is wrong), never a violation.

Concretisation.  Spec values are ints that name the ORIGIN of a value (300+i: i-th positional argument of the call,
900+p: the default of p, 100000+v: the container pg.Dict(x=v), ...).  A `Palette` maps origins to concrete Python
values: the identity (distinct truthy ints), all None, or a cycle of falsy values (None, 0, '', False, [], {}), for
the arguments and - independently - for the function's own defaults (the functions are generated per default
variant).  The expected result of the spec is pushed through the same palette before it is compared, so the law is
unchanged: result / error kind = the direct call with the effective arguments.
"""
from __future__ import annotations

import copy
import inspect
import sys
import types
from typing import Any, Dict, List, Optional, Tuple

import pyglove as pg

from .core import MachineryFailure

NAME = {1: 'p1', 2: 'p2', 3: 'p3', 11: 'k11', 12: 'k12', 21: 'x21', 22: 'x22'}
CODE = {v: k for k, v in NAME.items()}
MODULE = 'pgverif_c18_generated'
BOX = 100000          # Box(v) of Callable.tla: the symbolic container pg.Dict(x=v)

_mod = types.ModuleType(MODULE)
sys.modules[MODULE] = _mod

FALSY = (None, 0, '', False, [], {})
FALSY_DEFAULTS = (0, '', False, [], {})      # without None, so that "all None" arguments never equal a default
DEFAULT_VARIANTS = ('truthy', 'none', 'falsy', 'fresh')
# defaults that CPython does not intern / share: an equal value computed at run time is a different object
FRESH_DEFAULTS = {1: 901.5, 2: 'the default of parameter p2', 3: (903, 'x'), 12: 10 ** 12 + 912}
ARG_MODES = ('origin', 'none', 'falsy')


def default_value(p: int, dv: str):
  """The Python default of parameter p (spec value 900+p) under default variant dv."""
  if dv == 'truthy':
    return 900 + p
  if dv == 'none':
    return None
  if dv == 'fresh':
    return FRESH_DEFAULTS[p]
  v = FALSY_DEFAULTS[p % len(FALSY_DEFAULTS)]
  return type(v)() if isinstance(v, (list, dict)) else v


def equal_copy(x):
  """A value equal to x that is, whenever the type allows it, a different object (computed at run time)."""
  if isinstance(x, bool) or x is None:
    return x
  if isinstance(x, int):
    return int(str(x))
  if isinstance(x, float):
    return float(repr(x))
  if isinstance(x, str):
    return ''.join(list(x))
  if isinstance(x, tuple):
    return tuple(equal_copy(e) for e in x)
  if isinstance(x, list):
    return [equal_copy(e) for e in x]
  if isinstance(x, dict):
    return {k: equal_copy(v) for k, v in x.items()}
  return x


class Palette:
  """Origin -> concrete Python value."""

  def __init__(self, argmode: str, dv: str):
    self.argmode, self.dv = argmode, dv
    self.name = f'{argmode}/{dv}'

  def leaf(self, v: int):
    if 950 <= v < 1000:                     # DefaultCopy(p): equal to the default of p, not the same object
      return equal_copy(default_value(v - 950, self.dv))
    if 900 <= v < 950:
      return default_value(v - 900, self.dv)
    if self.argmode == 'origin':
      return v
    if self.argmode == 'none':
      return None
    x = FALSY[v % len(FALSY)]
    return type(x)() if isinstance(x, (list, dict)) else x

  def arg(self, v: int):
    """Value to pass to the code (containers are fresh symbolic dicts)."""
    return pg.Dict(x=self.leaf(v - BOX)) if v >= BOX else self.leaf(v)

  def exp(self, v: int):
    """The same value in the plain form results are compared in."""
    return {'x': self.leaf(v - BOX)} if v >= BOX else self.leaf(v)


# An argument value never coincides with a default: whether binding a value EQUAL to the default counts as
# "specified" is not documented (the constructor says yes, assignment says no) and stays a don't-care.
PALETTES = [Palette(a, d) for a, d in (('origin', 'truthy'), ('none', 'truthy'), ('falsy', 'truthy'),
                                       ('origin', 'none'), ('origin', 'falsy'), ('none', 'falsy'),
                                       ('origin', 'fresh'))]
IDENTITY = PALETTES[0]


def sig_key(sig: dict) -> str:
  return 'n{npos}d{ndef}{va}{k1}{k2}{vk}'.format(
      npos=sig['npos'], ndef=sig['ndef'], va='a' if sig['va'] else '', k1='r' if sig['k1'] else '',
      k2='o' if sig['k2'] else '', vk='w' if sig['vk'] else '')


def has_default(sig: dict, p: int) -> bool:
  return p == 12 or (1 <= p <= sig['npos'] and p > sig['npos'] - sig['ndef'])


def params_src(sig: dict, dv: str = 'truthy') -> str:
  parts = []
  for p in range(1, sig['npos'] + 1):
    parts.append(f'p{p}={default_value(p, dv)!r}' if has_default(sig, p) else f'p{p}')
  if sig['va']:
    parts.append('*args')
  elif sig['k1'] or sig['k2']:
    parts.append('*')
  if sig['k1']:
    parts.append('k11')
  if sig['k2']:
    parts.append(f'k12={default_value(12, dv)!r}')
  if sig['vk']:
    parts.append('**kw')
  return ', '.join(parts)


def named(sig: dict) -> List[str]:
  return [f'p{p}' for p in range(1, sig['npos'] + 1)] + (['k11'] if sig['k1'] else []) + (['k12'] if sig['k2'] else [])


def body_expr(sig: dict) -> str:
  vals = ', '.join(f"'{n}': {n}" for n in named(sig))
  return ("{'vals': {" + vals + "}, 'va': " + ('list(args)' if sig['va'] else '[]') + ", 'kwx': " +
          ('dict(kw)' if sig['vk'] else '{}') + '}')


def _define(src: str, name: str):
  ns = _mod.__dict__
  exec(compile(src, f'<{name}>', 'exec'), ns)  # pylint: disable=exec-used
  obj = ns[name]
  obj.__module__ = MODULE
  return obj


def make_function(sig: dict, dv: str, name: str):
  src = f'def {name}({params_src(sig, dv)}):\n  return {body_expr(sig)}\n'
  return _define(src, name), src


def make_class(sig: dict, dv: str, name: str):
  psrc = params_src(sig, dv)
  src = (f'class {name}:\n  def __init__(self{", " + psrc if psrc else ""}):\n'
         f'    self.bound = {body_expr(sig)}\n')
  return _define(src, name)


class Generated:
  """The artefacts generated for one signature and one variant of its defaults."""

  def __init__(self, sig: dict, dv: str):
    self.sig, self.dv = sig, dv
    self.key = sig_key(sig) + '_' + dv
    self.fn, self.src = make_function(sig, dv, 'fn_' + self.key)
    # a second, identical function for pg.symbolize (a function can be registered once)
    self.sfn, _ = make_function(sig, dv, 'sfn_' + self.key)
    self._functor = None
    self._symbolized = None
    self._object = None
    self._wrapper = None
    self._user_cls = None

  @property
  def functor(self):
    if self._functor is None:
      self._functor = pg.functor(self.fn)
    return self._functor

  @property
  def symbolized(self):
    if self._symbolized is None:
      self._symbolized = pg.symbolize(self.sfn)
    return self._symbolized

  @property
  def user_cls(self):
    if self._user_cls is None:
      self._user_cls = make_class(self.sig, self.dv, 'K_' + self.key)
    return self._user_cls

  @property
  def wrapper(self):
    if self._wrapper is None:
      self._wrapper = pg.symbolize(self.user_cls)
    return self._wrapper

  @property
  def object_cls(self):
    """A pg.Object subclass whose generated __init__ must have this signature."""
    if self._object is None:
      sig = self.sig
      fields = []
      init_args = []

      def spec(p):
        return pg.typing.Any(default=default_value(p, self.dv)) if has_default(sig, p) else pg.typing.Any()
      for p in range(1, sig['npos'] + 1):
        fields.append((f'p{p}', spec(p)))
        init_args.append(f'p{p}')
      if sig['va']:
        fields.append(('args', pg.typing.List(pg.typing.Any(), default=[])))
        init_args.append('*args')
      if sig['k1']:
        fields.append(('k11', spec(11)))
      if sig['k2']:
        fields.append(('k12', spec(12)))
      if sig['vk']:
        fields.append((pg.typing.StrKey(), pg.typing.Any()))
      base = type('O_' + self.key, (pg.Object,), {'__module__': MODULE})
      self._object = pg.members(fields, init_arg_list=init_args)(base)
    return self._object


_GEN: Dict[str, Generated] = {}


def generated(sig: dict, dv: str = 'truthy') -> Generated:
  k = sig_key(sig) + '_' + dv
  if k not in _GEN:
    _GEN[k] = Generated(sig, dv)
  return _GEN[k]


# ---------------------------------------------------------------------------------------------------------------
# outcomes


def _pairs(f) -> Dict[int, Any]:
  """A TLA+ function over names, as it arrives: JSON sequence of <<name, value>> pairs, a dict parsed from
  (k :> v @@ ..), or a plain sequence when its domain happens to be 1..n."""
  if isinstance(f, dict):
    return {int(k): v for k, v in f.items()}
  out = {}
  for i, item in enumerate(f):
    if isinstance(item, (list, tuple)):
      out[int(item[0])] = item[1]
    else:
      out[i + 1] = item
  return out


def expected_of(entry: dict, pal: Palette = IDENTITY) -> Tuple[str, Optional[dict]]:
  """Table entry / `res` state value -> (err, concretised result or None)."""
  err = entry['err']
  if err != 'ok':
    return err, None
  return 'ok', {'vals': {NAME[n]: pal.exp(x) for n, x in _pairs(entry['vals']).items()},
                'va': [pal.exp(x) for x in entry['va']],
                'kwx': {NAME[n]: pal.exp(y) for n, y in _pairs(entry['kwx']).items()}}


def call_args(nargs: int, kw, pbase: int, kbase: int, pal: Palette = IDENTITY):
  """The call shape of a table cell with the values of BindShape (pbase+i, kbase+n), concretised."""
  return ([pal.arg(pbase + k) for k in range(1, nargs + 1)],
          {NAME[int(n)]: pal.arg(kbase + int(n)) for n in sorted(kw)})


def valued_args(pos, kw, pal: Palette = IDENTITY):
  """Valued arguments as TLC printed them (sequence, function name -> value) -> (*args, **kwargs)."""
  return [pal.arg(v) for v in pos], {NAME[n]: pal.arg(v) for n, v in sorted(_pairs(kw).items())}


def outcome(thunk) -> Tuple[str, Any]:
  """Runs thunk; returns ('ok', value) | ('TypeError', msg) | ('other:<class>', msg)."""
  try:
    return 'ok', thunk()
  except TypeError as e:
    return 'TypeError', str(e)[:160]
  except Exception as e:  # pylint: disable=broad-except
    return 'other:' + type(e).__name__, str(e)[:160]


def plain(x):
  """Symbolic containers -> plain ones; bools are tagged so that False / 0 and True / 1 stay apart."""
  if isinstance(x, dict):
    return {k: plain(v) for k, v in x.items()}
  if isinstance(x, (list, tuple)):
    return [plain(v) for v in x]
  if isinstance(x, bool):
    return f'<bool {x}>'
  return x


def same(a, b) -> bool:
  return plain(a) == plain(b)


def check_direct(gen: Generated, nargs: int, kw, exp_err: str, exp: Optional[dict], kbase: int, pal: Palette) -> None:
  """The interpreter must agree with BindV: otherwise the spec is wrong (machinery failure)."""
  pos, kws = call_args(nargs, kw, 300, kbase, pal)
  kind, val = outcome(lambda: gen.fn(*pos, **kws))
  if (kind == 'ok') != (exp_err == 'ok') or (kind == 'ok' and not same(val, exp)) or kind.startswith('other'):
    raise MachineryFailure(f'BindV disagrees with the interpreter: {gen.src.splitlines()[0]} called with '
                           f'{pos} {kws}: spec {exp_err} {exp}, interpreter {kind} {val}')


def sym_args_of(obj, sig: dict) -> dict:
  """Projection of sym_init_args into the shape of a result."""
  sa = obj.sym_init_args
  names = named(sig)
  vals = {n: sa[n] if n in sa else '<absent>' for n in names}
  va = sa['args'] if sig['va'] and 'args' in sa else []
  if pg.MISSING_VALUE == va:
    va = []
  kwx = {k: v for k, v in sa.items() if k not in names and k != 'args'}
  return plain({'vals': vals, 'va': va, 'kwx': kwx})


def _sig_rows(parameters) -> List[Tuple[str, str, Any]]:
  return [(p.name, p.kind.name, plain(p.default) if p.default is not inspect.Parameter.empty else '<none>')
          for p in parameters]


def expected_signature(fn) -> List[Tuple[str, str, Any]]:
  return _sig_rows(inspect.signature(fn).parameters.values())


def observed_signature(cls) -> List[Tuple[str, str, Any]]:
  ps = list(inspect.signature(cls.__init__).parameters.values())
  if ps and ps[0].name == 'self':
    ps = ps[1:]
  return _sig_rows(ps)


def same_signature(exp, obs) -> bool:
  """Names, kinds and defaults agree; the names of *args / **kwargs are the implementation's choice."""
  if len(exp) != len(obs):
    return False
  for e, o in zip(exp, obs):
    if e[1] != o[1] or e[2] != o[2]:
      return False
    if e[1] not in ('VAR_POSITIONAL', 'VAR_KEYWORD') and e[0] != o[0]:
      return False
  return True


# ---------------------------------------------------------------------------------------------------------------
# table mode: one signature x one call, every way of binding it in one go

BINDINGS = ('functor', 'functor-late', 'symbolize', 'symbolize-late', 'object', 'wrap', 'object-partial', 'wrap-partial')


def run_binding(gen: Generated, binding: str, nargs: int, kw, kbase: int, pal: Palette) -> Tuple[str, Any, Any]:
  """Returns (kind, result-shaped value, sym_init_args-shaped value or None).

  kbase = 400: a keyword carries its own value; kbase = 300: the value the positional route would carry."""
  pos, kws = call_args(nargs, kw, 300, kbase, pal)
  sig = gen.sig
  if binding in ('functor', 'symbolize'):
    cls = gen.functor if binding == 'functor' else gen.symbolized
    box = {}

    def thunk():
      f = cls(*pos, **kws)
      box['f'] = f
      return f()
    kind, val = outcome(thunk)
    rep = sym_args_of(box['f'], sig) if 'f' in box else None
    return kind, val, rep
  if binding in ('functor-late', 'symbolize-late'):
    cls = gen.functor if binding == 'functor-late' else gen.symbolized
    kind, val = outcome(lambda: cls()(*pos, **kws))
    return kind, val, None
  if binding == 'object':
    kind, obj = outcome(lambda: gen.object_cls(*pos, **kws))
    if kind != 'ok':
      return kind, obj, None
    rep = sym_args_of(obj, sig)
    return kind, rep, rep
  if binding == 'wrap':
    kind, obj = outcome(lambda: gen.wrapper(*pos, **kws))
    if kind != 'ok':
      return kind, obj, None
    return kind, obj.bound, sym_args_of(obj, sig)
  if binding in ('object-partial', 'wrap-partial'):
    cls = gen.object_cls if binding == 'object-partial' else gen.wrapper
    kind, obj = outcome(lambda: cls.partial(*pos, **kws))
    if kind != 'ok':
      return kind, obj, None
    rep = sym_args_of(obj, sig)
    return kind, rep, rep
  raise ValueError(binding)


def expected_partial(entry: dict, pal: Palette) -> Tuple[str, Optional[dict]]:
  """What cls.partial(..) must give for a table cell: (error kind, sym_init_args-shaped value or None)."""
  if entry['perr'] != 'ok':
    return entry['perr'], None
  vals = {NAME[n]: (pal.exp(v) if v != 0 else pg.MISSING_VALUE) for n, v in _pairs(entry['prep']).items()}
  return 'ok', {'vals': vals, 'va': [pal.exp(v) for v in entry['pva']],
                'kwx': {NAME[n]: pal.exp(v) for n, v in _pairs(entry['pkwx']).items()}}


def run_copies(gen: Generated, binding: str, nargs: int, kw, kbase: int, pal: Palette) -> Dict[str, Tuple[str, Any]]:
  """Clone and JSON round trip of an object bound in one go: way of copying -> (kind, result-shaped value).

  functor / symbolize: the copy is called; object: its sym_init_args; wrap: what the user __init__ of the copy got."""
  pos, kws = call_args(nargs, kw, 300, kbase, pal)
  if binding in ('functor', 'symbolize'):
    cls = gen.functor if binding == 'functor' else gen.symbolized
    use = lambda o: o()
  elif binding == 'object':
    cls = gen.object_cls
    use = lambda o: sym_args_of(o, gen.sig)
  elif binding == 'wrap':
    cls = gen.wrapper
    use = lambda o: o.bound
  else:
    return {}
  kind, obj = outcome(lambda: cls(*pos, **kws))
  if kind != 'ok':
    return {}
  return {
      'clone': outcome(lambda: use(obj.clone(deep=True))),
      'json': outcome(lambda: use(pg.from_json(pg.to_json(obj)))),
  }


# ---------------------------------------------------------------------------------------------------------------
# symbolization WITH an explicit argument specification (AnnotateOutcome of Callable.tla)

ANNOTATE_KINDS = ('functor', 'symbolize', 'wrap')
CONFLICT_DEFAULT = 7777          # differs from every default the generator uses and is not None


def annotation_spec(sig: dict, dv: str, p: int, mode: str):
  """The value spec handed to pg.functor([...]) / pg.symbolize(f, [...]) for parameter p."""
  if mode == 'nodefault':
    return pg.typing.Any()
  if mode == 'same':
    return pg.typing.Any(default=equal_copy(default_value(p, dv)))      # equal, not the same object
  if mode == 'noneable':
    return pg.typing.Any(default=None)       # "may be None": the callable's own default must stand
  if mode == 'conflict':
    return pg.typing.Any(default=CONFLICT_DEFAULT)
  raise ValueError(mode)


_ANN_COUNT = [0]


def annotate(sig: dict, dv: str, p: int, mode: str, kind: str):
  """Symbolizes a fresh copy of the generated function / class with a spec for parameter p.

  Returns ('ok', symbolic class, original callable) | ('ValueError', msg, None) | ('other:<class>', msg, None)."""
  _ANN_COUNT[0] += 1
  name = f'a{_ANN_COUNT[0]}_{sig_key(sig)}_{dv}'
  specs = [(NAME[p], annotation_spec(sig, dv, p, mode))]
  try:
    if kind == 'wrap':
      target = make_class(sig, dv, 'AK_' + name)
      return 'ok', pg.symbolize(target, specs), target
    target, _ = make_function(sig, dv, 'afn_' + name)
    if kind == 'functor':
      return 'ok', pg.functor(specs)(target), target
    return 'ok', pg.symbolize(target, specs), target
  except ValueError as e:
    return 'ValueError', str(e)[:160], None
  except Exception as e:  # pylint: disable=broad-except
    return 'other:' + type(e).__name__, str(e)[:160], None


def run_annotated(cls, kind: str, late: bool, nargs: int, kw, kbase: int, pal: Palette):
  pos, kws = call_args(nargs, kw, 300, kbase, pal)
  if kind == 'wrap':
    k, obj = outcome(lambda: cls(*pos, **kws))
    return (k, obj.bound) if k == 'ok' else (k, obj)
  if late:
    return outcome(lambda: cls()(*pos, **kws))
  return outcome(lambda: cls(*pos, **kws)())


# ---------------------------------------------------------------------------------------------------------------
# life-cycle mode: replay of one simulated behaviour of Callable.tla


class Divergence(Exception):

  def __init__(self, clause, expected, observed, step):
    super().__init__(clause)
    self.clause, self.expected, self.observed, self.step = clause, expected, observed, step
    self.after_json = False
    self.diff = None
    self.slot = 'active'
    self.exp_kind = None


class Replayer:
  """Steps one behaviour through a functor made by pg.functor (flavour 0) or pg.symbolize (flavour 1), with the
  values concretised through `pal`."""

  def __init__(self, flavour: int, pal: Palette = IDENTITY, seq: int = 0):
    self.flavour = flavour
    self.pal = pal
    self.hits: Dict[str, int] = {}
    self.f = None          # the active functor
    self.g = None          # the passive one (a copy made by Fork)
    self.g_after_json = False
    self.nclone = 0
    self.nfork = seq       # the way of copying rotates over behaviours and forks
    self.steps_done = 0
    self.after_json = False

  def hit(self, k):
    self.hits[k] = self.hits.get(k, 0) + 1

  def replay(self, beh) -> List[Divergence]:
    """Returns the divergences met.  A diverging Call does not end the replay (a call changes nothing, the
    functor is still in the state the spec says); any other divergence does."""
    sig = beh[0].state['sig']
    gen = generated(sig, self.pal.dv)
    cls = gen.functor if self.flavour == 0 else gen.symbolized
    out = []
    self.steps_done = 0
    self.after_json = False
    self.probe_reported = set()
    for k, step in enumerate(beh[1:], start=1):
      try:
        self.step(gen, cls, step.state, k)
        self.steps_done = k
      except Divergence as d:
        d.after_json = self.g_after_json if d.slot == 'passive' else self.after_json
        out.append(d)
        # calls and probe calls are pure: the replay goes on, except when the PASSIVE functor was disturbed
        if not (d.clause.startswith('call') or (d.clause.endswith('-probe') and d.slot == 'active')):
          break
        self.steps_done = k
    return out

  def step(self, gen, cls, st, k):
    act = st['act']
    name = act[0]
    sig = gen.sig
    pal = self.pal
    exp_err, exp = expected_of(st['res'], pal) if st['res']['err'] != 'none' else ('none', None)
    if name == 'Construct':
      _, pvals, kvals, o, g, fa, vm = act
      pos, kws = valued_args(pvals, kvals, pal)
      flags = {'override_args': o, 'ignore_extra_args': g} if fa == 'init' else {}
      kind, val = outcome(lambda: cls(*pos, **kws, **flags))
      self.hit(f'Construct:{exp_err}')
      self.hit(f'Construct-mode:{vm}')
      if exp_err == 'ok':
        if kind != 'ok':
          raise Divergence('construct', 'ok', f'{kind}: {val}', k)
        self.f = val
        self.after_json = False
      else:
        if kind != 'TypeError':
          raise Divergence('construct-error-kind', f'TypeError ({exp_err})', kind, k)
        return
    elif name == 'SetAttr':
      setattr(self.f, NAME[act[1]], pal.arg(act[2]))
      self.hit('SetAttr')
    elif name == 'DelAttr':
      delattr(self.f, NAME[act[1]])
      self.hit('DelAttr')
    elif name == 'Rebind':
      updates = {}
      kinds = []
      for kind_, n, v in act[1]:                 # in the order the spec lists them
        if kind_ == 'in':
          updates[NAME[n] + '.x'] = pal.leaf(v - BOX)       # nested path inside the container bound to n
        else:
          updates[NAME[n]] = pal.arg(v)
        kinds.append(kind_)
      self.f.rebind(updates, raise_on_no_change=False)
      self.hit('Rebind')
      self.hit('Rebind-entries:%d' % len(kinds))
      if 'dflt' in kinds:
        self.hit('Rebind:equal-to-default')
      if 'in' in kinds and kinds.index('in') < len(kinds) - 1:
        self.hit('Rebind:nested-before-top')
    elif name == 'Clone':
      self.nclone += 1
      self.f = self.f.clone(deep=bool(self.nclone % 2))
      self.hit('Clone')
    elif name == 'JsonRT':
      self.f = pg.from_json(pg.to_json(self.f))
      self.after_json = True
      self.hit('JsonRT')
    elif name == 'Drop':
      self.f = self.g = None
      self.hit('Drop')
      return
    elif name == 'Fork':
      how = FORK_WAYS[self.nfork % len(FORK_WAYS)]
      self.nfork += 1
      self.g = how[1](self.f)
      self.g_after_json = self.after_json
      self.hit('Fork:' + how[0])
    elif name == 'Swap':
      self.f, self.g = self.g, self.f
      self.after_json, self.g_after_json = self.g_after_json, self.after_json
      self.hit('Swap')
    elif name == 'Call':
      _, pvals, kvals, ov, ig, cm = act
      pos, kws = valued_args(pvals, kvals, pal)
      flags = {'override_args': ov, 'ignore_extra_args': ig} if st['flagAt'] == 'call' else {}
      kind, val = outcome(lambda: self.f(*pos, **kws, **flags))
      self.hit(f'Call:{exp_err}')
      self.hit(f'Call-mode:{cm}')
      if exp_err == 'ok':
        if kind != 'ok':
          raise Divergence('call', 'ok', f'{kind}: {val}', k)
        if not same(val, exp):
          raise Divergence('call-result', exp, plain(val), k)
      elif kind != 'TypeError':
        raise Divergence('call-error-kind', f'TypeError ({exp_err})', kind if kind != 'ok' else f'ok: {plain(val)}', k)
    else:
      raise MachineryFailure(f'unknown action {name}')
    # after every step: what each live functor reports, and how it answers the two probe calls, must be what the
    # spec says - for the active one and for the untouched passive copy
    if st['phase'] == 'built':
      self.check_slot(self.f, sig, st['bound'], st['vargs'], st['rep'], 'active', k)
      if st['other']['live']:
        self.hit('two-live:' + name)
        o = st['other']
        self.check_slot(self.g, sig, o['bound'], o['vargs'], o['rep'], 'passive', k)

  def check_slot(self, obj, sig, bound, vargs, rep_st, slot, k):
    pal = self.pal

    def fail(clause, want, got, diff=None, exp_kind=None):
      d = Divergence(clause, want, got, k)
      d.slot, d.diff, d.exp_kind = slot, diff, exp_kind
      raise d
    rep = {NAME[n]: (pal.exp(v) if v != 0 else pg.MISSING_VALUE) for n, v in _pairs(rep_st['args']).items()}
    extras = {NAME[n]: pal.exp(v) for n, v in _pairs(bound).items() if NAME[n] not in rep}
    want = plain({'vals': rep, 'va': [pal.exp(v) for v in vargs], 'kwx': extras})
    got = sym_args_of(obj, sig)
    if got != want:
      fail('sym_init_args', want, got)
    # non_default_args / default_args are decided by the VALUE of each argument
    for clause, spec_set, got_set in (('non_default_args', rep_st['nondef'], obj.non_default_args),
                                      ('default_args', rep_st['dflt'], obj.default_args)):
      want_names = sorted('args' if n == 99 else NAME[n] for n in spec_set)
      if sorted(got_set) != want_names:
        fail(clause, want_names, sorted(got_set), 'args' if set(got_set) ^ set(want_names) == {'args'} else 'named')
    # probe calls (pure): every unspecified parameter by keyword without override_args / nothing at all
    flags = {'override_args': False, 'ignore_extra_args': False}
    late_kw = {NAME[n]: pal.arg(400 + n) for n in sorted(rep_st['probe'])}
    for clause, kws, exp_st in (('late-probe', late_kw, rep_st['late']), ('plain-probe', {}, rep_st['plain'])):
      if (slot, clause) in self.probe_reported:       # one report per behaviour: the same probe would fail at every step
        continue
      exp_err, exp = expected_of(exp_st, pal)
      kind, val = outcome(lambda: obj(**kws, **flags))
      bad = None
      if exp_err == 'ok':
        if kind != 'ok':
          bad = ('ok', f'{kind}: {val}')
        elif not same(val, exp):
          bad = (exp, plain(val))
      elif kind != 'TypeError':
        bad = (f'TypeError ({exp_err})', kind if kind != 'ok' else f'ok: {plain(val)}')
      if bad:
        self.probe_reported.add((slot, clause))
        fail(clause, bad[0], bad[1], exp_kind=exp_err)


FORK_WAYS = (('clone', lambda f: f.clone()), ('clone-deep', lambda f: f.clone(deep=True)),
             ('copy.copy', copy.copy), ('copy.deepcopy', copy.deepcopy),
             ('pg.clone', lambda f: pg.clone(f)), ('pg.clone-deep', lambda f: pg.clone(f, deep=True)))
