"""Shared driver for the properties decided on SymTree.tla (C01, C07, C08, C09 and the tree part of C02)."""
from __future__ import annotations

import random
from typing import Dict, Iterable, List, Optional, Set

from . import symtree, tlc
from .core import Check


def model_check(chk: Check, cfgs: Iterable[str], timeout: int = 1500) -> None:
  """Exhaustive TLC runs: the invariants / action properties of the cfg must hold on the model."""
  for cfg in cfgs:
    r = tlc.run('SymTree', cfg, timeout=timeout)
    chk.add_tlc(r)
    chk.notes.setdefault('tlc_runs', []).append(r.summary())
    if not r.ok:
      # a violated invariant of the *intended* model is a defect of the specification, not of PyGlove
      raise tlc.TLCError(f'{cfg}: {r.violated} violated in the model:\n' + r.out[-3000:])
    chk.require(r.distinct > 10, f'{cfg}: suspiciously small state space ({r.distinct})')


def replay_simulated(chk: Check, cfg: str, clauses: Set[str], num: int, depth: int, seed: int,
                     in_scope=None, name: Optional[str] = None,
                     batches: int = 1) -> Dict[str, int]:
  """Replays `num` simulated behaviours of SymTree.tla (cfg) into the real code.

  A divergence in one of `clauses` (plus identity binding, which every clause depends on) is a
  violation; a divergence in another clause truncates the behaviour and is only counted.
  """
  hits: Dict[str, int] = {}
  for b in range(batches):
    behaviours, r = tlc.simulate('SymTree', cfg, num=num // batches, depth=depth, seed=seed * 1000 + b + 1,
                                 name=(name or cfg) + f'-{b}', timeout=1800)
    chk.add_tlc(r, count_states=False)
    chk.transitions += r.generated
    if not r.ok:
      raise tlc.TLCError(f'{cfg}: {r.violated} violated during simulation:\n' + r.out[-3000:])
    for beh in behaviours:
      rp = symtree.Replayer(clauses)
      d = rp.replay(beh)
      chk.traces += 1
      steps_done = (d['step'] if d else len(beh) - 1)
      chk.evaluations += steps_done
      chk.count('steps_replayed', steps_done)
      for k, v in rp.hits.items():
        hits[k] = hits.get(k, 0) + v
      acts = [s.state['act'] for s in beh[1:steps_done + 1]]
      if steps_done >= 1:
        chk.distinct_case(acts)
      if len(chk.samples) < 3 and d is None and len(beh) > 5:
        chk.sample({'spec': 'SymTree', 'cfg': cfg, 'behaviour': acts[:12]})
      if d is None:
        chk.count('behaviours_conforming')
        continue
      clause = d['clause']
      d['history'] = [s.state['act'] for s in beh[1:d['step'] + 1]]
      claimed = clause in clauses or (clause in ('bind', 'oneplace') and 'parent' in clauses)
      if clause == 'hang':
        claimed = True
      elif claimed and in_scope is not None:
        claimed = in_scope(d)
      if claimed:
        sig = {'action': d['act'][0], 'clause': clause}
        chk.violation(sig, {'cfg': cfg, 'step': d['step'], 'act': d['act'], 'what': d['detail'],
                            'history': [s.state['act'] for s in beh[1:d['step'] + 1]]})
      else:
        chk.count('out_of_scope_divergence:' + d['act'][0] + ':' + clause)
  return hits


def replay_file(chk: Check, path: str, clauses: Set[str], in_scope=None) -> None:
  """./check Cxx --replay FILE: re-runs the recorded history (TLC recomputes the expected states)."""
  import json, re  # pylint: disable=import-outside-toplevel
  rec = json.loads(open(path).read())
  det = rec['detail']
  hist = det['history']
  cfg_text = (tlc.SPECS / det['cfg']).read_text()
  cfg_text = re.sub(r'SPECIFICATION\s+\w+', 'SPECIFICATION SpecScript', cfg_text)
  cfg_text = re.sub(r'SimK = \d+', 'SimK = 0', cfg_text)
  cfg_text = re.sub(r'^(INVARIANT|PROPERTY|CONSTRAINT|VIEW).*$', '', cfg_text, flags=re.M)
  d = tlc.workdir('replay-script')
  (d / 'script.json').write_text(json.dumps(hist))
  (d / 'replay.cfg').write_text(cfg_text)
  behaviours, r = tlc.simulate('SymTree', str(d / 'replay.cfg'), num=1, depth=len(hist) + 1, seed=1,
                               name='replay-script-run', env={'SCRIPT_FILE': str(d / 'script.json')}, timeout=3000)
  chk.add_tlc(r, count_states=False)
  chk.states += 1
  chk.transitions += max(1, r.generated)
  chk.require(len(behaviours) == 1 and len(behaviours[0]) == len(hist) + 1,
              f'the specification does not admit the recorded history (got {len(behaviours[0]) - 1 if behaviours else 0} '
              f'of {len(hist)} steps)')
  rp = symtree.Replayer(clauses)
  dv = rp.replay(behaviours[0])
  chk.traces += 1
  chk.evaluations += len(hist)
  chk.distinct_case(hist)
  chk.distinct_case('replay')
  chk.sample({'replayed_history': hist})
  if dv is None:
    print('replay: the history conforms on this tree')
    return
  dv['history'] = hist[:dv['step']]
  claimed = dv['clause'] in clauses or dv['clause'] in ('bind', 'oneplace', 'hang')
  if claimed and in_scope is not None and dv['clause'] != 'hang':
    claimed = in_scope(dv)
  if claimed:
    chk.violation({'action': dv['act'][0], 'clause': dv['clause']},
                  {'cfg': det['cfg'], 'step': dv['step'], 'act': dv['act'], 'what': dv['detail'], 'history': hist[:dv['step']]})
  else:
    print(f'replay: divergence outside this property: {dv["act"]} {dv["clause"]} {dv["detail"]}')
