"""Shared driver for the properties decided on SymTree.tla (C01, C07, C08, C09 and the tree part of C02)."""
from __future__ import annotations

import random
from typing import Dict, Iterable, List, Optional, Set

from . import symtree, tlc
from .core import Check


def model_check(chk: Check, cfgs: Iterable[str], timeout: int = 1500) -> None:
  """Exhaustive TLC runs: the invariants / action properties of the cfg must hold on the model."""
  for cfg in cfgs:
    r = tlc.run('SymTree', cfg, timeout=timeout)
    chk.add_tlc(r)
    chk.notes.setdefault('tlc_runs', []).append(r.summary())
    if not r.ok:
      # a violated invariant of the *intended* model is a defect of the specification, not of PyGlove
      raise tlc.TLCError(f'{cfg}: {r.violated} violated in the model:\n' + r.out[-3000:])
    chk.require(r.distinct > 10, f'{cfg}: suspiciously small state space ({r.distinct})')


FACTS_POLICIES = ('all', 'roots', 'model', 'roots:nd', 'model:nd', 'roots:missing', 'roots:pure', 'all:nd')


def replay_simulated(chk: Check, cfg: str, clauses: Set[str], num: int, depth: int, seed: int,
                     in_scope=None, name: Optional[str] = None,
                     batches: int = 1) -> Dict[str, int]:
  """Replays `num` simulated behaviours of SymTree.tla (cfg) into the real code.

  A divergence in one of `clauses` (plus identity binding, which every clause depends on) is a
  violation; a divergence in another clause truncates the behaviour and is only counted.
  """
  hits: Dict[str, int] = {}
  for b in range(batches):
    behaviours, r = tlc.simulate('SymTree', cfg, num=num // batches, depth=depth, seed=seed * 1000 + b + 1,
                                 name=(name or cfg) + f'-{b}', timeout=1800)
    chk.add_tlc(r, count_states=False)
    chk.transitions += r.generated
    if not r.ok:
      raise tlc.TLCError(f'{cfg}: {r.violated} violated during simulation:\n' + r.out[-3000:])
    for bi, beh in enumerate(behaviours):
      policy = FACTS_POLICIES[bi % len(FACTS_POLICIES)] if 'facts' in clauses else 'all'
      rp = symtree.Replayer(clauses, facts_policy=policy)
      d = rp.replay(beh)
      chk.traces += 1
      steps_done = (d['step'] if d else len(beh) - 1)
      chk.evaluations += steps_done
      chk.count('steps_replayed', steps_done)
      for k, v in rp.hits.items():
        hits[k] = hits.get(k, 0) + v
      acts = [s.state['act'] for s in beh[1:steps_done + 1]]
      if steps_done >= 1:
        chk.distinct_case(acts)
      if len(chk.samples) < 3 and d is None and len(beh) > 5:
        chk.sample({'spec': 'SymTree', 'cfg': cfg, 'behaviour': acts[:12]})
      if d is None:
        chk.count('behaviours_conforming')
        continue
      clause = d['clause']
      d['history'] = [s.state['act'] for s in beh[1:d['step'] + 1]]
      claimed = clause in clauses or (clause in ('bind', 'oneplace') and 'parent' in clauses)
      if clause == 'hang':
        claimed = True
      elif claimed and in_scope is not None:
        claimed = in_scope(d)
      if claimed:
        sig = {'action': d['act'][0], 'clause': clause}
        chk.violation(sig, {'cfg': cfg, 'step': d['step'], 'act': d['act'], 'what': d['detail'], 'facts_policy': policy,
                            'history': [s.state['act'] for s in beh[1:d['step'] + 1]]})
      else:
        chk.count('out_of_scope_divergence:' + d['act'][0] + ':' + clause)
  return hits


def replay_file(chk: Check, path: str, clauses: Set[str], in_scope=None) -> None:
  """./check Cxx --replay FILE: re-runs the recorded history (TLC recomputes the expected states)."""
  import json, re  # pylint: disable=import-outside-toplevel
  rec = json.loads(open(path).read())
  det = rec['detail']
  hist = det['history']
  cfg_text = (tlc.SPECS / det['cfg']).read_text()
  cfg_text = re.sub(r'SPECIFICATION\s+\w+', 'SPECIFICATION SpecScript', cfg_text)
  cfg_text = re.sub(r'SimK = \d+', 'SimK = 0', cfg_text)
  cfg_text = re.sub(r'^(INVARIANT|PROPERTY|CONSTRAINT|VIEW).*$', '', cfg_text, flags=re.M)
  d = tlc.workdir('replay-script')
  (d / 'script.json').write_text(json.dumps(hist))
  (d / 'replay.cfg').write_text(cfg_text)
  behaviours, r = tlc.simulate('SymTree', str(d / 'replay.cfg'), num=1, depth=len(hist) + 1, seed=1,
                               name='replay-script-run', env={'SCRIPT_FILE': str(d / 'script.json')}, timeout=3000)
  chk.add_tlc(r, count_states=False)
  chk.states += 1
  chk.transitions += max(1, r.generated)
  chk.require(len(behaviours) == 1 and len(behaviours[0]) == len(hist) + 1,
              f'the specification does not admit the recorded history (got {len(behaviours[0]) - 1 if behaviours else 0} '
              f'of {len(hist)} steps)')
  rp = symtree.Replayer(clauses, facts_policy=det.get('facts_policy', 'all'))
  dv = rp.replay(behaviours[0])
  chk.traces += 1
  chk.evaluations += len(hist)
  chk.distinct_case(hist)
  chk.distinct_case('replay')
  chk.sample({'replayed_history': hist})
  if dv is None:
    print('replay: the history conforms on this tree')
    return
  dv['history'] = hist[:dv['step']]
  claimed = dv['clause'] in clauses or dv['clause'] in ('bind', 'oneplace', 'hang')
  if claimed and in_scope is not None and dv['clause'] != 'hang':
    claimed = in_scope(dv)
  if claimed:
    chk.violation({'action': dv['act'][0], 'clause': dv['clause']},
                  {'cfg': det['cfg'], 'step': dv['step'], 'act': dv['act'], 'what': dv['detail'],
                   'facts_policy': det.get('facts_policy', 'all'), 'history': hist[:dv['step']]})
  else:
    print(f'replay: divergence outside this property: {dv["act"]} {dv["clause"]} {dv["detail"]}')


TREE_VARS = ('kind', 'ditems', 'litems', 'parent', 'pkey', 'sealed', 'accw', 'subs', 'sstk', 'astk', 'nstk')


def replay_transitions(chk: Check, cfg_states: str, cfg_step: str, clauses: Set[str], in_scope=None,
                       max_states: Optional[int] = None, seed: int = 0,
                       max_transitions: Optional[int] = None) -> Dict[str, int]:
  """One implementation test per transition.

  Phase 1: exhaustive TLC run (cfg_states, with VIEW) dumps every distinct state within its depth bound.
  Phase 2: a second exhaustive run (cfg_step: SpecFrom, one step) starts from exactly those states and dumps
  every transition (the successor carries the call, its outcome and events).  Each transition is then executed
  on objects built directly from the source state and compared with the successor state.
  """
  import json  # pylint: disable=import-outside-toplevel
  nodes, _, _, r1 = tlc.dump_graph('SymTree', cfg_states, timeout=1800)
  chk.add_tlc(r1, count_states=False)
  states = [{k: st[k] for k in TREE_VARS} for st in nodes.values()]
  states.sort(key=lambda z: json.dumps(z, sort_keys=True, default=list))
  if max_states is not None and len(states) > max_states:
    rnd = random.Random(seed)
    states = rnd.sample(states, max_states)
  d = tlc.workdir('from-states')
  f = d / 'init.json'
  f.write_text(json.dumps(states, default=list))
  nodes2, edges2, inits2, r2 = tlc.dump_graph('SymTree', cfg_step, env={'INIT_FILE': str(f)}, timeout=3000,
                                              name='step-' + cfg_step)
  chk.add_tlc(r2)
  hits: Dict[str, int] = {}
  n_tr = 0
  edges2 = sorted(edges2, key=lambda e: (str(e[0]), str(e[1])))
  if max_transitions is not None and len(edges2) > max_transitions:
    edges2 = random.Random(seed + 7).sample(edges2, max_transitions)
  for src_id, dst_id, _, _ in edges2:
    if src_id == dst_id or src_id not in nodes2 or dst_id not in nodes2:
      continue
    src, dst = nodes2[src_id], nodes2[dst_id]
    if src['act'][0] != 'From' or dst['act'][0] == 'From':
      continue
    rp = symtree.Replayer(clauses)
    dv = rp.replay_transition(src, dst)
    n_tr += 1
    chk.traces += 1
    chk.evaluations += 1
    chk.distinct_case(('t', src_id, dst_id))
    for k, v in rp.hits.items():
      hits[k] = hits.get(k, 0) + v
    if dv is None:
      continue
    if dv['clause'].startswith('build:'):
      chk.require(False, f'cannot construct spec state directly: {dv} state={ {k: src[k] for k in TREE_VARS} }')
    dv['history'] = [dst['act']]
    clause = dv['clause']
    claimed = clause in clauses or (clause in ('bind', 'oneplace') and 'parent' in clauses) or clause == 'hang'
    if claimed and in_scope is not None and clause != 'hang':
      claimed = in_scope(dv)
    if claimed:
      chk.violation({'action': dv['act'][0], 'clause': clause},
                    {'mode': 'single transition', 'cfg': cfg_step, 'from_state': {k: src[k] for k in TREE_VARS},
                     'act': dv['act'], 'what': dv['detail']})
    else:
      chk.count('out_of_scope_divergence:' + dv['act'][0] + ':' + clause)
  chk.notes.setdefault('transition_tests', {})[cfg_step] = {'source_states': len(states), 'transitions': n_tr}
  if len(chk.samples) < 6 and edges2:
    e = next((e for e in edges2 if nodes2[e[1]]['act'][0] not in ('From',) and nodes2[e[1]]['out']['k'] == 'ok'), None)
    if e:
      chk.sample({'single_transition': {'from': {k: nodes2[e[0]][k] for k in ('kind', 'ditems', 'litems')},
                                        'call': nodes2[e[1]]['act'], 'outcome': nodes2[e[1]]['out']}})
  return hits
