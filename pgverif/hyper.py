"""Driver for Hyper.tla (C13): builds real hyper values from abstract templates, decodes / encodes / iterates them
and records what it saw; HyperLaws.tla (TLC) judges the observations.

Abstract template / value (JSON, as exported by TLC):
  {"h": "leaf", "v": n} | {"h": "fleaf", "v": tenths} | {"h": "dict"|"list"|"obj", "items": [...]}
  {"h": "oneof", "cands": [...]} | {"h": "manyof", "k", "cands", "distinct", "sorted"} | {"h": "float", "lo", "hi"}
  {"h": "custom"}
"""
from __future__ import annotations

import json
from typing import Any, Dict, List

from . import geno
from .geno import STRS, mk_dna, project

_CLASSES: Dict[str, Any] = {}


def _classes():
  """pg.Object classes used by the 'obj' templates and the custom hyper (created once per process)."""
  if _CLASSES:
    return _CLASSES
  import pyglove as pg  # pylint: disable=import-outside-toplevel

  @pg.members([('x', pg.typing.Any())])
  class VerifA1(pg.Object):
    pass

  @pg.members([('x', pg.typing.Any()), ('y', pg.typing.Any())])
  class VerifA2(pg.Object):
    pass

  @pg.members([('x', pg.typing.Any()), ('y', pg.typing.Any()), ('z', pg.typing.Any())])
  class VerifA3(pg.Object):
    pass

  class VerifCustom(pg.hyper.CustomHyper):
    """decodes the string number s to the constant 50 + s."""

    def custom_decode(self, dna):
      return 50 + STRS.index(dna.value) + 1

    def custom_encode(self, value):
      if isinstance(value, int) and not isinstance(value, bool) and 1 <= value - 50 <= len(STRS):
        return pg.DNA(STRS[value - 51])
      raise ValueError(f'cannot encode {value!r}')

    def random_dna(self, random_generator=None, previous_dna=None):
      return pg.DNA(STRS[(random_generator or __import__('random')).randrange(len(STRS))])

  class VerifS1(VerifA1):     # subclasses with the same fields: different class, equal contents
    pass

  class VerifS2(VerifA2):
    pass

  class VerifS3(VerifA3):
    pass

  _CLASSES.update(A1=VerifA1, A2=VerifA2, A3=VerifA3, S1=VerifS1, S2=VerifS2, S3=VerifS3, Custom=VerifCustom)
  return _CLASSES


KEYS = ['k1', 'k2', 'k3']
NONE = 9999
BIND_LOG: List[str] = []          # outcome of second binding attempts during the last build()
_TYPED: Dict[str, Any] = {}


def _value_spec(fs: dict):
  import pyglove as pg  # pylint: disable=import-outside-toplevel
  T = pg.typing
  lo = None if fs['lo'] == NONE else fs['lo']
  hi = None if fs['hi'] == NONE else fs['hi']
  k = fs['k']
  if k == 'float':
    return T.Float(min_value=None if lo is None else lo / 10.0, max_value=None if hi is None else hi / 10.0)
  if k == 'int':
    return T.Int(min_value=lo, max_value=hi)
  if k == 'enum':
    return T.Enum(fs['lo'], [fs['lo'], fs['hi']])
  if k == 'intlist':
    return T.List(T.Int(min_value=lo, max_value=hi))
  raise ValueError(k)


def typed_class(fs_list: List[dict]):
  """A pg.Object class whose fields f1.. carry the value specs of the abstract field specs (one class per signature)."""
  import pyglove as pg  # pylint: disable=import-outside-toplevel
  key = json.dumps(fs_list, sort_keys=True)
  if key not in _TYPED:
    cls = type(f'VerifTyped{len(_TYPED)}', (pg.Object,), {'_verif_fs': fs_list})
    cls = pg.members([(f'f{i + 1}', _value_spec(fs)) for i, fs in enumerate(fs_list)])(cls)
    _TYPED[key] = cls
  return _TYPED[key]


FIELDS = ['x', 'y', 'z']


def _ref_keys(root: dict, path: List[int]) -> list:
  """KeyPath keys of the item at `path` (1-based positions) of the template `root`."""
  keys, node = [], root
  for pos in path:
    h = node['h']
    keys.append({'dict': KEYS[pos - 1] if pos <= len(KEYS) else f'k{pos}', 'list': pos - 1,
                 'obj': FIELDS[pos - 1] if pos <= 3 else f'f{pos}', 'tobj': f'f{pos}'}.get(h, pos - 1))
    node = node['items'][pos - 1] if 'items' in node and pos <= len(node['items']) else {'h': 'leaf'}
  return keys


def _ref_path(keys) -> List[int]:
  out = []
  for k in keys:
    if isinstance(k, int):
      out.append(k + 1)
    elif k in KEYS:
      out.append(KEYS.index(k) + 1)
    elif k in FIELDS:
      out.append(FIELDS.index(k) + 1)
    elif isinstance(k, str) and k[:1] == 'f' and k[1:].isdigit():
      out.append(int(k[1:]))
    else:
      out.append(0)
  return out


def build(t: dict, root: dict = None):
  import pyglove as pg  # pylint: disable=import-outside-toplevel
  root = root or t
  h = t['h']
  if h == 'ref':
    from pyglove.core.hyper.derived import ValueReference  # pylint: disable=import-outside-toplevel
    return ValueReference([pg.KeyPath(_ref_keys(root, t['path']))])
  if h == 'leaf':
    return int(t['v'])
  if h == 'fleaf':
    return t['v'] / 10.0
  if h == 'dict':
    return pg.Dict({KEYS[i]: build(x, root) for i, x in enumerate(t['items'])})
  if h == 'list':
    return pg.List([build(x, root) for x in t['items']])
  if h == 'obj':
    cls = _classes()[f'{"S" if t.get("c") else "A"}{len(t["items"])}']
    return cls(*[build(x, root) for x in t['items']])
  if h == 'tobj':
    # binding history: the placeholder objects are built once; if the class refuses them, the VERY SAME objects are
    # offered a second time (a user's try / except fallback) -- every attempt must be judged alike
    items = [build(x, root) for x in t['items']]
    cls = typed_class(t['fs'])
    try:
      return cls(*items)
    except Exception as first:  # pylint: disable=broad-except
      try:
        obj = cls(*items)
      except Exception:  # pylint: disable=broad-except
        BIND_LOG.append('refused_twice')
        raise first
      BIND_LOG.append('accepted_on_retry')
      return obj
  if h == 'oneof':
    return pg.oneof([build(c, root) for c in t['cands']])
  if h == 'manyof':
    return pg.manyof(t['k'], [build(c, root) for c in t['cands']], distinct=t['distinct'], sorted=t['sorted'])
  if h == 'float':
    return pg.floatv(t['lo'] / 10.0, t['hi'] / 10.0)
  if h == 'custom':
    return _classes()['Custom']()
  raise ValueError(h)


def where_fn(w: str):
  import pyglove as pg  # pylint: disable=import-outside-toplevel
  if w == 'all':
    return None
  if w == 'oneof':
    return lambda x: isinstance(x, pg.hyper.OneOf)
  if w == 'choices':
    return lambda x: isinstance(x, pg.hyper.Choices)
  if w == 'many3':
    return lambda x: isinstance(x, pg.hyper.Choices) and len(x.candidates) == 3
  raise ValueError(w)


def project_value(v) -> dict:
  """real value -> abstract value."""
  import pyglove as pg  # pylint: disable=import-outside-toplevel
  c = _classes()
  if isinstance(v, pg.hyper.OneOf):
    return {'h': 'oneof', 'cands': [project_value(x) for x in v.candidates]}
  if isinstance(v, pg.hyper.ManyOf):
    return {'h': 'manyof', 'k': v.num_choices, 'cands': [project_value(x) for x in v.candidates],
            'distinct': bool(v.choices_distinct), 'sorted': bool(v.choices_sorted)}
  if isinstance(v, pg.hyper.Float):
    return {'h': 'float', 'lo': round(v.min_value * 10), 'hi': round(v.max_value * 10)}
  if isinstance(v, c['Custom']):
    return {'h': 'custom'}
  if isinstance(v, bool):
    return {'h': 'leaf', 'v': -1}
  if isinstance(v, int):
    return {'h': 'leaf', 'v': v}
  if isinstance(v, float):
    r = round(v * 10)
    return {'h': 'fleaf', 'v': r if abs(v * 10 - r) < 1e-9 else 99999}
  if isinstance(v, dict):                # pg.Dict or (at the root of a decoded value) a plain dict
    keys = list(v.keys())
    if keys != KEYS[:len(keys)]:
      return {'h': 'leaf', 'v': -2}
    return {'h': 'dict', 'items': [project_value(v[k]) for k in keys]}
  if isinstance(v, list):                # pg.List, or the plain list a ManyOf decodes to at the root
    return {'h': 'list', 'items': [project_value(x) for x in v]}
  if hasattr(type(v), '_verif_fs'):
    return {'h': 'tobj', 'fs': type(v)._verif_fs,  # pylint: disable=protected-access
            'items': [project_value(v.sym_getattr(k)) for k in list(v.sym_keys())]}
  if isinstance(v, (c['A1'], c['A2'], c['A3'])):
    exact = type(v) in (c['A1'], c['A2'], c['A3'])
    return {'h': 'obj', 'c': 0 if exact else 1, 'items': [project_value(v.sym_getattr(k)) for k in list(v.sym_keys())]}
  if isinstance(v, pg.hyper.DerivedValue):
    try:
      return {'h': 'ref', 'path': _ref_path(v.reference_paths[0].keys)}
    except Exception:  # pylint: disable=broad-except
      return {'h': 'ref', 'path': [0]}
  return {'h': 'leaf', 'v': -9}


def value_str(v: dict) -> str:
  h = v['h']
  if h == 'leaf':
    return str(v['v'])
  if h == 'fleaf':
    return str(v['v'] / 10.0)
  if h == 'tobj':
    def fs_str(f):
      b = lambda x: '' if x == NONE else str(x / 10.0 if f['k'] == 'float' else x)
      return f"{f['k']}[{b(f['lo'])},{b(f['hi'])}]"
    return 'T(' + ', '.join(f'{fs_str(f)}={value_str(x)}' for f, x in zip(v['fs'], v['items'])) + ')'
  if h == 'ref':
    return 'ref(' + '.'.join(str(x) for x in v['path']) + ')'
  if h in ('dict', 'list', 'obj'):
    o, c = {'dict': '{}', 'list': '[]', 'obj': ('Sub(' if v.get('c') else 'A(', ')')}[h]
    return o + ', '.join(value_str(x) for x in v['items']) + c
  if h == 'oneof':
    return 'oneof(' + ', '.join(value_str(x) for x in v['cands']) + ')'
  if h == 'manyof':
    m = ('d' if v['distinct'] else '') + ('s' if v['sorted'] else '')
    return f"manyof{v['k']}{m}(" + ', '.join(value_str(x) for x in v['cands']) + ')'
  if h == 'float':
    return f"float({v['lo'] / 10.0}, {v['hi'] / 10.0})"
  return 'custom'


def project_spec(s) -> dict:
  """pg.geno spec -> abstract spec (structure only: names, literal values, locations and hints are not compared)."""
  if s.is_space:
    return {'t': 'space', 'elems': [project_spec(e) for e in s.elements]}
  if s.is_categorical:
    return {'t': 'choices', 'k': s.num_choices, 'cands': [project_spec(c) for c in s.candidates],
            'distinct': bool(s.distinct), 'sorted': bool(s.sorted), 'name': 0, 'lits': 0}
  if s.is_numerical:
    return {'t': 'float', 'lo': round(s.min_value * 10), 'hi': round(s.max_value * 10), 'name': 0}
  return {'t': 'custom', 'name': 0}


def _json(v) -> str:
  """Digest of pg.to_json(value): template purity is judged on the serialised form, never on object identity."""
  import hashlib  # pylint: disable=import-outside-toplevel
  import pyglove as pg  # pylint: disable=import-outside-toplevel
  return hashlib.sha1(json.dumps(pg.to_json(v), sort_keys=True, default=repr).encode()).hexdigest()[:16]


def foreign_values(v: dict, rng, limit: int) -> List[dict]:
  """One-step structural corruptions of an abstract value (outside any remaining placeholder): a list one item
  longer / shorter, a constant changed, an object of the sibling class."""
  out: List[dict] = []

  def rebuild(node, path, repl):
    if not path:
      return repl
    c = dict(node)
    c['items'] = list(node['items'])
    c['items'][path[0]] = rebuild(node['items'][path[0]], path[1:], repl)
    return c

  def walk(node, path):
    h = node['h']
    if h == 'list':
      out.append(rebuild(v, path, dict(node, items=node['items'] + [{'h': 'leaf', 'v': 9}])))
      if node['items']:
        out.append(rebuild(v, path, dict(node, items=node['items'][:-1])))
    if h == 'obj':
      out.append(rebuild(v, path, dict(node, c=1 - node.get('c', 0))))
    if h == 'leaf':
      out.append(rebuild(v, path, {'h': 'leaf', 'v': 9 if node['v'] != 9 else 8}))
    if h in ('dict', 'list', 'obj', 'tobj'):
      for i, x in enumerate(node['items']):
        walk(x, path + [i])
  walk(v, [])
  rng.shuffle(out)
  return out[:limit]


OTHER_FILTERS = ['oneof', 'choices', 'many3']


def observe_c13(entry: dict, seed: int, opts: dict) -> dict:
  import pyglove as pg  # pylint: disable=import-outside-toplevel
  tj, w = entry['tmpl'], entry['wh']
  errs: List[str] = []
  o: Dict[str, Any] = {'index': entry['index'], 'tmpl': tj, 'wh': w, 'spec': {'t': 'space', 'elems': []}, 'size': -2,
                       'dnas': [], 'iter': [], 'hasiter': False, 'errs': errs, 'bind_rejected': False,
                       'json': [], 'hist': [], 'spec_all_after': {'t': 'space', 'elems': []}, 'hashist': False}
  # binding: building the value binds every placeholder to the value spec of its field
  import random as _random  # pylint: disable=import-outside-toplevel
  rng = _random.Random(seed * 7907 + entry['index'])
  del BIND_LOG[:]
  o['rebind_accepted'] = False
  try:
    value = build(tj)
    o['rebind_accepted'] = 'accepted_on_retry' in BIND_LOG
  except Exception as e:  # pylint: disable=broad-except
    o['bind_rejected'] = True
    o['bind_error'] = type(e).__name__ + ':' + str(e)[:120]
    return o
  if not entry['bindok']:
    return o                                    # accepted although the model says it must be refused: TLC reports it
  # purity is judged on the USER'S value from the moment it exists: [stage, digest] after every use
  stages = o['json']
  stages.append(['built', _json(value)])
  try:
    wf = where_fn(w)
    early_all = pg.template(value) if w != 'all' else None      # an unfiltered template built BEFORE the filtered use
    stages.append(['template_all_early', _json(value)])
    t = pg.template(value, wf)
    stages.append(['template', _json(value)])
    spec = t.dna_spec()
    o['spec'] = project_spec(spec)
    o['size'] = spec.space_size
    stages.append(['dna_spec', _json(value)])
  except Exception as e:  # pylint: disable=broad-except
    errs.append('template:' + type(e).__name__ + ':' + str(e)[:120])
    return o
  for j, tree in enumerate(entry['dnas']):
    rec: Dict[str, Any] = {'tree': tree}
    try:
      dna = mk_dna(tree, spec=spec) if (j + seed) % 2 == 0 else mk_dna(tree)   # bound and unbound DNAs alternate
      rec['tree'] = project(dna)
      v1 = t.decode(dna)
      rec['decoded'] = project_value(v1)
      stages.append(['decode', _json(value)])
      v2 = t.decode(mk_dna(tree))
      rec['decoded_again'] = project_value(v2)
      rec['twice_eq'] = bool(pg.eq(v1, v2))
      rec['is_det'] = bool(pg.is_deterministic(v1))
      try:
        enc = t.encode(v1)
        rec['encoded'] = project(enc)
        rec['redecoded'] = project_value(t.decode(enc))
      except Exception as e:  # pylint: disable=broad-except
        rec['encoded'] = ['!', 0, []]
        rec['redecoded'] = {'h': 'leaf', 'v': -8}
        rec['encode_error'] = type(e).__name__ + ':' + str(e)[:100]
      stages.append(['encode', _json(value)])
      # encode accepts exactly the values of the template: near misses of the decoded value
      rec['foreign'] = []
      for fv in foreign_values(rec['decoded'], rng, opts.get('foreign', 2)):
        try:
          real = build(fv)
        except Exception:  # pylint: disable=broad-except
          continue                                # not constructible (e.g. a typed field refuses the constant)
        try:
          rec['foreign'].append([fv, project(t.encode(real))])
        except Exception:  # pylint: disable=broad-except
          rec['foreign'].append([fv, ['!', 0, []]])
      rec['materialized'] = project_value(pg.materialize(value, mk_dna(tree), where=wf))
      stages.append(['materialize', _json(value)])
    except Exception as e:  # pylint: disable=broad-except
      errs.append(f'dna {geno.tree_str(tree)}:' + type(e).__name__ + ':' + str(e)[:120])
      continue
    o['dnas'].append(rec)
  if entry['size'] != -1 and entry['size'] <= opts['iter_max'] and not t.is_constant:
    o['hasiter'] = True
    try:
      cap = 3 * entry['size'] + 5
      for x in pg.iter(value, where=wf):
        o['iter'].append(project_value(x))
        if len(o['iter']) >= cap:
          break
    except Exception as e:  # pylint: disable=broad-except
      errs.append('iter:' + type(e).__name__ + ':' + str(e)[:120])
    stages.append(['iter', _json(value)])
  # histories over the SAME value object: filtered use first, unfiltered afterwards (and the other way round)
  try:
    if w != 'all':
      o['hashist'] = True
      late_all = pg.template(value)
      o['spec_all_after'] = project_spec(late_all.dna_spec())
      for tree in entry['dnas_all']:
        row = [tree]
        for tt in (early_all, late_all):
          try:
            row.append(project_value(tt.decode(mk_dna(tree))))
          except Exception as e:  # pylint: disable=broad-except
            row.append({'h': 'leaf', 'v': -7})
        o['hist'].append(row)
      stages.append(['unfiltered_after_filtered', _json(value)])
    else:
      iterated = False
      for f in OTHER_FILTERS:                     # filtered uses after the unfiltered one
        tf = pg.template(value, where_fn(f))
        tf.dna_spec()
        stages.append(['template_where_' + f, _json(value)])
        if iterated:
          continue
        try:
          for k, _ in enumerate(pg.iter(value, where=where_fn(f))):
            iterated = True
            if k >= 2:
              break
        except ValueError:
          pass                                    # constant under this filter
        stages.append(['iter_where_' + f, _json(value)])
      if entry['dnas']:
        o['hashist'] = True
        o['spec_all_after'] = project_spec(pg.template(value).dna_spec())
        tree = entry['dnas'][0]
        o['hist'].append([tree, project_value(t.decode(mk_dna(tree))),
                          project_value(pg.template(value).decode(mk_dna(tree)))])
      stages.append(['unfiltered_after_filtered', _json(value)])
  except Exception as e:  # pylint: disable=broad-except
    errs.append('history:' + type(e).__name__ + ':' + str(e)[:120])
  return o
