"""C06 driver: builds the universe of specs/Order.tla with the real API and observes the relations.

The universe (value descriptors), the law definitions and the verdict all live in Order.tla; this module only
(1) turns a descriptor exported by TLC into a Python value (plain containers or pg.List / pg.Dict / pg.Object),
(2) evaluates pg.eq / pg.ne / pg.lt / pg.gt / pg.hash / == / != / hash() on every pair and sorted() on samples,
(3) writes the observed tables in the shape of `RefT` so that TLC can evaluate the laws on them.
No expected value is computed here.
"""
from __future__ import annotations

import functools
import random
from typing import Any, Dict, List

import pyglove as pg


class A(pg.Object):
  x: Any


class B(A):          # subclass without an extra field
  pass


class C(A):          # subclass with an extra field
  y: Any


class D(pg.Object):  # does not opt into symbolic comparison: == / != / hash() are by identity, pg.eq is not
  use_symbolic_comparison = False
  x: Any


CLASSES = {1: A, 2: B, 3: C, 4: D}
assert all(CLASSES[c].use_symbolic_comparison for c in (1, 2, 3))

FALSE, TRUE, RAISED, NONBOOL = 0, 1, 2, 3


def build(v, pgc: bool, strs: List[str]):
  """Descriptor <<tag, payload>> -> Python value.  pgc: containers are pg.List / pg.Dict."""
  tag, p = v
  if tag == 'mis':
    return pg.MISSING_VALUE
  if tag == 'none':
    return None
  if tag == 'bool':
    return bool(p)
  if tag == 'int':
    return int(p)
  if tag == 'flt':
    return p / 2.0
  if tag == 'str':
    return strs[p - 1]
  if tag == 'tup':
    return tuple(build(e, pgc, strs) for e in p)
  if tag == 'list':
    items = [build(e, pgc, strs) for e in p]
    return pg.List(items) if pgc else items
  if tag == 'dict':
    d = {}
    for k, e in p:                       # insertion order as given
      d[strs[k - 1]] = build(e, pgc, strs)
    return pg.Dict(d) if pgc else d
  if tag == 'obj':
    cls, fields = p
    args = [build(e, True, strs) for e in fields]
    return CLASSES[cls](*args)
  raise ValueError(f'unknown tag {tag!r}')


def _cell(f, a, b) -> int:
  try:
    r = f(a, b)
  except Exception:  # pylint: disable=broad-except
    return RAISED
  if r is True:
    return TRUE
  if r is False:
    return FALSE
  return NONBOOL


class _HashClasses:
  """hash value -> small index (hash values do not fit TLC's ints)."""

  def __init__(self):
    self.ix: Dict[int, int] = {}

  def of(self, f, x):
    try:
      h = f(x)
    except Exception:  # pylint: disable=broad-except
      return 0, 0
    if not isinstance(h, int):
      return 0, 0
    return 1, self.ix.setdefault(h, len(self.ix) + 1)


def cmp_by_lt(a, b) -> int:
  """The comparison a user sorts with: -1 / 0 / 1 from pg.lt and pg.gt."""
  if pg.lt(a, b):
    return -1
  if pg.gt(a, b):
    return 1
  return 0


def sort_samples(n: int, rng: random.Random, count: int, whole: bool) -> List[List[int]]:
  samples = []
  for k in range(count):
    size = rng.randint(2, 7)
    if k % 5 == 4:       # with repetition: the same value may occur twice in a list to sort
      s = [rng.randint(1, n) for _ in range(size)]
    else:
      s = rng.sample(range(1, n + 1), min(size, n))
    samples.append(s)
  for k in range(1, n + 1):          # a list holding the same value twice
    samples.append([k, k])
  if whole:
    s = list(range(1, n + 1))
    rng.shuffle(s)
    samples.append(s)
  return samples


def observe(universe: List[dict], strs: List[str], seed: int, n_sorts: int) -> Dict[str, Any]:
  """Evaluates the real operations on the whole universe; returns the tables for OrderObs.tla."""
  n = len(universe)
  # two independently built copies: cell [a][b] compares left[a] with right[b], so that the diagonal is a
  # comparison of two equal-by-construction values and not the `left is right` shortcut
  left = [build(e['v'], bool(e['pg']), strs) for e in universe]
  right = [build(e['v'], bool(e['pg']), strs) for e in universe]
  ops = {
      'eq': pg.eq, 'ne': pg.ne, 'lt': pg.lt, 'gt': pg.gt,
      'opeq': lambda a, b: a == b, 'opne': lambda a, b: a != b,
  }
  obs: Dict[str, Any] = {'n': n}
  for name, f in ops.items():
    obs[name] = [[_cell(f, left[a], right[b]) for b in range(n)] for a in range(n)]
  hc = _HashClasses()
  for name, f, vals in (('hash', pg.hash, left), ('hashr', pg.hash, right), ('ophash', hash, left)):
    pairs = [hc.of(f, x) for x in vals]
    obs[name + 'ok'] = [p[0] for p in pairs]
    obs[name] = [p[1] for p in pairs]
  obs['hash_classes'] = len(hc.ix)
  rng = random.Random(seed * 7919 + n)
  sorts = []
  key = functools.cmp_to_key(lambda p, q: cmp_by_lt(left[p - 1], left[q - 1]) if p != q
                             else cmp_by_lt(left[p - 1], right[q - 1]))
  for s in sort_samples(n, rng, n_sorts, whole=True):
    try:
      out = sorted(s, key=key)
      sorts.append({'in': s, 'raised': 0, 'out': out})
    except Exception:  # pylint: disable=broad-except
      sorts.append({'in': s, 'raised': 1, 'out': []})
  obs['sorts'] = sorts
  return obs


def describe(universe, strs, ix: int) -> str:
  """Concrete Python rendering of universe entry ix (1-based) for reports."""
  if not ix:
    return ''
  e = universe[ix - 1]
  v = build(e['v'], bool(e['pg']), strs)
  r = repr(v) if not isinstance(v, pg.Symbolic) else v.format(compact=True)
  kind = 'pg' if e['pg'] and e['v'][0] in ('list', 'dict') else ''
  return f'{kind}{r}'
