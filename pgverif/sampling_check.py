"""C16: TLC decides.  Design-level model checking of Sampling.tla, C->S validation of recorded
executions with SamplingTrace.tla, S->C forcing of TLC behaviours onto the real threads."""
from __future__ import annotations

import json
import random
import time
from typing import Any, Dict, List, Optional, Sequence, Tuple

from . import sampling, sched, tlc
from .core import MachineryFailure, WORK

C16 = WORK / 'c16'

# which mechanism an invariant is about (for the signature of a violation)
MECH = {'SingleCreator': 'goc', 'OneStudyPerName': 'goc', 'SetupAtomic': 'setup', 'CountersExact': 'setup',
        'SingleCompleter': 'done', 'FeedbackAtMostOnce': 'done', 'CompletedAtMostOnce': 'done'}


# ------------------------------------------------------------------------------ variant of the tree
def detect_variant() -> Dict[str, bool]:
  """Runs one worker alone and reads off its events whether the three check-then-act mechanisms are
  coded without a lock (True = as at the pinned commit).  Also the hook self-test."""
  cfg = sampling.RunConfig(nw=1, groups=['g'], n=2, ops=['done'], evo=True, policy='rr', seed=0)
  r = sampling.run_scheduled(cfg)
  names = [e['e'] for e in r.events]
  # only what the detection itself needs: anything else that is missing or wrong is judged by TLC later
  missing = [n for n in ('goc_test', 'setup_test', 'finish') if n not in names]
  if missing:
    raise MachineryFailure(f'hook self-test failed: status={r.status} crash={r.crash} missing events={missing} '
                           f'(is C16-hooks.patch applied completely?)')
  reg = {e['sec'] for e in r.events if e['e'] == 'acquire_reg'}
  mark = any(e['e'] == 'acquire_study' and e['sec'] == 3 for e in r.events)
  return {'goc': 1 not in reg, 'setup': 2 not in reg, 'done': not mark}


def variant_env(v: Dict[str, bool], commit_points: bool = True) -> Dict[str, str]:
  return {'C16_COMMIT_POINTS': '1' if commit_points else '0', 'C16_MIRROR_GOC': '1' if v['goc'] else '0', 'C16_MIRROR_SETUP': '1' if v['setup'] else '0',
          'C16_MIRROR_DONE': '1' if v['done'] else '0'}


# ------------------------------------------------------------------------------ C -> S
def trace_of(r: 'sampling.RunResult') -> dict:
  ev = [dict(e) for e in r.events]
  if r.status == 'done' and r.final and r.final.get('unnamed'):
    f = r.final
    ev.append({'w': 0, 'e': 'final_unnamed', 'nprop': f['nprop'], 'nfb': f['nfb'], 'size': f['pop']})
  elif r.status == 'done' and r.final and 'error' not in r.final:
    f = r.final
    ev.append({'w': 0, 'e': 'final', 'ids': f['ids'], 'status': f['status'], 'inf': f['inf'],
               'completed': f['completed'], 'pending': f['pending'], 'infeasible': f['infeasible'],
               'best': f['best'], 'active': f['active'], 'nprop': f['nprop'], 'nfb': f['nfb'],
               'size': f['pop']})
  elif r.status == 'deadlock':
    ev.append({'w': 0, 'e': 'deadlock'})
  return {'id': r.name, 'cf': r.cfg.cf(), 'ev': ev}


def validate(chk, runs: Sequence['sampling.RunResult'], variant: Dict[str, bool], tag: str,
             extra: Sequence[dict] = (), commit_points: bool = True) -> Dict[str, tuple]:
  """One TLC run of SamplingTrace.tla over all recorded executions; returns name -> verdict:
  ('ACCEPT', n) | ('INV', clause, k) | ('STOPPED', k, pcs)."""
  traces = [trace_of(r) for r in runs] + [{k: v for k, v in t.items() if k != 'expect'} for t in extra]
  if not traces:
    return {}
  r = tlc.check_with_json('SamplingTrace', 'C16_trace.cfg', traces, ndjson=True, var='TRACE_FILE',
                          env=variant_env(variant, commit_points), workers=1, name=f'c16-trace-{tag}', timeout=1500)
  chk.add_tlc(r)
  if not r.ok:
    raise MachineryFailure(f'SamplingTrace.tla: TLC reported {r.violated}:\n{r.out[-2500:]}')
  verdicts: Dict[str, tuple] = {}
  for p in r.prints or []:
    if not isinstance(p, list) or not p:
      continue
    if p[0] == 'INV':
      verdicts[p[1]] = ('INV', str(p[2]), int(p[3]))
  for p in r.prints or []:
    if not isinstance(p, list) or not p:
      continue
    if p[0] == 'ACCEPT':
      verdicts.setdefault(p[1], ('ACCEPT', int(p[2])))
    elif p[0] == 'STOPPED':
      verdicts.setdefault(p[1], ('STOPPED', int(p[2]), [str(x) for x in p[3]]))
  lost = [t['id'] for t in traces if t['id'] not in verdicts]
  if lost:
    raise MachineryFailure(f'no verdict for traces {lost[:5]} ({len(lost)}):\n{r.out[-1500:]}')
  return verdicts


def shape(r: 'sampling.RunResult') -> tuple:
  """What makes two executions different for the evidence count: the interleaving of the workers
  (compressed) and the outcome."""
  order = []
  for e in r.events:
    if not order or order[-1] != e['w']:
      order.append(e['w'])
  f = r.final or {}
  return (r.cfg.nw, tuple(r.cfg.groups), r.cfg.n, tuple(sorted(r.cfg.ops)), r.cfg.evo, tuple(order),
          tuple(f.get('ids', ())), tuple(f.get('inf', ())), f.get('best'))


def report(chk, sig: dict, detail: dict, keep: int = 3):
  """chk.violation, but at most `keep` unlisted violations per signature are stored (core keeps 50 in all)."""
  if chk.match_known(sig) is None:
    seen = chk.__dict__.setdefault('_c16_seen', {})
    key = json.dumps(sig, sort_keys=True)
    seen[key] = seen.get(key, 0) + 1
    if seen[key] > keep:
      chk.count('violations_same_signature_not_stored')
      return
  chk.violation(sig, detail)


def compact(ev: dict) -> dict:
  return {k: v for k, v in ev.items() if k in ('w', 'e') or v not in (0, '', None)}


FEATURES = ('group_0', 'group_empty_str', 'group_none', 'falsy_group_shared', 'lookalike_groups',
            'num_examples_0', 'num_examples_1', 'num_examples_none', 'name_empty', 'name_none')


def features(cfg) -> List[str]:
  """Boundary values of the configuration an execution exercised."""
  g = list(cfg.groups)
  out = []
  if any(x == 0 and isinstance(x, int) for x in g):
    out.append('group_0')
  if '' in g:
    out.append('group_empty_str')
  if None in g:
    out.append('group_none')
  if any(g.count(x) > 1 for x in g if x is not None and not x):
    out.append('falsy_group_shared')
  if any(str(a) == str(b) and type(a) is not type(b) for a in g for b in g if a is not None and b is not None):
    out.append('lookalike_groups')          # 0 and '0', 1 and '1': different groups
  if cfg.n in (0, 1):
    out.append(f'num_examples_{cfg.n}')
  if cfg.n is None:
    out.append('num_examples_none')
  if cfg.name_kind != 'unique':
    out.append('name_' + cfg.name_kind)
  return out


def judge(chk, runs, verdicts, variant, origin: str):
  """Turns TLC's verdicts into check results."""
  for r in runs:
    v = verdicts[r.name]
    tr = trace_of(r)
    chk.evaluations += len(tr['ev'])
    chk.count(f'{origin}:{v[0]}')
    if r.crash:
      chk.count('worker_crash')
    if v[0] == 'ACCEPT':
      for feat in features(r.cfg):
        chk.count('accepted_with_' + feat)
      chk.traces += 1
      chk.distinct_case(shape(r))
      if r.status == 'done':
        chk.count('final_states_compared')
      continue
    detail = {'origin': origin, 'run': r.name, 'meta': r.meta, 'config': dataclass_dict(r.cfg), 'status': r.status,
              'scheduler': r.violation, 'crash': r.crash, 'stats': r.stats}
    if v[0] == 'INV':
      clause, k = v[1], v[2]
      mech = MECH.get(clause)
      sig = {'kind': 'invariant', 'clause': clause,
             'as_coded': bool(variant.get(mech)) if mech else None}
      detail.update(at_event=k, event=compact(tr['ev'][k - 1]) if 0 < k <= len(tr['ev']) else None,
                    trace_tail=[compact(e) for e in tr['ev'][max(0, k - 12):k]], final=r.final)
    else:
      k, pcs = v[1], v[2]
      ev = tr['ev'][k] if k < len(tr['ev']) else {'e': 'end-of-trace', 'w': 0}
      w = ev.get('w', 0)
      sig = {'kind': 'reject', 'event': ev['e'], 'pc': pcs[w - 1] if 0 < w <= len(pcs) else 'none'}
      detail.update(matched=k, unmatched_event=compact(ev), pcs=pcs,
                    trace_tail=[compact(e) for e in tr['ev'][max(0, k - 12):k + 1]], final=r.final)
    detail['trace'] = {'id': tr['id'], 'cf': tr['cf'], 'ev': [compact(e) for e in tr['ev'][:600]]}
    report(chk, sig, detail)


def dataclass_dict(cfg) -> dict:
  import dataclasses  # pylint: disable=import-outside-toplevel
  return dataclasses.asdict(cfg)


# ------------------------------------------------------------------------------ design level
ALL_INVARIANTS = ('SingleCreator SetupAtomic SingleCompleter OneStudyPerName IdsUnique IdsDense AtMostN '
                  'OneGroupPerTrial FeedbackAtMostOnce CompletedAtMostOnce CountersExact InfeasibleNeverBest '
                  'SameGroupSamePending CountsConsistent NoDeadlock AtQuiescence')
COMMIT_POINTS = ('SingleCreator', 'SetupAtomic', 'SingleCompleter')


def gen_cfg(name: str, *, workers: int, configs: str, variant: Dict[str, bool], invariants: str = '',
            constraints: str = '', spec: str = 'Spec', properties: str = '') -> str:
  """Writes a TLC configuration for MCSampling.tla under .work/c16 and returns its absolute path."""
  C16.mkdir(parents=True, exist_ok=True)
  b = lambda x: 'TRUE' if x else 'FALSE'
  txt = (f'SPECIFICATION {spec}\nCONSTANTS\n  Workers = {{{", ".join(str(i) for i in range(1, workers + 1))}}}\n'
         f'  Configs <- {configs}\n  MirrorGoc = {b(variant["goc"])}\n  MirrorSetup = {b(variant["setup"])}\n'
         f'  MirrorDone = {b(variant["done"])}\n  LockCreate = TRUE\n  LockComplete = TRUE\n  LockAlg = TRUE\n'
         f'  NULL = NULL\n')
  if invariants:
    txt += f'INVARIANTS {invariants}\n'
  if constraints:
    txt += f'CONSTRAINTS {constraints}\n'
  if properties:
    txt += f'PROPERTIES {properties}\n'
  p = C16 / f'{name}.cfg'
  p.write_text(txt)
  return str(p)


def steps_of(behaviour) -> List[tuple]:
  """tlc.Step list (or parsed error trace) -> [(action, worker, state_before, state_after)]."""
  out = []
  for i in range(1, len(behaviour)):
    b = behaviour[i]
    if isinstance(b, dict):
      action, args, st, prev = b['action'], b['args'], b['state'], behaviour[i - 1]['state']
      w = int(str(args).strip('()')) if args else 0
    else:
      action, st, prev = b.action, b.state, behaviour[i - 1].state
      w = int(b.args[0]) if b.args else 0
    out.append((action, w, prev, st))
  return out


GROUP_IDS = [0, '', 1, 'g', '1', '0', 2, 'h']      # legal group ids incl. the falsy ones and look-alikes


def declare_groups(pattern: Sequence[int], rng: random.Random) -> List[Any]:
  """Concrete group ids for an abstract group assignment: equal numbers -> the same id, different numbers
  -> different ids (drawn from GROUP_IDS); a worker that is alone in its group may pass None instead (the
  per-thread default)."""
  pool = list(GROUP_IDS)
  rng.shuffle(pool)
  ids: Dict[int, Any] = {}
  out = []
  for g in pattern:
    if g not in ids:
      ids[g] = None if list(pattern).count(g) == 1 and rng.random() < 0.3 else pool[len(ids) % len(pool)]
    out.append(ids[g])
  return out


def run_config_of(cf: dict, seed: int) -> 'sampling.RunConfig':
  rng = random.Random(f'{seed}/declare')
  named = bool(cf.get('named', True))
  return sampling.RunConfig(nw=int(cf['nw']), groups=declare_groups(list(cf['groups'])[:int(cf['nw'])], rng),
                            n=int(cf['n']), ops=sorted(cf['ops']),
                            evo=bool(cf['evo']), serial_start=bool(cf['warm']), mode='hook',
                            policy='forced', seed=seed,
                            name_kind=rng.choice(['unique', 'unique', 'empty']) if named else 'none')


# ------------------------------------------------------------------------------ orchestration
INTENDED = {'goc': False, 'setup': False, 'done': False}
ALL_EVENTS = sorted({e for v in sampling.EVENT_OF.values() for e in v} - {'acquire_reg', 'release_reg'})


def design_jobs(tier: str):
  """(label, cfg, expectation, workers, timeout): expectation = None (must hold) or the invariant that
  TLC must report violated (documented counter-examples of the as-coded design, calibration mutants)."""
  big = tlc.DEFAULT_WORKERS
  jobs = [
      ('intended-2w', 'C16_quick.cfg', None, max(2, big // 2), 600),
      ('liveness', 'C16_live.cfg', None, 2, 600),
      ('as-coded get-or-create', 'C16_race_goc.cfg', 'OneStudyPerName', 1, 300),
      ('as-coded algorithm set-up', 'C16_race_setup.cfg', 'CountersExact', 1, 300),
      ('as-coded done()/skip()', 'C16_race_done.cfg', 'FeedbackAtMostOnce', 1, 300),
      ('no lock in create_trial', 'C16_mut_nolock_create.cfg', 'IdsUnique', 1, 300),
      ('no lock in _complete_trial', 'C16_mut_nolock_complete.cfg', 'AtQuiescence', 1, 300),
      ('strong same-pending reading', 'C16_doc_onepending.cfg', 'OnePendingPerGroup', 1, 300),
  ]
  if tier == 'thorough':
    jobs += [
        ('intended-2w-n3', 'C16_two_n3.cfg', None, big, 1500),
        ('intended-3w-cold', 'C16_three_cold.cfg', None, big, 1500),
        ('intended-3w', 'C16_three_warm.cfg', None, big, 1800),
        ('intended-3w-n3', 'C16_three_warm_n3.cfg', None, big, 1500),
        ('liveness-big', 'C16_live_big.cfg', None, 4, 900),
    ]
  return jobs


def run_design(chk, tier: str, pool) -> list:
  futs = []
  for label, cfg, expect, workers, timeout in design_jobs(tier):
    futs.append((label, cfg, expect, pool.submit(
        tlc.run, 'MCSampling', cfg, name=f'c16-{cfg[:-4]}', workers=workers, timeout=timeout)))
  return futs


def collect_design(chk, futs):
  out = {}
  for label, cfg, expect, fut in futs:
    r = fut.result()
    chk.add_tlc(r)
    out[cfg] = {'what': label, 'distinct': r.distinct, 'generated': r.generated, 'wall_s': round(r.wall_s, 1),
                'violated': r.violated, 'counterexample_len': len(r.error_trace or [])}
    if expect is None:
      if not r.ok:
        raise MachineryFailure(f'design level: {cfg} ({label}) must hold but TLC reports {r.violated}:\n'
                               + r.out[-2000:])
      chk.count('design_configs_verified')
    else:
      if r.ok or r.violated != expect:
        raise MachineryFailure(f'design level: {cfg} ({label}) must exhibit a counter-example to {expect}, '
                               f'TLC reports {r.violated}')
      chk.count('design_counterexamples_reproduced')
  chk.notes['design_level'] = out


def counterexamples(chk, variant) -> List[tuple]:
  """TLC counter-examples of the *tree's* variant of the design, for forcing onto the real threads."""
  out = []
  plans = []
  if variant['goc']:
    plans.append(('goc', 'CeColdPlain', 'OneStudyPerName', ''))
  if variant['setup']:
    plans.append(('setup', 'CeColdPlain', 'CountersExact', 'SingleCreator NoHalfSetup'))
    plans.append(('setup-evo', 'CeColdEvo', 'CountersExact', 'SingleCreator NoHalfSetup'))
  if variant['done']:
    plans.append(('done', 'CeWarmSamePlain', 'FeedbackAtMostOnce', ''))
    plans.append(('done-evo', 'CeWarmSameEvo', 'FeedbackAtMostOnce', ''))
  for tag, configs, inv, cons in plans:
    cfg = gen_cfg(f'ce_{tag}', workers=2, configs=configs, variant=variant, invariants=inv, constraints=cons)
    r = tlc.run('MCSampling', cfg, name=f'c16-ce-{tag}', workers=2, timeout=300)
    chk.add_tlc(r)
    if r.ok or not r.error_trace:
      raise MachineryFailure(f'no counter-example to {inv} for the as-coded variant {variant} ({tag})')
    out.append((tag, inv, r.error_trace))
  return out


def force_counterexamples(chk, variant, seed) -> List['sampling.RunResult']:
  runs = []
  for tag, inv, trace in counterexamples(chk, variant):
    cf = trace[0]['state']['cf']
    rc = run_config_of(cf, seed)
    r = sampling.run_forced(rc, steps_of(trace), warm=bool(cf['warm']), probes=False)
    r.name = f'ce-{tag}'
    chk.count('counterexamples_forced')
    chk.sample({'forced_counterexample': tag, 'violates': inv,
                'schedule': [f'{a}({w})' for a, w, _, _ in steps_of(trace)],
                'status': r.status, 'final': {k: v for k, v in (r.final or {}).items() if k != 'text'}})
    runs.append(r)
  return runs


def simulate_and_force(chk, variant, *, configs: str, workers: int, num: int, seed: int, tag: str,
                       depth: int = 900) -> List['sampling.RunResult']:
  cfg = gen_cfg(f'sim_{tag}', workers=workers, configs=configs, variant=variant,
                constraints=' '.join(COMMIT_POINTS))
  behaviours, r = tlc.simulate('MCSampling', cfg, num=num, depth=depth, seed=seed, name=f'c16-sim-{tag}',
                               timeout=900)
  chk.add_tlc(r, count_states=False)
  runs = []
  for i, b in enumerate(behaviours):
    cf = b[0].state['cf']
    if any(str(x) != 'stop' for x in b[-1].state['pc']):
      chk.count('simulated_behaviour_truncated')
    rc = run_config_of(cf, seed * 100003 + i)
    res = sampling.run_forced(rc, steps_of(b), warm=bool(cf['warm']))
    res.name = f'sim-{tag}-{i}'
    res.meta = {'sim_tag': tag, 'index': i, 'sim_seed': seed}
    runs.append(res)
    chk.count('forced_steps', res.stats.get('forced_steps', 0))
    chk.count('negative_probes', res.stats.get('probes', 0))
    chk.count('negative_probes_blocked', res.stats.get('probes_blocked', 0))
    if res.violation is not None:
      # the code could not follow a behaviour of the specification
      v = res.violation
      report(chk, {'kind': 'forced', 'clause': v.get('clause'), 'action': v.get('action'),
                   'event': v.get('event')},
             {'origin': f'sim-{tag}', 'index': i, 'sim_seed': seed, 'config': dataclass_dict(rc),
                     'divergence': v, 'crash': res.crash,
                     'schedule': [f'{a}({w})' for a, w, _, _ in steps_of(b)][:v.get('step', 0) + 3],
                     'events_tail': res.events[-12:]})
    if i < 2:
      chk.sample({'forced_behaviour': res.name, 'config': cf, 'steps': len(b) - 1,
                  'schedule_head': [f'{a}({w})' for a, w, _, _ in steps_of(b)][:25],
                  'probes': res.stats.get('probes'), 'status': res.status})
  return runs


GROUPS = {2: [[1, 2], [1, 1]], 3: [[1, 2, 3], [1, 1, 2], [1, 1, 1]], 4: [[1, 1, 2, 2], [1, 2, 3, 4], [1, 1, 1, 2]],
          5: [[1, 1, 2, 2, 3]], 6: [[1, 1, 2, 2, 3, 3], [1, 2, 3, 4, 5, 6]], 8: [[1, 1, 1, 1, 2, 2, 3, 4],
                                                                              [1, 2, 3, 4, 5, 6, 7, 8]]}
OPSETS = [['done'], ['done', 'skip'], ['done', 'early'], ['done', 'done_end'],
          ['done', 'skip', 'early', 'done_end'], ['skip', 'early']]


def scheduled_runs(chk, *, mode: str, num: int, seed: int, crews: Sequence[int], probe_p: float,
                   quiet: float) -> List['sampling.RunResult']:
  rng = random.Random(f'{seed}/{mode}/configs')
  runs = []
  for i in range(num):
    nw = rng.choice(list(crews))
    n = rng.choice([0, 1, 1, 2, 3, 3, 4, 5, None])
    ops = list(rng.choice(OPSETS))
    if n is None and 'done_end' not in ops:
      ops.append('done_end')            # somebody has to end an unbounded loop
    rc = sampling.RunConfig(
        nw=nw, groups=declare_groups(rng.choice(GROUPS[nw]), rng), n=n, ops=ops,
        evo=rng.random() < 0.5, serial_start=rng.random() < 0.65,
        policy=rng.choice(['random', 'pct', 'rr', 'sticky']), seed=seed * 1000003 + i, mode=mode,
        probe_p=probe_p, name_kind=rng.choice(['unique', 'unique', 'unique', 'empty', 'none']))
    r = sampling.run_scheduled(rc, quiet=quiet)
    r.name = f'{mode}-{i}'
    runs.append(r)
    for k in ('probes', 'probes_blocked', 'yields', 'tokenless', 'unexpected_blocks'):
      chk.count(f'{mode}_{k}', r.stats.get(k, 0))
    if r.status not in ('done', 'deadlock', 'mutual_exclusion'):
      raise MachineryFailure(f'scheduler gave up on {rc}: {r.status}')
  return runs


def self_test_traces(base: 'sampling.RunResult') -> List[dict]:
  """Three corrupted copies of an execution that TLC accepted: one logged field changed (stop at that event),
  one hook event removed (stop at the same worker's next event), one field of the final observation changed
  (stop at the final event).  The expected index is computed from the trace itself, so it does not depend on the
  schedule, the seed or the variant of the tree."""
  t = trace_of(base)
  names = [e['e'] for e in t['ev']]
  a = json.loads(json.dumps(t))
  a['id'] = 'selftest-field'
  i = names.index('propose')
  a['ev'][i]['nprop'] += 1
  a['expect'] = i
  b = json.loads(json.dumps(t))
  b['id'] = 'selftest-hook'
  j = names.index('alloc')
  wj = b['ev'][j]['w']
  del b['ev'][j]
  # `alloc` only writes a local of its worker: the other workers' events still match, TLC must stop at
  # the next event of that worker (its append_trial), wherever the schedule put it
  b['expect'] = next(k for k in range(j, len(b['ev'])) if b['ev'][k]['w'] == wj)
  c = json.loads(json.dumps(t))
  c['id'] = 'selftest-final'
  c['ev'][-1]['nfb'] += 1
  c['expect'] = len(c['ev']) - 1
  return [a, b, c]


def run(chk):
  import concurrent.futures  # pylint: disable=import-outside-toplevel
  thorough = chk.tier == 'thorough'
  sampling.load()                      # exit 2 with a clear message when the tree has no hooks
  chk.rule = ('executions = real pg.sample worker threads run under the deterministic scheduler (hook-level '
              'and line-level, seeded policies) or forced along TLC behaviours of Sampling.tla; each is '
              'validated event by event by TLC (SamplingTrace.tla); distinct = different worker '
              'interleaving (compressed) x configuration x outcome')
  chk.assumptions += [
      'a Python source line is the unit of atomicity (the granularity the property names); a hook call and '
      'the statement before it form one step',
      'rewards are a function of the trial id; users call add_measurement before done (never abandon a trial)',
      'add_measurement racing with a co-worker\'s done() (measurement appended to a finished trial) is outside '
      'the statement and not compared',
      'a worker that opens a new trial after the trial it was shown has finished may run in parallel with a '
      'same-group worker that did the same (strong reading OnePendingPerGroup is documented, not asserted)',
  ]
  pool = concurrent.futures.ThreadPoolExecutor(max_workers=3 if not thorough else 2)
  futs = run_design(chk, chk.tier, pool)
  try:
    variant = detect_variant()
    chk.notes['tree_variant_as_coded'] = variant
    quiet = 0.01 if not thorough else 0.006
    # ---- S -> C
    ce_runs = force_counterexamples(chk, variant, chk.seed)
    sim_runs = simulate_and_force(chk, variant, configs='SimSmall', workers=3, num=70 if not thorough else 800,
                                  seed=chk.seed + 1, tag='small')
    if thorough:
      sim_runs += simulate_and_force(chk, variant, configs='SimBig', workers=8, num=300, seed=chk.seed + 2,
                                     tag='big', depth=2500)
    # ---- C -> S
    hook_runs = scheduled_runs(chk, mode='hook', num=110 if not thorough else 2000, seed=chk.seed,
                               crews=[2, 2, 3, 3, 4, 6, 8], probe_p=1.0 if not thorough else 0.5, quiet=quiet)
    line_runs = scheduled_runs(chk, mode='line', num=24 if not thorough else 300, seed=chk.seed,
                               crews=[2, 2, 3] if not thorough else [2, 2, 3, 3, 4], probe_p=0.5, quiet=quiet)
    all_runs = sim_runs + hook_runs + line_runs
    verdicts = validate(chk, all_runs, variant, 'main')
    # validator self-test on an execution that TLC has just accepted
    base = next((r for r in hook_runs + sim_runs
                 if verdicts[r.name][0] == 'ACCEPT' and r.status == 'done'
                 and any(e['e'] == 'propose' for e in r.events)), None)
    if base is not None:
      extra = self_test_traces(base)
      st = validate(chk, [], variant, 'selftest', extra=extra)
      for t in extra:
        v = st[t['id']]
        chk.require(v[0] == 'STOPPED' and v[1] == t['expect'],
                    f'validator self-test {t["id"]}: expected STOPPED at {t["expect"]}, got {v}')
        chk.count('validator_selftests')
    judge(chk, sim_runs, verdicts, variant, 'forced')
    judge(chk, hook_runs, verdicts, variant, 'hook')
    judge(chk, line_runs, verdicts, variant, 'line')
    if ce_runs:
      ce_verdicts = validate(chk, ce_runs, variant, 'ce', commit_points=False)
      for r in ce_runs:
        chk.require(ce_verdicts[r.name][0] != 'ACCEPT' or r.status != 'done',
                    f'the forced counter-example {r.name} did not show on the code (as-coded variant {variant})')
      judge(chk, ce_runs, ce_verdicts, variant, 'counterexample')
    # ---- samples and vacuity guards
    for r in (hook_runs[:2] + line_runs[:1]):
      v = verdicts[r.name]
      chk.sample({'execution': r.name, 'config': dataclass_dict(r.cfg), 'verdict': list(v)[:3],
                  'events': len(r.events), 'stats': r.stats,
                  'interleaving_head': [f"{e['w']}:{e['e']}" for e in r.events[:40]],
                  'final': {k: x for k, x in (r.final or {}).items() if k != 'text'}})
    if chk.violations:
      return          # exit 1 anyway; the vacuity guards below only make sense for a passing run
    chk.require(base is not None, 'vacuous: no accepted execution for the validator self-test')
    seen = {}
    for r in all_runs:
      if verdicts[r.name][0] == 'ACCEPT':
        for e in r.events:
          seen[e['e']] = seen.get(e['e'], 0) + 1
    chk.notes['events_in_accepted_traces'] = dict(sorted(seen.items()))
    for e in ALL_EVENTS:
      chk.require(seen.get(e, 0) > 0, f'vacuous: no accepted execution contains the event {e}')
    c = chk.counters
    for feat in FEATURES:
      chk.require(c.get('accepted_with_' + feat, 0) > 0 or (feat == 'lookalike_groups' and not thorough),
                  f'vacuous: no accepted execution with configuration feature {feat}')
    chk.require(c.get('negative_probes_blocked', 0) > 0, 'vacuous: no negative probe in forced schedules')
    chk.require(c.get('hook_probes_blocked', 0) > 0, 'vacuous: no negative probe in scheduled runs')
    chk.require(c.get('forced_steps', 0) > 0, 'vacuous: no forced step')
    chk.require(c.get('final_states_compared', 0) > 0, 'vacuous: no final state compared')
    chk.require(c.get('line_yields', 0) > 0, 'vacuous: no line-level scheduling point')
    chk.require(c.get('hook:ACCEPT', 0) > 0 and c.get('line:ACCEPT', 0) > 0 and c.get('forced:ACCEPT', 0) > 0,
                'vacuous: a class of executions has no accepted trace')
  finally:
    collect_design(chk, futs)
    pool.shutdown()
  chk.exhaustive = False


def replay(chk, path: str):
  """Re-executes the execution recorded in a replay file (same configuration, same seed)."""
  data = json.loads(open(path).read())
  d = data.get('detail', {})
  sampling.load()
  variant = detect_variant()
  origin = str(d.get('origin', ''))
  if origin in ('hook', 'line'):
    rc = sampling.RunConfig(**d['config'])
    r = sampling.run_scheduled(rc)
    verdicts = validate(chk, [r], variant, 'replay')
    judge(chk, [r], verdicts, variant, origin)
  elif origin.startswith('sim-') or origin == 'forced':
    if origin == 'forced':
      d = dict(d, index=d['meta']['index'], sim_seed=d['meta']['sim_seed'])
      tag = d['meta']['sim_tag']
    else:
      tag = origin[4:]
    configs, workers, depth = ('SimBig', 8, 2500) if tag == 'big' else ('SimSmall', 3, 900)
    cfg = gen_cfg(f'sim_{tag}', workers=workers, configs=configs, variant=variant,
                  constraints=' '.join(COMMIT_POINTS))
    idx = int(d['index'])
    behaviours, r = tlc.simulate('MCSampling', cfg, num=idx + 1, depth=depth, seed=int(d['sim_seed']),
                                 name='c16-sim-replay', timeout=900)
    chk.add_tlc(r, count_states=False)
    b = behaviours[idx]
    cf = b[0].state['cf']
    res = sampling.run_forced(run_config_of(cf, d['config']['seed']), steps_of(b), warm=bool(cf['warm']))
    if res.violation is not None:
      v = res.violation
      chk.violation({'kind': 'forced', 'clause': v.get('clause'), 'action': v.get('action'),
                     'event': v.get('event')}, {'origin': origin, 'divergence': v, 'replayed': True})
    verdicts = validate(chk, [res], variant, 'replay')
    judge(chk, [res], verdicts, variant, 'forced')
  elif origin == 'counterexample':
    runs = force_counterexamples(chk, variant, chk.seed)
    verdicts = validate(chk, runs, variant, 'replay', commit_points=False)
    judge(chk, runs, verdicts, variant, 'counterexample')
  else:
    raise MachineryFailure(f'replay file {path} has no recognised origin: {origin!r}')
  chk.states = max(chk.states, 1)
  chk.transitions = max(chk.transitions, 1)
