"""C16: TLC decides.  Design-level model checking of Sampling.tla, C->S validation of recorded
executions with SamplingTrace.tla, S->C forcing of TLC behaviours onto the real threads."""
from __future__ import annotations

import json
import random
import time
from typing import Any, Dict, List, Optional, Sequence, Tuple

from . import sampling, sched, tlc
from .core import MachineryFailure, WORK

C16 = WORK / 'c16'

# which mechanism an invariant is about (for the signature of a violation)
MECH = {'OneStudyPerName': 'goc', 'CountersExact': 'setup', 'FeedbackAtMostOnce': 'done',
        'CompletedAtMostOnce': 'done'}


# ------------------------------------------------------------------------------ variant of the tree
def detect_variant() -> Dict[str, bool]:
  """Runs one worker alone and reads off its events whether the three check-then-act mechanisms are
  coded without a lock (True = as at the pinned commit).  Also the hook self-test."""
  cfg = sampling.RunConfig(nw=1, groups=[1], n=1, ops=['done'], evo=True, policy='rr', seed=0)
  r = sampling.run_scheduled(cfg)
  names = [e['e'] for e in r.events]
  need = ['goc_test', 'goc_store', 'setup_test', 'alg_setup_begin', 'alg_setup', 'next_active', 'next_lookup', 'next_status',
          'want_study', 'acquire_study', 'check_max', 'want_alg', 'acquire_alg', 'propose', 'alloc',
          'append_trial', 'release_study', 'sample_reward', 'evo_fitness', 'user_op', 'add_measurement', 'done_test', 'done_set',
          'evo_population', 'release_alg', 'alg_feedback', 'fed', 'complete_counts', 'best_read', 'complete',
          'finish']
  missing = [n for n in need if n not in names]
  if r.status != 'done' or missing:
    raise MachineryFailure(f'hook self-test failed: status={r.status} crash={r.crash} missing events={missing}')
  reg = {e['sec'] for e in r.events if e['e'] == 'acquire_reg'}
  mark = any(e['e'] == 'acquire_study' and e['sec'] == 3 for e in r.events)
  return {'goc': 1 not in reg, 'setup': 2 not in reg, 'done': not mark}


def variant_env(v: Dict[str, bool]) -> Dict[str, str]:
  return {'C16_MIRROR_GOC': '1' if v['goc'] else '0', 'C16_MIRROR_SETUP': '1' if v['setup'] else '0',
          'C16_MIRROR_DONE': '1' if v['done'] else '0'}


# ------------------------------------------------------------------------------ C -> S
def trace_of(r: 'sampling.RunResult') -> dict:
  ev = [dict(e) for e in r.events]
  if r.status == 'done' and r.final and 'error' not in r.final:
    f = r.final
    ev.append({'w': 0, 'e': 'final', 'ids': f['ids'], 'status': f['status'], 'inf': f['inf'],
               'completed': f['completed'], 'pending': f['pending'], 'infeasible': f['infeasible'],
               'best': f['best'], 'active': f['active'], 'nprop': f['nprop'], 'nfb': f['nfb'],
               'size': f['pop']})
  elif r.status == 'deadlock':
    ev.append({'w': 0, 'e': 'deadlock'})
  return {'id': r.name, 'cf': r.cfg.cf(), 'ev': ev}


def validate(chk, runs: Sequence['sampling.RunResult'], variant: Dict[str, bool], tag: str,
             mutate=None) -> Dict[str, tuple]:
  """One TLC run of SamplingTrace.tla over all recorded executions; returns name -> verdict:
  ('ACCEPT', n) | ('INV', clause, k) | ('STOPPED', k, pcs)."""
  traces = [trace_of(r) for r in runs]
  if mutate is not None:
    traces = mutate(traces)
  if not traces:
    return {}
  r = tlc.check_with_json('SamplingTrace', 'C16_trace.cfg', traces, ndjson=True, var='TRACE_FILE',
                          env=variant_env(variant), workers=1, name=f'c16-trace-{tag}', timeout=1500)
  chk.add_tlc(r)
  if not r.ok:
    raise MachineryFailure(f'SamplingTrace.tla: TLC reported {r.violated}:\n{r.out[-2500:]}')
  verdicts: Dict[str, tuple] = {}
  for p in r.prints or []:
    if not isinstance(p, list) or not p:
      continue
    if p[0] == 'INV':
      verdicts[p[1]] = ('INV', str(p[2]), int(p[3]))
  for p in r.prints or []:
    if not isinstance(p, list) or not p:
      continue
    if p[0] == 'ACCEPT':
      verdicts.setdefault(p[1], ('ACCEPT', int(p[2])))
    elif p[0] == 'STOPPED':
      verdicts.setdefault(p[1], ('STOPPED', int(p[2]), [str(x) for x in p[3]]))
  lost = [t['id'] for t in traces if t['id'] not in verdicts]
  if lost:
    raise MachineryFailure(f'no verdict for traces {lost[:5]} ({len(lost)}):\n{r.out[-1500:]}')
  return verdicts


def shape(r: 'sampling.RunResult') -> tuple:
  """What makes two executions different for the evidence count: the interleaving of the workers
  (compressed) and the outcome."""
  order = []
  for e in r.events:
    if not order or order[-1] != e['w']:
      order.append(e['w'])
  f = r.final or {}
  return (r.cfg.nw, tuple(r.cfg.groups), r.cfg.n, tuple(sorted(r.cfg.ops)), r.cfg.evo, tuple(order),
          tuple(f.get('ids', ())), tuple(f.get('inf', ())), f.get('best'))


def judge(chk, runs, verdicts, variant, origin: str):
  """Turns TLC's verdicts into check results."""
  for r in runs:
    v = verdicts[r.name]
    tr = trace_of(r)
    chk.evaluations += len(tr['ev'])
    chk.count(f'{origin}:{v[0]}')
    if r.crash:
      chk.count('worker_crash')
    if v[0] == 'ACCEPT':
      chk.traces += 1
      chk.distinct_case(shape(r))
      if r.status == 'done':
        chk.count('final_states_compared')
      continue
    detail = {'origin': origin, 'run': r.name, 'config': dataclass_dict(r.cfg), 'status': r.status,
              'scheduler': r.violation, 'crash': r.crash, 'stats': r.stats}
    if v[0] == 'INV':
      clause, k = v[1], v[2]
      mech = MECH.get(clause)
      sig = {'kind': 'invariant', 'clause': clause,
             'as_coded': bool(variant.get(mech)) if mech else None}
      detail.update(at_event=k, event=tr['ev'][k - 1] if 0 < k <= len(tr['ev']) else None,
                    trace_tail=tr['ev'][max(0, k - 12):k], final=r.final)
    else:
      k, pcs = v[1], v[2]
      ev = tr['ev'][k] if k < len(tr['ev']) else {'e': 'end-of-trace', 'w': 0}
      w = ev.get('w', 0)
      sig = {'kind': 'reject', 'event': ev['e'], 'pc': pcs[w - 1] if 0 < w <= len(pcs) else 'none'}
      detail.update(matched=k, unmatched_event=ev, pcs=pcs, trace_tail=tr['ev'][max(0, k - 12):k + 1],
                    final=r.final)
    detail['trace'] = tr if len(tr['ev']) <= 400 else None
    chk.violation(sig, detail)


def dataclass_dict(cfg) -> dict:
  import dataclasses  # pylint: disable=import-outside-toplevel
  return dataclasses.asdict(cfg)
