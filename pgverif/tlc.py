"""Running TLC (exhaustive, simulation, export/trace runs) and reading its output."""
from __future__ import annotations

import dataclasses
import os
import re
import shutil
import subprocess
import time
from pathlib import Path
from typing import Any, Dict, List, Optional, Tuple

from . import tlaval

VERIF = Path(__file__).resolve().parent.parent
SPECS = VERIF / 'specs'
WORK = VERIF / '.work'
JAR = '/opt/veriftools/tla/tla2tools.jar'
JARS = JAR + ':/opt/veriftools/tla/CommunityModules-deps.jar'


class TLCError(RuntimeError):
  """TLC itself failed (parse error, crash, timeout): machinery failure."""


@dataclasses.dataclass
class TLCResult:
  cmd: str
  out: str
  wall_s: float
  generated: int = 0
  distinct: int = 0
  depth: int = 0
  ok: bool = True                 # no invariant / property / assumption violated
  violated: Optional[str] = None  # name of the violated invariant/property
  error_trace: Optional[List[dict]] = None
  coverage: Optional[Dict[str, Tuple[int, int]]] = None  # action -> (distinct, taken)
  prints: Optional[List[Any]] = None   # values printed with PrintT / Print

  def summary(self):
    return dict(cmd=self.cmd, states_generated=self.generated,
                distinct_states=self.distinct, depth=self.depth,
                wall_s=round(self.wall_s, 2), ok=self.ok, violated=self.violated)


def workdir(name: str) -> Path:
  # the process id keeps concurrent runs of the same check (e.g. against two trees) apart
  d = WORK / f'{name}.{os.getpid()}'
  if d.exists():
    shutil.rmtree(d, ignore_errors=True)
  d.mkdir(parents=True, exist_ok=True)
  return d


DEFAULT_WORKERS = int(os.environ.get('VERIF_TLC_WORKERS', '16'))


def _java(props: Dict[str, str] = None) -> List[str]:
  cmd = ['java', '-XX:+UseParallelGC', '-Xmx' + os.environ.get('VERIF_TLC_XMX', '6g')]
  for k, v in (props or {}).items():
    cmd.append(f'-D{k}={v}')
  cmd += ['-cp', JARS, 'tlc2.TLC']
  return cmd


_RE_STATS = re.compile(
    r'(\d+) states generated, (\d+) distinct states found')
_RE_DEPTH = re.compile(r'The depth of the complete state graph search is (\d+)')
_RE_VIOL = re.compile(
    r'(?:Invariant|Action property|Temporal properties|property) ?(\S*) (?:is|were) violated')
_RE_COV = re.compile(r'^<(\w+) line (\d+), col \d+ to line \d+, col \d+ of module (\w+)>: (\d+):(\d+)', re.M)


def run(spec: str, cfg: str, *, name: Optional[str] = None, workers: Optional[int] = None,
        timeout: int = 600, env: Optional[Dict[str, str]] = None,
        extra: Optional[List[str]] = None, coverage: bool = False,
        deadlock: bool = False, props: Optional[Dict[str, str]] = None,
        allow_violation: bool = False, cwd: Optional[Path] = None) -> TLCResult:
  """Runs TLC in model-checking mode on specs/<spec>.tla with specs/<cfg>."""
  name = name or f'{spec}-{Path(cfg).stem}'
  workers = workers or DEFAULT_WORKERS
  meta = workdir('tlc/' + name)
  cmd = _java(props) + ['-workers', str(workers), '-metadir', str(meta),
                        '-noGenerateSpecTE', '-config', cfg]
  if not deadlock:
    cmd += ['-deadlock']      # -deadlock = do NOT check for deadlock
  if coverage:
    cmd += ['-coverage', '1']
  cmd += (extra or [])
  cmd += [spec if spec.endswith('.tla') else spec + '.tla']
  e = dict(os.environ)
  e.update(env or {})
  t0 = time.time()
  try:
    p = subprocess.run(cmd, cwd=str(cwd or SPECS), env=e, capture_output=True,
                       text=True, timeout=timeout)
  except subprocess.TimeoutExpired as ex:
    subprocess.run(['pkill', '-f', str(meta)], check=False)
    raise TLCError(f'TLC timeout after {timeout}s: {" ".join(cmd)}') from ex
  finally:
    shutil.rmtree(meta, ignore_errors=True)
  out = p.stdout + p.stderr
  r = TLCResult(cmd=' '.join(cmd[cmd.index('tlc2.TLC'):]).replace('tlc2.TLC', 'tlc'),
                out=out, wall_s=time.time() - t0)
  m = None
  for m in _RE_STATS.finditer(out):
    pass
  if m:
    r.generated, r.distinct = int(m.group(1)), int(m.group(2))
  m = _RE_DEPTH.search(out)
  if m:
    r.depth = int(m.group(1))
  r.prints = parse_prints(out)
  if coverage:
    cov = {}
    for m in _RE_COV.finditer(out):
      cov[m.group(1)] = (int(m.group(4)), int(m.group(5)))
    r.coverage = cov
  viol = _RE_VIOL.search(out)
  if viol or 'Assumption' in out and 'is false' in out:
    r.ok = False
    r.violated = viol.group(1) if viol else 'ASSUME'
    r.error_trace = parse_error_trace(out)
    if not allow_violation:
      return r
    return r
  if 'Error:' in out or p.returncode not in (0,):
    # deadlock reports etc. are errors for us unless a violation was parsed
    if 'Deadlock reached' in out:
      r.ok = False
      r.violated = 'Deadlock'
      r.error_trace = parse_error_trace(out)
      return r
    raise TLCError(f'TLC failed (rc={p.returncode}) for {" ".join(cmd)}\n' + out[-4000:])
  if 'Model checking completed. No error has been found.' not in out and \
     'Finished computing initial states' not in out and r.generated == 0 \
     and 'No error has been found' not in out:
    raise TLCError('TLC did not complete:\n' + out[-3000:])
  return r


_RE_STATE_HDR = re.compile(r'^State (\d+): (.*)$', re.M)


def parse_error_trace(out: str) -> List[dict]:
  """Parses the counter-example TLC prints after a violation."""
  states = []
  parts = _RE_STATE_HDR.split(out)
  # parts = [pre, num, hdr, body, num, hdr, body ...]
  for k in range(1, len(parts) - 2, 3):
    hdr = parts[k + 1]
    body = parts[k + 2]
    # body ends at blank line
    body = body.split('\n\n')[0]
    try:
      st = tlaval.parse_state(body)
    except tlaval.ParseError:
      st = {'_raw': body}
    am = re.match(r'<(\w+)(\(.*\))? line', hdr)
    states.append({'action': am.group(1) if am else hdr.strip('<>'),
                   'args': am.group(2) if am else None, 'state': st})
  return states


def parse_prints(out: str) -> List[Any]:
  """Values printed by PrintT (one TLA+ value per print, bracket matched)."""
  vals = []
  # PrintT output lines start at column 0 with '<<' or '"' or '[' etc.  We only
  # collect sequences, which is what the specs print.
  lines = out.split('\n')
  i = 0
  while i < len(lines):
    ln = lines[i]
    if ln.startswith('<<'):
      buf = ln
      depth = buf.count('<<') - buf.count('>>')
      while depth > 0 and i + 1 < len(lines):
        i += 1
        buf += '\n' + lines[i]
        depth = buf.count('<<') - buf.count('>>')
      try:
        vals.append(tlaval.parse(buf))
      except tlaval.ParseError:
        pass
    i += 1
  return vals


# ---------------------------------------------------------------------------
# Simulation: behaviours written to files, one per behaviour.

_RE_ACT = re.compile(r'^\\\* <(\w+)(?:\((.*)\))? line \d+', re.M)


@dataclasses.dataclass
class Step:
  action: str
  args: List[Any]
  state: Dict[str, Any]


def parse_behaviour_file(text: str) -> List[Step]:
  """Parses one `-simulate file=` output file into steps."""
  steps: List[Step] = []
  # Blocks look like:
  #   \* <Action(args) line .. of module M>      (absent for the initial state)
  #   STATE_n ==
  #   /\ a = ..
  #   /\ b = ..
  blocks = re.split(r'^STATE_\d+ ==\s*$', text, flags=re.M)
  # blocks[0] = header + possibly the label of state 1; label of state k is at
  # the tail of blocks[k-1].
  for k in range(1, len(blocks)):
    prev_tail = blocks[k - 1]
    labels = list(_RE_ACT.finditer(prev_tail))
    body = blocks[k]
    # cut the label of the next state off the body
    cut = body.find('\n\\* <')
    if cut >= 0:
      body_state = body[:cut]
    else:
      body_state = body
    body_state = body_state.split('\n\n')[0]
    body_state = body_state.replace('====', '').strip()
    st = tlaval.parse_state(body_state)
    if labels:
      lab = labels[-1]
      args = tlaval.parse('<<' + lab.group(2) + '>>') if lab.group(2) else []
      steps.append(Step(lab.group(1), args, st))
    else:
      steps.append(Step('Init', [], st))
  return steps


def simulate(spec: str, cfg: str, *, num: int, depth: int, seed: int,
             name: Optional[str] = None, timeout: int = 600,
             env: Optional[Dict[str, str]] = None,
             workers: int = 1) -> Tuple[List[List[Step]], TLCResult]:
  """Runs `tlc -simulate` and returns the behaviours it wrote."""
  name = name or f'sim-{spec}-{Path(cfg).stem}'
  meta = workdir('tlc/' + name)
  outdir = workdir('sim/' + name)
  cmd = _java() + ['-simulate', f'file={outdir}/b,num={num}', '-depth', str(depth),
                   '-workers', str(workers), '-seed', str(seed),
                   '-metadir', str(meta), '-noGenerateSpecTE', '-deadlock',
                   '-config', cfg, spec if spec.endswith('.tla') else spec + '.tla']
  e = dict(os.environ)
  e.update(env or {})
  t0 = time.time()
  try:
    p = subprocess.run(cmd, cwd=str(SPECS), env=e, capture_output=True, text=True,
                       timeout=timeout)
  except subprocess.TimeoutExpired as ex:
    raise TLCError(f'TLC simulate timeout: {" ".join(cmd)}') from ex
  finally:
    shutil.rmtree(meta, ignore_errors=True)
  out = p.stdout + p.stderr
  r = TLCResult(cmd='tlc ' + ' '.join(cmd[cmd.index('tlc2.TLC') + 1:]), out=out,
                wall_s=time.time() - t0)
  viol = _RE_VIOL.search(out)
  if viol:
    r.ok = False
    r.violated = viol.group(1)
    r.error_trace = parse_error_trace(out)
  elif 'Error:' in out and 'violated' not in out:
    raise TLCError('TLC simulate failed:\n' + out[-3000:])
  behaviours = []
  files = sorted(outdir.iterdir(), key=lambda f: [int(x) for x in re.findall(r'\d+', f.name)])
  for f in files:
    behaviours.append(parse_behaviour_file(f.read_text()))
  shutil.rmtree(outdir, ignore_errors=True)
  m = re.search(r'(\d+) states checked', out)
  if m:
    r.generated = int(m.group(1))
  return behaviours, r


# ---------------------------------------------------------------------------
# State-graph dump (dot with action labels) for "one test per transition".

_RE_NODE = re.compile(r'^(-?\d+) \[label="((?:[^"\\]|\\.)*)"(?:,tooltip="((?:[^"\\]|\\.)*)")?(?:,style = filled)?\];?$')
_RE_EDGE = re.compile(r'^(-?\d+) -> (-?\d+) \[label="(.*?)",')


def dump_graph(spec: str, cfg: str, *, name: Optional[str] = None, workers: Optional[int] = None,
               timeout: int = 600, env: Optional[Dict[str, str]] = None):
  """Exhaustive run with `-dump dot,actionlabels`.

  Returns (nodes: id -> state dict, edges: list of (src, dst, action, args), init ids, result).
  """
  name = name or f'dump-{spec}-{Path(cfg).stem}'
  d = workdir('dump/' + name)
  dot = d / 'g'
  r = run(spec, cfg, name=name, workers=workers, timeout=timeout, env=env,
          extra=['-dump', 'dot,actionlabels', str(dot)])
  text = (d / 'g.dot').read_text()
  nodes, edges, inits = {}, [], []
  for ln in text.split('\n'):
    m = _RE_EDGE.match(ln)
    if m:
      lab = m.group(3)
      am = re.match(r'(\w+)(?:\((.*)\))?$', lab.replace('\\"', '"'))
      args = tlaval.parse('<<' + am.group(2) + '>>') if am and am.group(2) else []
      edges.append((m.group(1), m.group(2), am.group(1) if am else lab, args))
      continue
    m = _RE_NODE.match(ln)
    if m:
      raw = m.group(3) if m.group(3) is not None else m.group(2)   # with a VIEW the label is the view, the tooltip the state
      body = raw.replace('\\n', '\n').replace('\\"', '"').replace('\\\\', '\\')
      if m.group(1) in nodes:
        continue
      nodes[m.group(1)] = tlaval.parse_state(body)
      if 'style = filled' in ln:
        inits.append(m.group(1))
  shutil.rmtree(d, ignore_errors=True)
  return nodes, edges, inits, r


def sany(spec: str) -> None:
  p = subprocess.run(['java', '-cp', JARS, 'tla2sany.SANY', spec], cwd=str(SPECS),
                     capture_output=True, text=True)
  if p.returncode != 0 or 'Semantic errors' in p.stdout or 'Parse Error' in p.stdout \
     or 'Fatal errors' in p.stdout or '*** Errors' in p.stdout:
    raise TLCError(f'SANY rejects {spec}:\n{p.stdout[-3000:]}{p.stderr[-1000:]}')


# ---------------------------------------------------------------------------
# Observed-relation pattern: TLC exports a universe (+ reference answers) as JSON; the harness
# evaluates the real functions on it; a second TLC run loads the observed relation and evaluates
# the same TLA+ laws on it.

import json as _json


def export_json(spec: str, cfg: str, *, name: Optional[str] = None, env: Optional[Dict[str, str]] = None,
                timeout: int = 600, workers: int = 1) -> Tuple[Any, TLCResult]:
  """Runs a spec that contains `ASSUME JsonSerialize(IOEnv.OUT_FILE, ...)` and returns the JSON value."""
  name = name or f'export-{spec}-{Path(cfg).stem}'
  d = workdir('export/' + name)
  out = d / 'out.json'
  e = dict(env or {})
  e['OUT_FILE'] = str(out)
  r = run(spec, cfg, name=name, env=e, timeout=timeout, workers=workers)
  data = _json.loads(out.read_text())
  shutil.rmtree(d, ignore_errors=True)
  return data, r


def check_with_json(spec: str, cfg: str, obs: Any, *, name: Optional[str] = None,
                    env: Optional[Dict[str, str]] = None, timeout: int = 900,
                    workers: Optional[int] = None, var: str = 'OBS_FILE', ndjson: bool = False) -> TLCResult:
  """Writes `obs` as JSON (or one JSON value per line), points IOEnv.<var> at it and runs TLC.

  The result is returned even when a law is violated (r.ok False, r.violated, r.error_trace, r.prints)."""
  name = name or f'laws-{spec}-{Path(cfg).stem}'
  d = workdir('obs/' + name)
  f = d / ('obs.ndjson' if ndjson else 'obs.json')
  if ndjson:
    f.write_text('\n'.join(_json.dumps(x) for x in obs) + '\n')
  else:
    f.write_text(_json.dumps(obs))
  e = dict(env or {})
  e[var] = str(f)
  try:
    return run(spec, cfg, name=name, env=e, timeout=timeout, workers=workers, allow_violation=True)
  finally:
    shutil.rmtree(d, ignore_errors=True)
