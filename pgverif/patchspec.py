"""G04 conformance harness: the calls of specs/PatchCases.tla executed on the real pyglove API.

TLC exports the universe of trees, the table of calls (Ops) and what each call must produce (Expected, built
from the documented meaning of Patch.tla).  This module only

  * concretises a TLA+ value as a real tree (pg.Dict / pg.List with change callbacks, A(a) / B(a, x1) objects
    that override _on_change), a condition / value function / visitor as the Python callable the API expects,
    a regex AST as its source text;
  * calls patch_on_key/_path/_value/_type/_member, Symbolic.rebind(callable), get_rebind_dict, pg.query,
    sym_descendants, pg.traverse;
  * projects what happened in the encoding of the spec: the resulting tree, the containers that are still the
    same Python object, the _on_change calls, the values value_fn was called with, the raised error class, the
    key paths of query results (and whether the values are the very objects of the tree), the events of a
    traversal in call order.

No expected value is computed here.
"""
from __future__ import annotations

import concurrent.futures
import json
import multiprocessing
import re
from typing import Any, Dict, List, Optional, Tuple

import pyglove as pg
from pyglove.core.patching import pattern_based as pb
from pyglove.core.symbolic import base as sbase

KEYS = {1: 'a', 2: 'b', 3: 'x1', 4: 'q]'}      # 'q]': a key whose printed path cannot be parsed back
KEYNUM = {v: k for k, v in KEYS.items()}
STRS = {1: 's', 2: 't'}
STRNUM = {v: k for k, v in STRS.items()}

LOG: List[Tuple[tuple, tuple]] = []          # (_on_change calls of the current run: container path, relative update paths)


def path_ints(kp) -> List[int]:
  return [KEYNUM.get(k, -1) if isinstance(k, str) else 100 + int(k) for k in kp.keys]


def _notify(node, updates):
  LOG.append((tuple(path_ints(node.sym_path)), tuple(sorted(tuple(path_ints(k)) for k in updates))))


@pg.members([('a', pg.typing.Any())])
class A(pg.Object):

  def _on_change(self, field_updates):
    super()._on_change(field_updates)
    _notify(self, field_updates)


@pg.members([('a', pg.typing.Any()), ('x1', pg.typing.Any())])
class B(pg.Object):

  def _on_change(self, field_updates):
    super()._on_change(field_updates)
    _notify(self, field_updates)


CLASSES = {1: A, 2: B}
CLASSNUM = {A: 1, B: 2}
TYPES = {'int': int, 'str': str, 'dict': pg.Dict, 'list': pg.List, 'A': A, 'B': B, 'AB': (A, B), 'sym': pg.Symbolic}


def build(v):
  """A TLA+ value as a real (parentless) tree; every container reports its _on_change calls."""
  tag, pl = v
  if tag == 'int':
    return pl
  if tag == 'str':
    return STRS[pl]
  if tag == 'none':
    return None
  if tag == 'list':
    h = {}
    x = pg.List([build(c) for c in pl], onchange_callback=lambda u: _notify(h['n'], u))
    h['n'] = x
    return x
  if tag == 'dict':
    h = {}
    x = pg.Dict({KEYS[k]: build(c) for k, c in pl}, onchange_callback=lambda u: _notify(h['n'], u))
    h['n'] = x
    return x
  if tag == 'obj':
    cls, vals = pl
    if cls == 1:
      return A(a=build(vals[0]))
    return B(a=build(vals[0]), x1=build(vals[1]))
  raise ValueError(v)


def project(x):
  """A real value in the encoding of the spec."""
  if x is None:
    return ['none', 0]
  if isinstance(x, bool):
    return ['?bool', int(x)]
  if isinstance(x, int):
    return ['int', x]
  if isinstance(x, str):
    return ['str', STRNUM.get(x, x)]
  if isinstance(x, pg.List):
    return ['list', [project(v) for _, v in x.sym_items()]]
  if isinstance(x, pg.Dict):
    return ['dict', [[KEYNUM.get(k, k), project(v)] for k, v in x.sym_items()]]
  if isinstance(x, pg.Object) and type(x) in CLASSNUM:
    return ['obj', [CLASSNUM[type(x)], [project(v) for _, v in x.sym_items()]]]
  return ['?' + type(x).__name__, repr(x)[:80]]


def printed_paths(x, kp=None, path=()) -> Dict[str, List[int]]:
  """str(KeyPath) of every location of the tree -> the location (results that carry printed paths are read through it)."""
  kp = pg.KeyPath() if kp is None else kp
  out = {str(kp): list(path)}
  if isinstance(x, pg.Symbolic):
    for k, v in x.sym_items():
      key = KEYNUM.get(k, -1) if isinstance(k, str) else 100 + k
      out.update(printed_paths(v, pg.KeyPath(k, kp), path + (key,)))
  return out


def containers(x, path=()) -> Dict[tuple, Any]:
  out = {}
  if isinstance(x, pg.Symbolic):
    out[path] = x
    for k, v in x.sym_items():
      key = KEYNUM.get(k, -1) if isinstance(k, str) else 100 + k
      out.update(containers(v, path + (key,)))
  return out


def regex_src(r) -> str:
  """The Python source of a regex AST of Patch.tla."""
  kind = r[0]
  if kind == 'c':
    return re.escape(r[1])
  if kind == 'any':
    return '.'
  if kind == 'star':
    inner = regex_src(r[1])
    return (inner if r[1][0] in ('c', 'any') else '(?:' + inner + ')') + '*'
  if kind == 'cat':
    return regex_src(r[1]) + regex_src(r[2])
  raise ValueError(r)


def path_str(p: List[int]) -> str:
  s = ''
  for i, k in enumerate(p):
    if k >= 100:
      s += f'[{k - 100}]'
    else:
      s += ('' if i == 0 else '.') + KEYS[k]
  return s


def leaf(v):
  return build(v)


def cond_fn(c):
  """A condition of the spec as the (key_path, value, parent) callable a user would write."""
  kind = c[0]
  if kind == 'key':
    rx = re.compile(regex_src(c[1]))
    return lambda k, v, p: bool(k and rx.match(str(k.key)))
  if kind == 'path':
    rx = re.compile(regex_src(c[1]))
    return lambda k, v, p: bool(rx.match(str(k)))
  if kind == 'val':
    old = leaf(c[1])
    return lambda k, v, p: bool(v == old)
  if kind == 'type':
    t = TYPES[c[1]]
    return lambda k, v, p: isinstance(v, t)
  if kind == 'member':
    t, name = TYPES[c[1]], KEYS[c[2]]
    return lambda k, v, p: isinstance(p, t) and k.key == name
  if kind == 'patheq':
    s = path_str(c[1])
    return lambda k, v, p: k == s                 # as in the docstring of rebind: lambda k, v: ... if k == 'x.y' ...
  if kind == 'true':
    return lambda k, v, p: True
  if kind == 'false':
    return lambda k, v, p: False
  raise ValueError(c)


def where_fn(w):
  if w == 'any':
    return None
  if w == 'eq1':
    return lambda v: v == 1
  if w == 'int_notA':
    return lambda v, p: isinstance(v, int) and not isinstance(p, A)
  t = TYPES[w]
  return lambda v: isinstance(v, t)


def new_container():
  h = {}
  x = pg.Dict(a=1, onchange_callback=lambda u: _notify(h['n'], u))
  h['n'] = x
  return x


def value_fn_of(vf, calls: List[Any]):
  """The value function of the spec as a callable old value -> new value (recording what it is called with)."""
  if vf[0] == 'const':
    tag = vf[1][0]
    if tag == 'dict':
      def g(v):
        calls.append(v)
        return new_container()
    else:
      c = leaf(vf[1])

      def g(v):
        calls.append(v)
        return c
    return g

  def inc(v):
    calls.append(v)
    return v + 1 if isinstance(v, int) else v
  return inc


def uses_value_fn(vf, form: str) -> bool:
  if vf == ['const', ['none', 0]]:
    return False                                  # neither value nor value_fn: the default value None
  return not (vf[0] == 'const' and vf[1][0] != 'dict' and form == 'value')


def patch_call(src, c, vf, mode: str, calls: List[Any], form: str):
  """patch_on_<kind of c>(src, ..., value / value_fn, skip_notification)."""
  kw = {}
  if uses_value_fn(vf, form):
    kw['value_fn'] = value_fn_of(vf, calls)
  elif vf != ['const', ['none', 0]]:
    kw['value'] = leaf(vf[1])
  if mode == 'skip':
    kw['skip_notification'] = True
  elif mode == 'ctx_off_explicit':
    kw['skip_notification'] = False
  kind = c[0]
  if kind == 'key':
    call = lambda: pb.patch_on_key(src, regex_src(c[1]), **kw)
  elif kind == 'path':
    call = lambda: pb.patch_on_path(src, regex_src(c[1]), **kw)
  elif kind == 'val':
    call = lambda: pb.patch_on_value(src, leaf(c[1]), **kw)
  elif kind == 'type':
    call = lambda: pb.patch_on_type(src, TYPES[c[1]], **kw)
  elif kind == 'member':
    call = lambda: pb.patch_on_member(src, TYPES[c[1]], KEYS[c[2]], **kw)
  else:
    raise ValueError(c)
  if mode in ('ctx_off', 'ctx_off_explicit'):
    with pg.notify_on_change(False):
      return call()
  return call()


def rebinder_of(c, vf, calls: List[Any]):
  cf, g = cond_fn(c), value_fn_of(vf, calls)
  if c[0] == 'member':
    return lambda k, v, p: g(v) if cf(k, v, p) else v          # (key_path, value, parent)
  return lambda k, v: g(v) if cf(k, v, None) else v             # (key_path, value)


def rebind_call(src, c, vf, raise_on_no_change: bool, mode: str, calls: List[Any]):
  fn = rebinder_of(c, vf, calls)
  kw = {}
  if not raise_on_no_change:
    kw['raise_on_no_change'] = False
  if mode == 'skip':
    kw['skip_notification'] = True
  elif mode == 'ctx_off_explicit':
    kw['skip_notification'] = False
  if mode in ('ctx_off', 'ctx_off_explicit'):
    with pg.notify_on_change(False):
      return src.rebind(fn, **kw)
  return src.rebind(fn, **kw)


def safe_at(x, p):
  for k in p:
    if isinstance(x, pg.List):
      i = k - 100
      if k < 100 or i >= len(x):
        return None
      x = x.sym_getattr(i)
    elif isinstance(x, pg.Symbolic):
      key = KEYS.get(k)
      if key is None or not x.sym_hasattr(key):
        return None
      x = x.sym_getattr(key)
    else:
      return None
  return x


def observe_mutation(src, call, fn_form: bool = True) -> Tuple[list, dict]:
  """Runs a patch / rebind call on `src` and projects everything that happened."""
  LOG.clear()
  nodes = containers(src)
  ids = {id(o): p for p, o in nodes.items()}
  calls: List[Any] = []
  ret, err, msg = None, 'ok', ''
  try:
    ret = call(calls)
  except ValueError as e:
    err = 'ValueError'
    msg = str(e)
  except KeyError as e:
    err = 'KeyError'
  except Exception as e:  # pylint: disable=broad-except
    err = 'other:' + type(e).__name__ + ':' + str(e)[:100]
  after = project(src)
  kept = sorted(list(p) for p, o in nodes.items() if safe_at(src, p) is o)
  fresh = all(id(o) not in ids or list(ids[id(o)]) in kept and ids[id(o)] == p for p, o in containers(src).items())
  notif = [[list(c), [list(q) for q in rel]] for c, rel in LOG]
  cproj = [['n', list(ids[id(v)])] if id(v) in ids else project(v) for v in calls]
  flags = {'ret_is_src': err != 'ok' or ret is src, 'fresh': fresh, 'fn_form': fn_form, 'message': msg[:120]}
  return [err, after, kept, notif, cproj], flags


def run_op(tree, op, form: str = 'value') -> Tuple[Any, dict]:
  """One call of the table on a freshly built tree: (observed result in the layout of Expected, flags)."""
  kind = op[0]
  src = build(tree)
  if kind == 'patch':
    return observe_mutation(src, lambda calls: patch_call(src, op[1], op[2], op[3], calls, form), uses_value_fn(op[2], form))
  if kind == 'rebind':
    return observe_mutation(src, lambda calls: rebind_call(src, op[1], op[2], op[3], 'default', calls))
  before = project(src)
  nodes = containers(src)
  ids = {id(o): p for p, o in nodes.items()}
  printed = printed_paths(src)
  flags = {}
  if kind == 'rbdict':
    d = sbase.get_rebind_dict(rebinder_of(op[1], op[2], []), src)
    obs = [[printed.get(str(k), ['?', str(k)]), project(v)] for k, v in d.items()]
  elif kind == 'query':
    c, enter = op[1], op[2]
    if c[0] == 'rw':
      res = pg.query(src, None if c[1] == ['nore'] else regex_src(c[1]), where_fn(c[2]), enter_selected=enter)
    else:
      cf = cond_fn(c)
      sel = cf if c[0] == 'member' else (lambda k, v: cf(k, v, None))
      res = pg.query(src, custom_selector=sel, enter_selected=enter)
    obs = [printed.get(k, ['?', k]) for k in res.keys()]
    flags['ident'] = all(v is safe_at(src, p) for v, p in zip(res.values(), obs))
  elif kind == 'desc':
    res = src.sym_descendants(where_fn(op[1]), getattr(pg.symbolic.DescendantQueryOption, op[2]), op[3])
    obs = [['n', list(ids[id(v)])] if id(v) in ids else project(v) for v in res]
  elif kind == 'trav':
    vis = op[1]
    ev: List[list] = []

    def visitor(which, cond, action):
      cf = cond_fn(cond)

      def fn(k, v, p):
        a = action if cf(k, v, p) else 'ENTER'
        ev.append([which, path_ints(k), a])
        return None if a == 'NONE' else getattr(pg.TraverseAction, a)
      return fn
    ok = pg.traverse(src, visitor('pre', vis['pc'], vis['pa']), visitor('post', vis['qc'], vis['qa']))
    stop = next((i for i, e in enumerate(ev) if e[2] == 'STOP'), len(ev) - 1)
    obs = [[e[:2] for e in ev[:stop + 1]], ok]
    flags['no_pre_after_stop'] = all(e[0] == 'post' for e in ev[stop + 1:])
    flags['full'] = [e[:2] for e in ev]
  else:
    raise ValueError(op)
  flags['pure'] = project(src) == before and all(safe_at(src, p) is o for p, o in nodes.items())
  return obs, flags


def op_name(op) -> str:
  if op[0] == 'patch':
    return {'key': 'patch_on_key', 'path': 'patch_on_path', 'val': 'patch_on_value', 'type': 'patch_on_type',
            'member': 'patch_on_member'}[op[1][0]]
  return {'rebind': 'rebind', 'rbdict': 'get_rebind_dict', 'query': 'query', 'desc': 'sym_descendants',
          'trav': 'traverse'}[op[0]]


def arg_class(op) -> str:
  """A coarse class of the arguments, for the signature of a violation."""
  k = op[0]
  if k in ('patch', 'rebind', 'rbdict'):
    vf = op[2]
    vfn = 'inc' if vf[0] != 'const' else {'int': 'leaf', 'none': 'none', 'dict': 'container'}[vf[1][0]]
    extra = ''
    if k == 'patch' and op[3] != 'default':
      extra = '/' + op[3]
    if k == 'rebind':
      extra = '/raise' if op[3] else '/noraise'
    return f'{op[1][0]}/{vfn}{extra}'
  if k == 'query':
    return ('rw' if op[1][0] == 'rw' else 'custom:' + op[1][0]) + ('/enter' if op[2] else '/noenter')
  if k == 'desc':
    return f'{op[2]}/' + ('self' if op[3] else 'noself')
  v = op[1]
  return f'pre:{v["pa"]}/post:{v["qa"]}'


def zone_of(tree, sel, exp_err, obs, flags) -> str:
  """Zone of a recorded finding the violation falls in ('-' if none).

  unparseable-key (G04-F1): a written location lies at or below the key 'q]', the call was expected to succeed and
  instead raised the KeyPath parse error before writing anything."""
  if (exp_err == 'ok' and any(4 in p for p in sel) and obs[0] == 'ValueError' and obs[1] == tree
      and 'KeyPath parse failed' in flags.get('message', '')):
    return 'unparseable-key'
  return '-'


def compare(op, exp, obs, flags) -> List[str]:
  """The fields in which the observation differs from what TLC exported (empty: conforms)."""
  bad = []
  k = op[0]
  if k in ('patch', 'rebind'):
    if obs[0] != exp[0]:
      bad.append('error')
    if obs[1] != exp[1]:
      bad.append('tree')
    if sorted(obs[2]) != sorted(exp[2]) or not flags['fresh']:
      bad.append('identity')
    eset = sorted((tuple(c), tuple(sorted(map(tuple, r)))) for c, r in exp[3])
    oset = sorted((tuple(c), tuple(sorted(map(tuple, r)))) for c, r in obs[3])
    if eset != oset:
      bad.append('notification')
    if flags['fn_form'] and obs[4] != exp[4]:
      bad.append('value_fn_calls')
    if not flags['ret_is_src']:
      bad.append('returns_src')
    return bad
  if k == 'trav':
    if obs[0] != exp[0]:
      bad.append('events')
    if obs[1] != exp[1]:
      bad.append('returned_flag')
    if not flags['no_pre_after_stop']:
      bad.append('visits_after_stop')
  elif obs != exp:
    bad.append('result')
  if k == 'query' and not flags['ident']:
    bad.append('value_identity')
  if not flags['pure']:
    bad.append('purity')
  return bad


# ---------------------------------------------------------------------------
# bulk comparison of one exported slice (forked)

_SLICE: dict = {}


def _work(rng: Tuple[int, int]):
  data = _SLICE
  ops, trees = data['ops'], data['trees']
  bad, n, stats = [], 0, {}
  for k in range(*rng):
    ti = data['slice'][k]
    tree = trees[ti - 1]
    for j, op in enumerate(ops):
      exp = data['exp'][k][j]
      forms = ('value', 'fn') if op[0] == 'patch' and op[2][0] == 'const' and op[2][1][0] == 'int' else ('value',)
      for form in forms:
        obs, flags = run_op(tree, op, form)
        n += 1
        diff = compare(op, exp, obs, flags)
        if diff:
          bad.append((ti, j, form, diff, obs, {kk: vv for kk, vv in flags.items() if kk != 'full'}))
      key = op[0]
      stats[key] = stats.get(key, 0) + 1
      if op[0] in ('patch', 'rebind'):
        st = 'mut:' + exp[0] + (':changed' if exp[1] != tree else ':same')
        stats[st] = stats.get(st, 0) + 1
        if exp[3]:
          stats['notified'] = stats.get('notified', 0) + 1
        if exp[0] == 'ok' and len(exp[2]) < len(containers_of_value(tree)):
          stats['container_replaced'] = stats.get('container_replaced', 0) + 1
      elif op[0] == 'trav' and not exp[1]:
        stats['trav:stopped'] = stats.get('trav:stopped', 0) + 1
      elif op[0] in ('query', 'desc', 'rbdict') and exp:
        stats[op[0] + ':nonempty'] = stats.get(op[0] + ':nonempty', 0) + 1
  return bad, n, stats


def containers_of_value(v) -> int:
  tag, pl = v
  if tag == 'list':
    return [1] + [x for c in pl for x in containers_of_value(c)]
  if tag == 'dict':
    return [1] + [x for _, c in pl for x in containers_of_value(c)]
  if tag == 'obj':
    return [1] + [x for c in pl[1] for x in containers_of_value(c)]
  return []


def compare_slice(data: dict, procs: int) -> Tuple[list, int, dict]:
  """Runs every call of the table on every tree of the slice and compares with the exported expectation."""
  global _SLICE
  _SLICE = data
  n = len(data['slice'])
  step = max(1, n // (procs * 4) + 1)
  ranges = [(a, min(n, a + step)) for a in range(0, n, step)]
  bad, total, stats = [], 0, {}
  if procs <= 1:
    results = [_work(r) for r in ranges]
  else:
    ctx = multiprocessing.get_context('fork')
    with concurrent.futures.ProcessPoolExecutor(max_workers=procs, mp_context=ctx) as ex:
      results = list(ex.map(_work, ranges))
  for b, c, st in results:
    bad += b
    total += c
    for k, v in st.items():
      stats[k] = stats.get(k, 0) + v
  _SLICE = {}
  return bad, total, stats


def check_regex_engine(data: dict) -> Tuple[List[dict], int]:
  """The regex engine of Patch.tla against Python's `re` (match / fullmatch / search) on every string of the universe."""
  bad, n = [], 0
  for r, ast in enumerate(data['regexes']):
    rx = re.compile(regex_src(ast))
    for s, chars in enumerate(data['strings']):
      text = ''.join(chars)
      got = [int(bool(rx.match(text))), int(bool(rx.fullmatch(text))), int(bool(rx.search(text)))]
      n += 1
      if got != data['retable'][r][s]:
        bad.append({'regex': regex_src(ast), 'string': text, 'python': got, 'spec': data['retable'][r][s]})
  return bad, n


# ---------------------------------------------------------------------------
# the relation handed back to TLC (PatchObs.tla)

def obs_ops(data: dict) -> List[int]:
  """The calls whose observed results TLC relates to each other: every sym_descendants call, the query calls without a
  regex and the custom selectors without entering, query('.*', enter_selected=True), the plain traversal, and the
  patches that put a fresh container (default mode) or a leaf (the other notification modes)."""
  keep = []
  for j, op in enumerate(data['ops']):
    k = op[0]
    if k == 'desc':
      keep.append(j)
    elif k == 'query' and (op[1][0] != 'rw' or op[1][1] == ['nore'] or (op[1][1] == ['star', ['any']] and op[1][2] == 'any')):
      keep.append(j)
    elif k == 'trav' and op[1]['pc'] == ['false'] and op[1]['qc'] == ['false']:
      keep.append(j)
    elif k == 'patch' and (op[2] == ['const', ['dict', [[1, ['int', 1]]]]] or op[3] != 'default'):
      keep.append(j)
    elif k == 'rbdict' and op[2] == ['const', ['dict', [[1, ['int', 1]]]]]:
      keep.append(j)
  return keep


_OBS: dict = {}


def _obs_rows(rng: Tuple[int, int]):
  rows = []
  for ti in range(*rng):
    tree = _OBS['trees'][ti]
    row = []
    for j in _OBS['keep']:
      op = _OBS['ops'][j]
      obs, flags = run_op(tree, op, 'fn')
      if op[0] == 'trav':
        obs = [flags['full'], obs[1]]
      row.append(obs)
    rows.append(row)
  return rows


def observe_relation(data: dict, procs: int) -> dict:
  global _OBS
  keep = obs_ops(data)
  _OBS = {'trees': data['trees'], 'ops': data['ops'], 'keep': keep}
  n = len(data['trees'])
  step = max(1, n // (procs * 4) + 1)
  ranges = [(a, min(n, a + step)) for a in range(0, n, step)]
  if procs <= 1:
    parts = [_obs_rows(r) for r in ranges]
  else:
    ctx = multiprocessing.get_context('fork')
    with concurrent.futures.ProcessPoolExecutor(max_workers=procs, mp_context=ctx) as ex:
      parts = list(ex.map(_obs_rows, ranges))
  _OBS = {}
  return {'n': n, 'opix': [j + 1 for j in keep], 'rows': [r for p in parts for r in p]}


# ---------------------------------------------------------------------------
# histories: TLC-simulated sequences of patch / rebind calls on ONE object

def _norm(x):
  if isinstance(x, (list, tuple)):
    return [_norm(v) for v in x]
  if isinstance(x, (set, frozenset)):
    return sorted((_norm(v) for v in x), key=repr)
  if isinstance(x, dict):
    return {k: _norm(v) for k, v in x.items()}
  return x


def replay_history(steps) -> Tuple[Optional[dict], int, Dict[str, int]]:
  """Replays one behaviour (boot, chunk, init, apply...) on one live object; compares after every call."""
  src = None
  hist = []
  hits: Dict[str, int] = {}
  n = 0
  for st in steps:
    act = _norm(st.state['act'])
    if act[0] in ('boot', 'chunk'):
      continue
    tree = _norm(st.state['tree'])
    if act[0] == 'init':
      src = build(tree)
      hist.append(['init', tree])
      continue
    _, c, vf, api, mode = act
    hist.append(act)
    out = _norm(st.state['out'])
    before = project(src)
    if api == 'patch':
      obs, flags = observe_mutation(src, lambda calls: patch_call(src, c, vf, mode, calls, 'value'))
    else:
      obs, flags = observe_mutation(src, lambda calls: rebind_call(src, c, vf, api == 'rebind', mode, calls))
    n += 1
    exp_notif = sorted((tuple(x[0]), tuple(sorted(map(tuple, x[1])))) for x in out['notif'])
    got_notif = sorted((tuple(cc), tuple(sorted(map(tuple, r)))) for cc, r in obs[3])
    bad = []
    if obs[0] != out['err']:
      bad.append('error')
    if obs[1] != tree:
      bad.append('tree')
    if sorted(obs[2]) != sorted(out['kept']) or not flags['fresh']:
      bad.append('identity')
    if exp_notif != got_notif:
      bad.append('notification')
    if not flags['ret_is_src']:
      bad.append('returns_src')
    hits[api] = hits.get(api, 0) + 1
    hits['err:' + out['err']] = hits.get('err:' + out['err'], 0) + 1
    if out['err'] == 'ok' and out['sel']:
      hits['changed'] = hits.get('changed', 0) + 1
    if out['notif']:
      hits['notified'] = hits.get('notified', 0) + 1
    hits['mode:' + mode] = hits.get('mode:' + mode, 0) + 1
    if bad:
      op = ['patch', c, vf, mode] if api == 'patch' else ['rebind', c, vf, api == 'rebind']
      return ({'fields': bad, 'op': op, 'history': hist, 'step': len(hist) - 1, 'expected': {'tree': tree, **out},
               'zone': zone_of(before, out['sel'], out['err'], obs, flags), 'message': flags.get('message', ''),
               'observed': {'err': obs[0], 'tree': obs[1], 'kept': obs[2], 'notif': obs[3]}}, n, hits)
  return None, n, hits


# ---------------------------------------------------------------------------
# description of a case for samples / violation details

def source(v) -> str:
  tag, pl = v
  if tag == 'int':
    return str(pl)
  if tag == 'str':
    return repr(STRS.get(pl, pl))
  if tag == 'none':
    return 'None'
  if tag == 'list':
    return 'pg.List([' + ', '.join(source(c) for c in pl) + '])'
  if tag == 'dict':
    return 'pg.Dict({' + ', '.join(f'{KEYS.get(k, k)!r}: {source(c)}' for k, c in pl) + '})'
  if tag == 'obj':
    return ('A' if pl[0] == 1 else 'B') + '(' + ', '.join(source(c) for c in pl[1]) + ')'
  return repr(v)


def cond_src(c) -> str:
  k = c[0]
  if k in ('key', 'path'):
    return f'{k} ~ {regex_src(c[1])!r}'
  if k == 'val':
    return f'value == {source(c[1])}'
  if k == 'type':
    return f'isinstance(v, {c[1]})'
  if k == 'member':
    return f'member {KEYS[c[2]]!r} of {c[1]}'
  if k == 'patheq':
    return f'k == {path_str(c[1])!r}'
  if k == 'rw':
    return f'path_regex={None if c[1] == ["nore"] else regex_src(c[1])!r}, where={c[2]}'
  return k


def describe(tree, op) -> dict:
  k = op[0]
  d = {'tree': source(tree), 'call': op_name(op)}
  if k in ('patch', 'rebind', 'rbdict'):
    d['condition'] = cond_src(op[1])
    vf = op[2]
    d['value_fn'] = 'v + 1 if int else v' if vf[0] != 'const' else 'const ' + source(vf[1])
    if k == 'patch':
      d['mode'] = op[3]
    if k == 'rebind':
      d['raise_on_no_change'] = op[3]
  elif k == 'query':
    d['selector'] = cond_src(op[1])
    d['enter_selected'] = op[2]
  elif k == 'desc':
    d.update(where=op[1], option=op[2], include_self=op[3])
  else:
    v = op[1]
    d['preorder'] = f'{v["pa"]} where {cond_src(v["pc"])}'
    d['postorder'] = f'{v["qa"]} where {cond_src(v["qc"])}'
  return d
