"""C16 harness: runs pg.sample workers under the deterministic scheduler and records hook events.

This module only drives the real code and projects what it observes into the vocabulary of
specs/Sampling.tla (one hook event = one action).  All judgements are made by TLC
(pgverif/sampling_check.py).
"""
from __future__ import annotations

import dataclasses
import importlib
import importlib.util
import random
import re
from typing import Any, Dict, List, Optional, Sequence

from . import sched
from .core import MachineryFailure

HOOK_MODULE = 'pyglove.core.utils._verif_hooks'
TRACE_FILES = ('pyglove/core/tuning/local_backend.py', 'pyglove/core/tuning/sample.py',
               'pyglove/core/tuning/protocols.py', 'pyglove/core/geno/dna_generator.py',
               'pyglove/ext/evolution/base.py')
OPS = ('done', 'skip', 'early', 'done_end')
REWARD = (2, 3, 3, 1, 2, 3, 1, 2, 3, 1, 2, 3)
UNBOUNDED = 99        # num_examples=None in the specification's configuration

_pg = None
_hooks = None


def load():
  """Imports pyglove and the hook module; a tree without hooks is a machinery failure (exit 2)."""
  global _pg, _hooks
  if _pg is not None:
    return _pg, _hooks
  if importlib.util.find_spec(HOOK_MODULE) is None:
    raise MachineryFailure(
        'C16 needs the verification hooks, which this tree does not have: '
        f'{HOOK_MODULE} is missing.  Apply /verif/.work/proposed_fixes/C16-hooks.patch to the '
        'repository (add-only, inert without PYGLOVE_VERIF=1), or point VERIF_REPO at a tree that has it.')
  hooks = importlib.import_module(HOOK_MODULE)
  if not getattr(hooks, 'ENABLED', False):
    raise MachineryFailure('hooks present but disabled: PYGLOVE_VERIF=1 must be set before pyglove is imported')
  import pyglove as pg  # pylint: disable=import-outside-toplevel
  import pyglove.ext.evolution  # pylint: disable=import-outside-toplevel,unused-import
  _pg, _hooks = pg, hooks
  return pg, hooks


@dataclasses.dataclass
class RunConfig:
  nw: int
  groups: Sequence[Any]          # the group id worker w passes to pg.sample (None, int or str)
  n: Optional[int]               # num_examples (0 is legal; None = unbounded)
  ops: Sequence[str]
  evo: bool
  serial_start: bool = False     # constructors run one after the other
  mode: str = 'hook'             # 'hook' | 'line'
  policy: str = 'random'
  seed: int = 0
  probe_p: float = 1.0
  name_kind: str = 'unique'      # 'unique' (a fresh name), 'empty' (name=''), 'none' (name=None)

  def group_codes(self) -> List[int]:
    """The declared groups as the specification sees them: one code per distinct group id (Python
    equality, i.e. 0 and '' and '0' are three groups), a code of its own for every worker that passes
    None (per-thread default)."""
    codes: Dict[Any, int] = {}
    out = []
    for w, g in enumerate(self.groups, 1):
      if g is None:
        out.append(100 + w)
      else:
        out.append(codes.setdefault((type(g).__name__, g), 10 + len(codes)))
    return out

  def cf(self) -> dict:
    return {'nw': self.nw, 'groups': self.group_codes(), 'n': UNBOUNDED if self.n is None else self.n,
            'ops': sorted(self.ops), 'reward': list(REWARD), 'evo': bool(self.evo), 'warm': False,
            'named': self.name_kind != 'none'}


_INT_FIELDS = ('id', 'has', 'sid', 'sec', 'found', 'needed', 'active', 'latest', 'reuse', 'stop', 'n', 'pending',
               'completed', 'infeasible', 'best', 'nprop', 'nfb', 'size', 'ok', 'group', 'crash')


class Recorder:
  """Tracer installed into the hooks; filters and normalises events, maps object ids to small ints."""

  def __init__(self, scheduler: sched.Scheduler, algorithm):
    self.s = scheduler
    self.aid = id(algorithm)
    self.sid_owner: Dict[int, int] = {}      # id(study) -> worker that stored it

  def classify(self, event: str, f: dict) -> sched.Info:
    if 'aid' in f and f['aid'] != self.aid:
      return sched.Info(ignore=True)         # the population initialiser inside an evolution
    if event == 'want_study':
      return sched.Info(want=('study', f['sid']))
    if event == 'acquire_study':
      return sched.Info(acquire=('study', f['sid']))
    if event == 'release_study':
      return sched.Info(release=[('study', f['sid'])])
    if event == 'check_max' and f.get('stop'):
      # StopIteration leaves the `with` block: the lock is free once this worker moves on, and it
      # does not touch anything shared before it ends
      w = self.s.worker_id()
      held = [k for k, h in self.s.holder.items() if h == w and k[0] == 'study']
      return sched.Info(release=held, hold=True)
    if event == 'want_alg':
      return sched.Info(want=('alg', f['aid']))
    if event == 'acquire_alg':
      return sched.Info(acquire=('alg', f['aid']))
    if event == 'evo_proposed':
      # last statement inside `with self._lock` of Evolution._propose: the lock is released by the
      # `return`; the worker keeps the token until the `propose` event that follows
      return sched.Info(want=None, hold=True)
    if event in ('release_alg', 'propose'):
      return sched.Info(release=[('alg', f['aid'])])
    if event == 'want_reg':
      return sched.Info(want=('reg', 0))
    if event == 'acquire_reg':
      return sched.Info(acquire=('reg', 0))
    if event == 'release_reg':
      return sched.Info(release=[('reg', 0)])
    return sched.Info()

  def tracer(self, event: str, fields: dict):
    self.s.emit(event, fields)

  def normalise(self, events: List[dict], group_strings: Dict[int, tuple], named: bool = True) -> List[dict]:
    """Spec vocabulary: study ids become the worker that created the study; the group the backend
    recorded (logged as str(group_id)) becomes the code of the declared group it stands for:
    `group_strings[w] = (str of the group worker w must end up in, code)`; 999 = nobody's group."""
    owner: Dict[int, int] = {}
    out = []

    def group_code(w, logged):
      mine = group_strings.get(w)
      if mine is not None and mine[0] == logged:
        return mine[1]
      for v, (txt, code) in sorted(group_strings.items()):
        if txt == logged:
          return code
      return 999
    for ev in events:
      if ev['e'] == 'evo_proposed':
        continue
      e = {'w': ev['w'], 'e': ev['e'], 'opname': ev.get('opname', '')}
      if ev.get('sid'):
        # a study belongs to the worker that mentions it first: the one that stored it under the name
        # (goc_store) or, for name=None, the only worker that may ever see it
        owner.setdefault(ev['sid'], ev['w'])
      if ev['e'] == 'finish' and not named:
        # a private study dies with its worker; CPython may hand its id() to the next private study
        for k in [k for k, v in owner.items() if v == ev['w']]:
          del owner[k]
      for k in _INT_FIELDS:
        v = ev.get(k, 0)
        if k == 'sid':
          v = owner.get(v, 0) if v else 0
        elif k == 'group':
          v = group_code(ev['w'], str(v)) if ev['e'] == 'append_trial' else 0
        e[k] = int(v)
      out.append(e)
    return out


class AlwaysStop:
  """Created lazily (needs pyglove)."""
  cls = None

  @classmethod
  def make(cls):
    pg, _ = load()
    if cls.cls is None:
      from pyglove.core.tuning.early_stopping import EarlyStoppingPolicy  # pylint: disable=import-outside-toplevel

      class _AlwaysStop(EarlyStoppingPolicy):

        def should_stop_early(self, trial):
          return True
      cls.cls = _AlwaysStop
    return cls.cls()


def make_algorithm(evo: bool):
  pg, _ = load()
  if not evo:
    return pg.geno.Random(seed=1)
  from pyglove.ext.evolution import base, mutators, selectors  # pylint: disable=import-outside-toplevel
  return base.Evolution(
      selectors.Random(1, seed=1) >> mutators.Uniform(seed=1),
      population_init=(pg.geno.Random(seed=1), 1),
      population_update=selectors.Last(1000))


_run_counter = [0]


@dataclasses.dataclass
class RunResult:
  cfg: RunConfig
  name: str
  status: str
  events: List[dict]            # normalised
  final: Optional[dict]
  violation: Optional[dict]
  stats: dict
  crash: Dict[int, str]
  meta: Optional[dict] = None   # where the execution came from (for replay files)


class Session:
  """One execution of nw workers on one fresh named study."""

  def __init__(self, cfg: RunConfig, quiet: float = 0.01):
    pg, hooks = load()
    self.pg, self.hooks = pg, hooks
    self.cfg = cfg
    _run_counter[0] += 1
    self.name = {'unique': f'c16-{_run_counter[0]}', 'empty': '', 'none': None}[cfg.name_kind]
    self.label = f'c16-{_run_counter[0]}'
    self.idents: Dict[int, int] = {}
    self.algorithm = make_algorithm(cfg.evo)
    self.space = pg.Dict(x=pg.oneof([1, 2, 3, 4, 5]))
    self.s = sched.Scheduler(lambda e, f: self.rec.classify(e, f), mode=cfg.mode, quiet=quiet,
                             trace_files=TRACE_FILES)
    self.rec = Recorder(self.s, self.algorithm)
    self.forced_op: Dict[int, Optional[str]] = {}
    self.rngs = {w: random.Random(f'{cfg.seed}/op/{w}') for w in range(1, cfg.nw + 1)}

  def worker(self, w: int):
    pg, cfg = self.pg, self.cfg
    kwargs = {}
    if 'early' in cfg.ops:
      # one policy object per worker: the backend compares the policy's DNASpec by identity
      kwargs['early_stopping_policy'] = AlwaysStop.make()
    import threading  # pylint: disable=import-outside-toplevel
    self.idents[w] = threading.get_ident()
    # every worker passes its own (equal, not identical) name object
    name = ''.join(list(self.name)) if self.name else self.name
    mine = 0
    for _, fb in pg.sample(self.space, self.algorithm, num_examples=cfg.n, name=name,
                           group=cfg.groups[w - 1], **kwargs):
      mine += 1
      op = self.forced_op.get(w) or self.rngs[w].choice(sorted(cfg.ops))
      if cfg.n is None and mine >= 3 and 'done_end' in cfg.ops and not self.forced_op.get(w):
        op = 'done_end'            # an unbounded loop is ended by the workers
      self.forced_op[w] = None
      self.s.emit('user_op', {'opname': op})
      reward = float(REWARD[fb.id - 1]) if 0 < fb.id <= len(REWARD) else 0.0
      if op != 'skip':
        with fb.ignore_race_condition():
          fb.add_measurement(reward, step=1)
      if op == 'early':
        fb.should_stop_early()
        fb.skip()
      elif op == 'skip':
        fb.skip()
      else:
        fb.done()
        if op == 'done_end':
          fb.end_loop()

  def fns(self):
    return [self.worker for _ in range(self.cfg.nw)]

  def __enter__(self):
    self.hooks.install(self.rec.tracer)
    return self

  def __exit__(self, *a):
    self.s.join()
    self.hooks.install(None)
    from pyglove.core.tuning import local_backend  # pylint: disable=import-outside-toplevel
    if self.name is not None:
      local_backend._in_memory_results.pop(self.name, None)  # pylint: disable=protected-access

  # -------------------------------------------------------------- observation through the public API
  def observe_final(self) -> dict:
    pg = self.pg
    if self.name is None:       # private studies: only the shared algorithm can be observed
      alg = self.algorithm
      return {'unnamed': True, 'nprop': int(alg.num_proposals), 'nfb': int(alg.num_feedbacks),
              'pop': len(alg.population) if self.cfg.evo else 0}
    res = pg.poll_result(self.name)
    text = str(res)
    def frac(key):
      m = re.search(key + r"'?[:=]\s*'?(-?\d+)/(\d+)", text)
      return int(m.group(1)) if m else 0
    best = res.best_trial
    alg = self.algorithm
    return {
        'ids': [t.id for t in res.trials],
        'status': [1 if t.status == 'COMPLETED' else 0 for t in res.trials],
        'inf': [1 if t.infeasible else 0 for t in res.trials],
        'completed': frac('COMPLETED'), 'pending': frac('PENDING'), 'infeasible': frac('infeasible'),
        'best': best.id if best is not None else 0,
        'best_reward': int(best.final_measurement.reward) if best is not None else 0,
        'active': 1 if res.is_active else 0,
        'nprop': int(alg.num_proposals), 'nfb': int(alg.num_feedbacks),
        'pop': len(alg.population) if self.cfg.evo else 0,
        'text': text,
    }

  def result(self, status: str) -> RunResult:
    s = self.s
    final = None
    if status == 'done':
      try:
        final = self.observe_final()
      except Exception as e:  # pylint: disable=broad-except
        final = {'error': f'{type(e).__name__}: {e}'}
    codes = self.cfg.group_codes()
    gs = {}
    for w in range(1, self.cfg.nw + 1):
      g = self.cfg.groups[w - 1]
      gs[w] = (str(self.idents.get(w)) if g is None else str(g), codes[w - 1])
    return RunResult(self.cfg, self.label, status, self.rec.normalise(s.events, gs, self.name is not None), final, s.violation,
                     {'events': len(s.events), 'yields': s.yields, 'probes': s.probes,
                      'probes_blocked': s.probes_blocked, 'tokenless': s.tokenless,
                      'unexpected_blocks': s.unexpected_blocks}, dict(s.crash))


def constructor_done(s: sched.Scheduler, w: int) -> bool:
  """Sequential start: worker w has left the backend constructor (its next step is next())."""
  last = s.last.get(w)
  if s.holder.get(('reg', 0)) == w:
    return False
  return last is not None and (last['e'] in ('setup_test', 'alg_setup') and
                               (last['e'] == 'alg_setup' or not last.get('needed'))
                               or last['e'] == 'release_reg' and last.get('sec') == 2)


def run_scheduled(cfg: RunConfig, quiet: float = 0.01) -> RunResult:
  """One execution under a seeded policy."""
  rng = random.Random(f'{cfg.seed}/sched')
  with Session(cfg, quiet) as ses:
    n = 4 if cfg.n is None else max(cfg.n, 1)
    horizon = 40 * n * cfg.nw if cfg.mode == 'hook' else 600 * n
    policy = sched.make_policy(cfg.policy, rng, cfg.nw, horizon)
    status = sched.run_random(ses.s, ses.fns(), policy, rng, probe_p=cfg.probe_p,
                              serial_until=constructor_done if cfg.serial_start else None)
    if status != 'done':
      ses.s.abort()
    return ses.result(status)


# ------------------------------------------------------------------------------------------------
# S -> C: a behaviour of Sampling.tla (from TLC) is forced onto the real threads.

# spec action -> hook event(s) that witness it
EVENT_OF = {
    'GocTest': ('goc_test',), 'GocStore': ('goc_store',), 'AcqReg': ('acquire_reg',), 'RelReg': ('release_reg',),
    'SetupTest': ('setup_test',), 'SetupBegin': ('alg_setup_begin',), 'SetupDo': ('alg_setup',),
    'NextActive': ('next_active',), 'NextLookup': ('next_lookup',), 'NextStatus': ('next_status',),
    'AcqStudy': ('acquire_study',), 'RelStudy': ('release_study',), 'CheckMax': ('check_max',),
    'AcqAlg': ('acquire_alg',), 'Propose': ('propose',), 'Alloc': ('alloc',), 'AppendTrial': ('append_trial',),
    'ReadReward': ('sample_reward',), 'ShortAdd': ('add_measurement',), 'Choose': ('user_op',),
    'AddMeasurement': ('add_measurement',), 'DoneTest': ('done_test', 'skip_test'), 'DoneSet': ('done_set',),
    'SetFitness': ('evo_fitness',), 'EvoPopulation': ('evo_population',), 'RelAlg': ('release_alg',),
    'AlgFeedback': ('alg_feedback',), 'CompleteCounts': ('complete_counts',), 'BestRead': ('best_read',),
    'CompleteDone': ('complete',), 'EndLoop': ('end_loop',),
}
STUTTER = ('want_study', 'want_alg', 'want_reg', 'fed', 'finish', 'evo_proposed')
ACQUIRE_ACTIONS = ('AcqStudy', 'AcqAlg', 'AcqReg')


def _lock_of_step(action: str, w: int, pre: dict):
  """Which specification lock the acquire step (action, w) takes, given the state before it."""
  if action == 'AcqStudy':
    return ('study', pre['myStudy'][w - 1])
  if action == 'AcqAlg':
    return ('alg',)
  if action == 'AcqReg':
    return ('reg',)
  return None


def _spec_holder(lock, state: dict):
  if lock[0] == 'study':
    return state['studyLock'][lock[1] - 1]
  if lock[0] == 'alg':
    return state['algLock']
  return state['regLock']


def _is_null(v) -> bool:
  return v is None or str(v) == 'NULL'


def run_forced(cfg: RunConfig, steps: Sequence, warm: bool, *, tail: bool = True, quiet: float = 0.01,
               probes: bool = True) -> RunResult:
  """Forces the behaviour `steps` (sequence of (action, worker, state_before, state_after)) onto the
  real threads at hook granularity.

  At states where the specification says that a worker's next step (an acquire) is disabled because
  another worker holds the lock, and that worker is the next one to take the lock in the behaviour, a
  negative probe is run: the worker is resumed and must not produce any event.

  The recorded execution is returned for validation by TLC; divergences (the code cannot follow the
  behaviour) are reported in `violation`."""
  rng = random.Random(f'{cfg.seed}/forced')
  with Session(cfg, quiet) as ses:
    s = ses.s
    s.start(ses.fns())
    status = 'done'
    diverged = None
    stats = {'forced_steps': 0, 'probe_opportunities': 0}
    if warm:
      for w in s.workers():
        while s.state[w] != sched.FINISHED and not constructor_done(s, w):
          if s.resume(w) == sched.BLOCKED:
            diverged = {'clause': 'stuck_in_constructor', 'worker': w}
            break
    seen_events = {w: 0 for w in s.workers()}

    def new_events(w, n0):
      return [e for e in s.events[n0:] if e['w'] == w]

    def advance_to_want(w) -> bool:
      """Runs worker w through observation-only events until it is parked just before an acquire."""
      for _ in range(6):
        last = s.last.get(w)
        if last is not None and last['e'].startswith('want_'):
          return True
        n0 = len(s.events)
        st = s.resume(w)
        evs = new_events(w, n0)
        if st != sched.PARKED or any(e['e'] not in STUTTER for e in evs):
          return bool(evs) and evs[-1]['e'].startswith('want_') and all(e['e'] in STUTTER for e in evs)
      return False

    k = 0
    while diverged is None and k < len(steps):
      action, w, pre, post = steps[k]
      # ---- negative probes at this state
      if probes:
        for j in range(k, len(steps)):
          a2, w2, pre2, _ = steps[j]
          if a2 not in ACQUIRE_ACTIONS:
            continue
          lock = _lock_of_step(a2, w2, pre2)
          if lock in stats.setdefault('_probed_locks', set()):
            continue
          # w2 is the next worker to take `lock`; is it waiting for it already, with the lock held?
          stats['_probed_locks'].add(lock)      # look only at the first acquire of each lock from here
          holder = _spec_holder(lock, pre)
          if _is_null(holder) or holder == w2:
            continue
          if any(steps[i][1] == w2 for i in range(k, j)):
            continue                             # w2 still has other steps to take before the acquire
          if s.state.get(w2) != sched.PARKED or w2 in s.reserved.values():
            continue
          stats['probe_opportunities'] += 1
          if not advance_to_want(w2):
            diverged = {'clause': 'no_want_event_before_acquire', 'worker': w2, 'step': j, 'action': a2}
            break
          if not s.probe(w2):
            diverged = {'clause': 'negative_probe', 'worker': w2, 'holder': holder, 'lock': lock[0],
                        'step': k, 'action': a2,
                        'event': s.violation.get('event') if s.violation else None}
            break
        stats['_probed_locks'] = set()
        if diverged:
          break
      # ---- the step itself
      if action == 'Choose':
        ses.forced_op[w] = post['op'][w - 1]
      matched = False
      for _ in range(8):
        n0 = len(s.events)
        st = s.resume(w)
        evs = new_events(w, n0)
        real = [e for e in evs if e['e'] not in STUTTER]
        if real:
          if real[0]['e'] in EVENT_OF[action] and len(real) == 1:
            matched = True
          else:
            diverged = {'clause': 'unexpected_event', 'step': k, 'action': action, 'worker': w,
                        'expected': EVENT_OF[action], 'got': [e['e'] for e in real]}
          break
        if st == sched.FINISHED:
          diverged = {'clause': 'worker_ended', 'step': k, 'action': action, 'worker': w,
                      'crash': s.crash.get(w)}
          break
        if st == sched.BLOCKED:
          diverged = {'clause': 'enabled_but_blocked', 'step': k, 'action': action, 'worker': w}
          break
      else:
        diverged = {'clause': 'no_event', 'step': k, 'action': action, 'worker': w}
      if s.check_intruders() is not None:
        diverged = {'clause': 'negative_probe', 'late': True, 'step': k, **(s.violation or {})}
      if matched:
        stats['forced_steps'] += 1
      k += 1
    stats.pop('_probed_locks', None)
    if diverged is None and tail:
      policy = sched.RoundRobinPolicy(rng, quantum=3)
      status = sched.drive(s, policy, rng, probe_p=1.0)
    elif diverged is not None:
      status = 'diverged'
    if status != 'done':
      s.abort()
    res = ses.result(status)
    res.stats.update(stats)
    if diverged is not None:
      res.violation = diverged
    return res
