"""./check command line."""
from __future__ import annotations

import argparse
import importlib
import json
import os
import pkgutil
import subprocess
import sys
from pathlib import Path

from . import core, tlc

VERIF = Path(__file__).resolve().parent.parent


def prop_modules():
  from . import props  # pylint: disable=import-outside-toplevel
  out = {}
  for m in pkgutil.iter_modules(props.__path__):
    # cNN = listed properties; gNN = spec-growth checks beyond the list (runnable, never in MANIFEST.json)
    if m.name[0] in 'cg' and m.name[1:].isdigit():
      out[m.name.upper()] = f'pgverif.props.{m.name}'
  return dict(sorted(out.items()))


def all_property_ids():
  ids = []
  for ln in (VERIF / 'properties.jsonl').read_text().splitlines():
    if ln.strip():
      ids.append(json.loads(ln)['id'])
  return ids


def build_manifest() -> dict:
  mods = prop_modules()
  checks = []
  claimed = set()
  na = []
  ready_file = VERIF / 'claimed.txt'      # maintained by hand: ids whose checks are finished
  ready = set(ready_file.read_text().split()) if ready_file.exists() else set()
  for pid, name in mods.items():
    if pid not in ready or not pid.startswith('C'):
      continue
    mod = importlib.import_module(name)
    meta = getattr(mod, 'META', None)
    if not meta or meta.get('not_applicable'):
      continue
    claimed.add(pid)
    checks.append({
        'property_id': pid,
        'quick_cmd': f'./check {pid} --tier quick',
        'thorough_cmd': f'./check {pid} --tier thorough',
        'evidence_file': f'/verif/evidence/{pid}.json',
        'replay_cmd_template': f'./check {pid} --replay {{path}}',
        'engine': meta.get('engine', 'tlc'),
        'level_claimed': {
            'category': meta.get('level', 'model_checking'),
            'text': meta['level_text'],
            'design_ref': meta.get('design_ref', 'DESIGN.md §5 ' + pid),
        },
        'level_note': meta['level_note'],
        'technique': meta['technique'],
    })
  na_file = VERIF / 'not_applicable.json'
  na_listed = json.loads(na_file.read_text()) if na_file.exists() else {}
  for pid in all_property_ids():
    if pid not in claimed:
      na.append({'property_id': pid,
                 'reason': na_listed.get(pid, 'check not built yet in this round; no claim is made')})
  hooks_file = VERIF / 'hooks.json'
  hooks = json.loads(hooks_file.read_text()) if hooks_file.exists() else {
      'guard': 'PYGLOVE_VERIF',
      'enable': 'env PYGLOVE_VERIF=1 (pure Python, nothing to rebuild; ./check exports it)',
      'baseline_off_cmd': 'cd /repo && env -u PYGLOVE_VERIF /venv/bin/python -m pytest -ra -q '
                          '-p no:cacheprovider --timeout=900 --continue-on-collection-errors',
      'source_commits': [],
      'add_only': True,
  }
  return {
      'version': 1,
      'setup_cmd': './check --setup',
      'hooks': hooks,
      'engines': [{
          'name': 'tlc',
          'path': '/opt/veriftools/tla/tla2tools.jar',
          'serves_properties': sorted(claimed),
          'kind_free_text': 'TLA+ specifications under /verif/specs checked with TLC 1.8 '
                            '(exhaustive, simulation, trace validation, observed-relation law checks); '
                            'Python conformance drivers under /verif/pgverif bind them to /repo',
      }],
      'checks': checks,
      'notes': 'All checks are `./check <id> --tier quick|thorough`; see DESIGN.md.',
      'not_applicable': na,
  }


def setup() -> int:
  ok = True
  p = subprocess.run(['java', '-cp', tlc.JARS, 'tlc2.TLC', '-h'], capture_output=True, text=True)
  if 'TLC' not in (p.stdout + p.stderr):
    print('setup: TLC not runnable', file=sys.stderr)
    ok = False
  try:
    import pyglove  # pylint: disable=import-outside-toplevel,unused-import
    if not pyglove.__file__.startswith(os.environ.get('VERIF_REPO', '/repo') + '/'):
      print(f'setup: pyglove imported from {pyglove.__file__}, expected /repo', file=sys.stderr)
      ok = False
  except Exception as e:  # pylint: disable=broad-except
    print(f'setup: cannot import pyglove: {e}', file=sys.stderr)
    ok = False
  (VERIF / '.work').mkdir(exist_ok=True)
  (VERIF / 'evidence').mkdir(exist_ok=True)
  # parse every spec once
  bad = 0
  for f in sorted((VERIF / 'specs').glob('*.tla')):
    try:
      tlc.sany(f.name)
    except tlc.TLCError as e:
      print(f'setup: {e}', file=sys.stderr)
      bad += 1
  if bad:
    ok = False
  print('setup ok' if ok else 'setup FAILED')
  return 0 if ok else 2


def main(argv=None) -> int:
  ap = argparse.ArgumentParser()
  ap.add_argument('prop', nargs='?')
  ap.add_argument('--tier', default=os.environ.get('VERIF_TIER', 'quick'),
                  choices=['quick', 'thorough'])
  ap.add_argument('--seed', type=int, default=int(os.environ.get('VERIF_SEED', '0') or 0))
  ap.add_argument('--replay')
  ap.add_argument('--setup', action='store_true')
  ap.add_argument('--manifest', action='store_true')
  args = ap.parse_args(argv)
  if args.setup:
    return setup()
  if args.manifest:
    m = build_manifest()
    (VERIF / 'MANIFEST.json').write_text(json.dumps(m, indent=1) + '\n')
    print(f'MANIFEST.json written: {len(m["checks"])} checks, '
          f'{len(m["not_applicable"])} not claimed')
    return 0
  if not args.prop:
    ap.error('property id required')
  pid = args.prop.upper()
  mods = prop_modules()
  if pid not in mods:
    print(f'no check for {pid}', file=sys.stderr)
    return 2
  mod = importlib.import_module(mods[pid])
  level = mod.META.get('level', 'model_checking')
  if args.replay:
    if not hasattr(mod, 'replay'):
      print(f'{pid} has no replay entry point', file=sys.stderr)
      return 2
    return core.run_check(pid, lambda chk: mod.replay(chk, args.replay), args.tier, args.seed, level,
                          write_evidence=False)
  return core.run_check(pid, mod.run, args.tier, args.seed, level)


if __name__ == '__main__':
  sys.exit(main())
