"""C05 driver, serialisation half: builds every value of the universe exported by specs/CodecModel.tla with the
real API (several concretisations of each atom class), sends it through to_json/from_json (object and string
form), pickle and copy.deepcopy, and projects the results back into the encoding of specs/Codec.tla.  The
verdict is TLC's (specs/CodecLaws.tla evaluates the round-trip law on the observed rows).
"""
from __future__ import annotations

import copy
import functools
import inspect
import math
import os
import pickle
from typing import Any, Dict, List, Optional

import pyglove as pg


# ---- test classes (module level: their type names must be importable by from_json) ---------------

@pg.members([('x', pg.typing.Any())])
class A(pg.Object):
  pass


@pg.members([('x', pg.typing.Any()), ('y', pg.typing.Int())])
class B(pg.Object):
  pass


@pg.members([
    ('items', pg.typing.List(pg.typing.Int(min_value=0), max_size=3)),
    ('opts', pg.typing.Dict([('k', pg.typing.Int(default=1)), ('s', pg.typing.Str().noneable())])),
    ('t', pg.typing.Tuple([pg.typing.Int(), pg.typing.Str()]).noneable()),
])
class Typed(pg.Object):
  """Typed containers as fields: their schema comes back from the class."""


def sample_fn(x):
  return x


class PlainClass:
  """A class referred to by name."""

  def method(self):
    return 1


@pg.functor([('a', pg.typing.Int())])
def sample_functor(a=1):
  return a


TYPE_NAMES = {61: f'{A.__module__}.A', 62: f'{B.__module__}.B', 63: 'no.such_module.Klass'}

# ---- concretisation pools (index = concretisation number, taken modulo the pool length) -------------

NAN = float('nan')
LEAF_POOL: Dict[int, list] = {
    1: [None],
    2: [True, False],
    3: [7, -1, 2 ** 70, 0],
    4: [1.5, -0.0, 1e300, 5e-324],
    5: [NAN, float('inf'), float('-inf')],
    6: ['abc', '', 'a b', 'None'],
    7: ['\x00\x1f\x7f', '\n\t"\\/', '\U0001F600é中', '\ud800', '  '],
    10: ['__tuple__'],
    11: ['__tuple__x', '__tuple_', ' __tuple__', '__TUPLE__'],
    12: ['n_:1', 'n_:-3', 'n_:0'],
    13: ['_type'],
}
# int key 41 and its escaped look-alike 32 go together
INT_A = [1, -3, 0, 10 ** 20]
KEY_POOL: Dict[int, list] = {
    31: ['a', 'k1', 'with space', 'x.y[0]'],
    33: ['n_:x', 'n_:', 'n_:1.5', 'n_:0x1'],
    34: ['n_', 'n_1', 'n_x1', 'N_:1', 'xn_:1', 'n:_1', 'n_;1', 'n_11', 'n__1'],
    35: ['_type'],
    36: ['_type_', 'type', '__type', '_Type', ' _type'],
    37: ['__tuple__'],
    38: ['é\n', '\x00', '\U0001F600', '', '"', '\\'],
    42: [5, 123456789012345678901234567890, -7, 2],
    51: ['x'],
    52: ['y'],
}


# ---- callables of every definition scope -----------------------------------------------------------------

MODULE_LAMBDA = lambda x, k=2: x * k            # pylint: disable=unnecessary-lambda-assignment


def to_int(v):
  return int(v)


def to_sorted_list(v):
  return sorted(v)


def as_tuple(v):
  return tuple(v)


def as_dict(v):
  return dict(v)


def identity(v):
  return v


class Scopes:
  """Callables defined in a class body."""
  body_lambda = lambda self, x: x * 3           # pylint: disable=unnecessary-lambda-assignment

  def meth(self, x):
    return x

  @classmethod
  def class_method(cls, x):
    return (cls.__name__, x)

  @staticmethod
  def static_method(x):
    return [x]


def _make_nested():
  def nested_def(x):
    return (x, 'nested')
  return nested_def, (lambda x: (x, 'nested lambda'))


NESTED_DEF, NESTED_LAMBDA = _make_nested()
CALL_ARGS = [(3,), ('ab',), ([2, 1],)]


def call_outcomes(f, args_list=None, bind_self=False):
  out = []
  for args in (args_list or CALL_ARGS):
    try:
      out.append(repr(f(None, *args) if bind_self else f(*args)))
    except Exception as e:  # pylint: disable=broad-except
      out.append(type(e).__name__)
  return out


def callable_pool() -> list:
  """(name, callable, picklable by reference, call with a dummy self)."""
  return [
      ('module_def', sample_fn, True, False),
      ('module_lambda', MODULE_LAMBDA, False, False),
      ('class_body_lambda', Scopes.body_lambda, False, True),
      ('nested_def', NESTED_DEF, False, False),
      ('nested_lambda', NESTED_LAMBDA, False, False),
      ('builtin_len', len, True, False),
      ('builtin_sorted', sorted, True, False),
      ('unbound_method', Scopes.meth, True, True),
      ('class_method', Scopes.class_method, True, False),
      ('static_method', Scopes.static_method, True, False),
      ('functools_partial', functools.partial(sample_fn), True, False),
      ('class', PlainClass, True, None),
      ('symbolic_class', A, True, None),
      ('builtin_type', int, True, None),
  ]


def _callable_eq(bind_self):
  def eq(a, b):
    if a is b:
      return True
    if bind_self is None or type(a) is not type(b):
      return False
    return call_outcomes(a, bind_self=bind_self) == call_outcomes(b, bind_self=bind_self)
  return eq


# ---- value specs of every kind carrying every optional attribute ----------------------------------------------

APPLY_SAMPLES = [None, True, 1, -1, 99, 0.5, 'abc', 'xyz', '7', [1, 2], [2, 1, 3, 4], (1, 'a'), (3,), {'k': 2, 's': 'x'}, {'k': 'bad'},
                 sample_fn, ValueError, int]


_APPLY_CACHE: Dict[int, list] = {}


def apply_outcomes(spec) -> list:
  """Behavioural probe: what apply() returns / raises on a fixed list of sample values (cached for pool members)."""
  if id(spec) in _APPLY_CACHE:
    return _APPLY_CACHE[id(spec)]
  out = _apply_outcomes(spec)
  if id(spec) in _POOL_IDS:
    _APPLY_CACHE[id(spec)] = out
  return out


_POOL_IDS = set()


def _apply_outcomes(spec) -> list:
  out = []
  for x in APPLY_SAMPLES + [A(x=1), B(x=1, y=2)]:
    try:
      out.append(repr(spec.apply(copy.deepcopy(x) if isinstance(x, (list, dict)) else x)))
    except Exception as e:  # pylint: disable=broad-except
      out.append(type(e).__name__)
  return out


def spec_eq(a, b) -> bool:
  return type(a) is type(b) and a == b and not (a != b) and apply_outcomes(a) == apply_outcomes(b)


def schema_eq(a, b) -> bool:
  if not (type(a) is type(b) and a == b):
    return False
  def probe(s):
    out = []
    for x in APPLY_SAMPLES:
      try:
        out.append(repr(s.apply({'f': x})))
      except Exception as e:  # pylint: disable=broad-except
        out.append(type(e).__name__)
    return out
  return probe(a) == probe(b)


def spec_pool() -> list:
  """Every value spec class, bare and with each optional constructor attribute set (found by introspection of the
  constructor), plus all of them together; each also as a field of a Dict spec, as the element of a List spec and as a
  field of a class Schema.  Entries: (name, value, equality)."""
  pt = pg.typing
  base = {
      'Bool': (pt.Bool, (), dict(default=True)),
      'Str': (pt.Str, (), dict(default='abc', regex='a.*')),
      'Int': (pt.Int, (), dict(default=3, min_value=0, max_value=9)),
      'Float': (pt.Float, (), dict(default=0.5, min_value=0.0, max_value=1.0)),
      'Enum': (pt.Enum, ('a', ['a', 'b', None]), dict()),
      'List': (pt.List, (pt.Int(),), dict(default=[1, 2], min_size=1, max_size=3, transform=to_sorted_list)),
      'ListSize': (pt.List, (pt.Str(),), dict(size=2)),
      'Tuple': (pt.Tuple, ([pt.Int(), pt.Str()],), dict(default=(1, 'a'), transform=as_tuple)),
      'TupleVar': (pt.Tuple, (pt.Int(),), dict(min_size=1, max_size=3)),
      'Dict': (pt.Dict, ([('k', pt.Int(default=1)), ('s', pt.Str().noneable())],), dict(transform=as_dict)),
      'Object': (pt.Object, (A,), dict(default=A(x=1), transform=identity)),
      'Callable': (pt.Callable, ([pt.Int()],), dict(default=sample_fn, returns=pt.Any(), transform=identity)),
      'Functor': (pt.Functor, (), dict(returns=pt.Int())),
      'Type': (pt.Type, (Exception,), dict(default=ValueError)),
      'Union': (pt.Union, ([pt.Int(), pt.Str()],), dict(default=1)),
      'Any': (pt.Any, (), dict(default=1, annotation=int, transform=to_int)),
  }
  out = []
  for name, (cls, args, samples) in base.items():
    params = inspect.signature(cls.__init__).parameters
    variants = {'bare': {}}
    for k, v in samples.items():
      if k in params:
        variants[k] = {k: v}
    if 'is_noneable' in params:
      variants['noneable'] = {'is_noneable': True}
    if 'frozen' in params and ('default' in samples or name == 'Enum'):
      variants['frozen'] = dict({'default': samples['default']} if 'default' in samples else {}, frozen=True)
    every = {}
    for k, v in variants.items():
      if k not in ('frozen', 'size'):
        every.update(v)
    if len(every) > 1:
      variants['all'] = every
    for vn, kw in variants.items():
      try:
        spec = cls(*args, **kw)
      except Exception:  # pylint: disable=broad-except
        continue          # this combination is not constructible (e.g. min_size with size)
      out.append((f'spec:{name}:{vn}', spec, spec_eq))
      if vn in ('bare', 'all', 'transform', 'frozen', 'default'):
        out.append((f'spec:{name}:{vn}:dict_field', pt.Dict([('f', spec), ('g', pt.Int(default=0))]), spec_eq))
        out.append((f'spec:{name}:{vn}:list_element', pt.List(spec, max_size=4), spec_eq))
        out.append((f'spec:{name}:{vn}:class_schema', pt.Schema([pt.Field('f', spec, 'a field', {'m': 1})]), schema_eq))
  out.append(('spec:Any:lambda_transform', pt.Any(transform=MODULE_LAMBDA), spec_eq))
  out.append(('schema:Typed', Typed.__schema__, lambda a, b: a == b))
  return out


DERIVED = set()         # specs wrapped as Dict field / List element / Schema field: checked in fewer positions
IDENTITY_EQ = set()     # pool members that Python itself compares / hashes by identity (functools.partial): eq, hash don't-care
UNPICKLABLE = set()     # ids of pool members that Python cannot pickle by reference (lambdas, nested functions)


def _opaque_pool() -> list:
  """Convertible leaves: (value, equality) pairs; they serialise through their own to_json."""
  spec = pg.dna_spec(pg.Dict(a=pg.oneof([1, 2, 3]), b=pg.floatv(0.0, 1.0), c=pg.manyof(2, ['x', 'y', 'z'])))
  dna = pg.DNA([1, 0.5, [0, 2]])
  sym_eq = lambda a, b: type(a) is type(b) and pg.eq(a, b)
  plain_eq = lambda a, b: type(a) is type(b) and a == b
  pool = [
      (spec, sym_eq),
      (dna, plain_eq),
      (pg.DNA(None), plain_eq),
      (Typed(items=[1, 2], opts=dict(k=3, s='q'), t=(1, 'a')), sym_eq),
      (sample_functor(2), sym_eq),
      (Typed.partial(opts=dict(k=2)), sym_eq),
      (pg.oneof([1, B.partial(x=(A.partial(),))]), sym_eq),
      (pg.oneof([1, A(x=2)]), sym_eq),
  ]
  for _, f, picklable, bind_self in callable_pool():
    pool.append((f, _callable_eq(bind_self)))
    if not picklable:
      UNPICKLABLE.add(id(f))
    if isinstance(f, functools.partial):
      IDENTITY_EQ.add(id(f))
  lam = None
  for name, v, eqf in spec_pool():
    pool.append((v, eqf))
    _POOL_IDS.add(id(v))
    if ':dict_field' in name or ':list_element' in name or ':class_schema' in name:
      DERIVED.add(id(v))
    if name == 'spec:Any:lambda_transform':
      UNPICKLABLE.add(id(v))
  return pool


OPAQUE = _opaque_pool()


def extra_pool() -> list:
  """Values the statement names that are checked one by one (not part of the abstract grammar)."""
  plain_eq = lambda a, b: type(a) is type(b) and a == b
  sym_eq = lambda a, b: type(a) is type(b) and pg.eq(a, b)
  return [
      ('enum_without_default', pg.typing.Enum(pg.MISSING_VALUE, [1, 2]), plain_eq),
      ('typed_list', pg.List([1, 2], value_spec=pg.typing.List(pg.typing.Int(min_value=0), max_size=3)), sym_eq),
      ('typed_dict', pg.Dict({'k': 1}, value_spec=pg.typing.Dict([('k', pg.typing.Int())])), sym_eq),
      ('object_with_typed_fields', Typed(items=[1], opts=dict(k=1, s=None), t=None), sym_eq),
  ]
UNKNOWN_LEAF = 999
MISSING = 14


class Conc:
  """One concretisation: atom -> concrete member (index c into every pool)."""

  def __init__(self, c: int, vi: int = 0):
    self.c = c
    self.leaf = {a: pool[c % len(pool)] for a, pool in LEAF_POOL.items()}
    self.leaf.update(TYPE_NAMES)
    a41 = INT_A[c % len(INT_A)]
    self.key = {k: pool[c % len(pool)] for k, pool in KEY_POOL.items()}
    self.key[41] = a41
    self.key[32] = f'n_:{a41}'
    if self.key[42] == a41:
      self.key[42] = 4242
    self.leaf[12] = f'n_:{a41}'
    self.opaque, self.opaque_eq = OPAQUE[(vi + c) % len(OPAQUE)]

  # abstract -> concrete (symbolic containers everywhere)
  def build(self, v: dict) -> Any:
    t = v['t']
    if t == 'leaf':
      if v['a'] == MISSING:
        return pg.MISSING_VALUE          # only ever the value of an object field (see the 'obj' case)
      return self.opaque if v['a'] == 20 else self.leaf[v['a']]
    kids = [self.build(x) for x in v['xs']]
    if t == 'list':
      return pg.List(kids)
    if t == 'tuple':
      return tuple(kids)
    if t == 'dict':
      return pg.Dict({self.key[k]: x for k, x in zip(v['ks'], kids)})
    if t == 'obj':
      names = ['x'] if v['a'] == 1 else ['x', 'y']
      given = {n: k for n, k, x in zip(names, kids, v['xs']) if not (x['t'] == 'leaf' and x['a'] == MISSING)}
      cls = A if v['a'] == 1 else B
      return cls(**given) if len(given) == len(names) else cls.partial(**given)
    raise ValueError(t)

  # concrete -> abstract
  def leaf_atom(self, x) -> int:
    if _safe(lambda: pg.MISSING_VALUE == x) and not isinstance(x, (str, int, float, bool, type(None))):
      return MISSING
    if x is self.opaque or (type(x) is type(self.opaque) and _safe(lambda: self.opaque_eq(self.opaque, x))):
      return 20
    for a, c in self.leaf.items():
      if type(x) is type(c) and (x == c or (isinstance(x, float) and math.isnan(x) and math.isnan(c))):
        if isinstance(x, float) and x == 0 and math.copysign(1, x) != math.copysign(1, c):
          continue
        return a
    return UNKNOWN_LEAF

  def key_atom(self, k) -> int:
    for a, c in self.key.items():
      if type(k) is type(c) and k == c:
        return a
    return UNKNOWN_LEAF

  def abstract(self, x) -> dict:
    if isinstance(x, tuple):
      return {'t': 'tuple', 'a': 0, 'ks': [], 'xs': [self.abstract(y) for y in x]}
    if isinstance(x, list):
      return {'t': 'list', 'a': 0, 'ks': [], 'xs': [self.abstract(y) for y in x]}
    if isinstance(x, dict):
      items = list(x.sym_items()) if isinstance(x, pg.Dict) else list(x.items())
      return {'t': 'dict', 'a': 0, 'ks': [self.key_atom(k) for k, _ in items], 'xs': [self.abstract(y) for _, y in items]}
    if type(x) in (A, B) and x is not self.opaque:
      c = 1 if type(x) is A else 2
      return {'t': 'obj', 'a': c, 'ks': [51] if c == 1 else [51, 52],
              'xs': [self.abstract(x.sym_getattr(n)) for n in (['x'] if c == 1 else ['x', 'y'])]}
    return {'t': 'leaf', 'a': self.leaf_atom(x), 'ks': [], 'xs': []}


def _safe(fn, default=False):
  try:
    return fn()
  except Exception:  # pylint: disable=broad-except
    return default


# ---- comparisons that the statement lists -----------------------------------------------------------

def has_nan(x) -> bool:
  if isinstance(x, float):
    return math.isnan(x)
  if isinstance(x, (list, tuple)):
    return any(has_nan(y) for y in x)
  if isinstance(x, dict):
    return any(has_nan(y) for y in (x.sym_values() if isinstance(x, pg.Dict) else x.values()))
  if isinstance(x, pg.Object):
    return any(has_nan(y) for _, y in x.sym_items())
  return False


def holds_identity_hashed_in_tuple(x, in_tuple=False) -> bool:
  """A tuple (hashed by Python's hash) that contains a symbolic object whose __hash__ is identity based."""
  if isinstance(x, tuple):
    return any(holds_identity_hashed_in_tuple(y, True) for y in x)
  if in_tuple and inspect.isfunction(x):
    return True          # a function loaded from its code is a new object; inside a tuple it is hashed by identity
  if isinstance(x, pg.Object):
    if in_tuple and not type(x).use_symbolic_comparison:
      return True
    return any(holds_identity_hashed_in_tuple(y, in_tuple) for _, y in x.sym_items())
  if isinstance(x, list):
    return any(holds_identity_hashed_in_tuple(y, in_tuple) for y in x)
  if isinstance(x, dict):
    return any(holds_identity_hashed_in_tuple(y, in_tuple) for y in (x.sym_values() if isinstance(x, pg.Dict) else x.values()))
  return False


def tree_ok(x, _seen=None) -> bool:
  """Every symbolic child knows its parent and its own path (C01's well-formedness, on the result)."""
  if isinstance(x, tuple):
    return all(tree_ok(y) for y in x)
  if not isinstance(x, pg.Symbolic):
    return True
  for k, c in x.sym_items():
    if isinstance(c, pg.Symbolic):
      if c.sym_parent is not x or c.sym_path != pg.KeyPath(k, x.sym_path):
        return False
    if not tree_ok(c):
      return False
  return True


def same_behaviour(orig, back) -> bool:
  """Schema-backed behaviour: the classes' typed fields still reject what they rejected."""
  if isinstance(orig, B):
    def probe(o):
      try:
        o.clone(deep=True).rebind(y='not an int')
        return 'accepted'
      except Exception as e:  # pylint: disable=broad-except
        return type(e).__name__
    return isinstance(back, B) and probe(orig) == probe(back)
  if isinstance(orig, Typed):
    def probe2(o):
      out = []
      for fn in (lambda c: c.items.append(-1), lambda c: c.items.extend([1, 1, 1, 1]), lambda c: c.opts.rebind(k='s'),
                 lambda c: c.rebind(t=('a', 1))):
        c = o.clone(deep=True)
        try:
          fn(c)
          out.append('accepted')
        except Exception as e:  # pylint: disable=broad-except
          out.append(type(e).__name__)
      return out
    return isinstance(back, Typed) and probe2(orig) == probe2(back)
  if isinstance(orig, (pg.List, pg.Dict)) and orig.value_spec is not None:
    return getattr(back, 'value_spec', None) == orig.value_spec
  return True


def has_missing(v: dict) -> bool:
  """The abstract value holds a partial object somewhere (pg.is_partial does not look into tuples)."""
  return (v['t'] == 'leaf' and v['a'] == MISSING) or any(has_missing(x) for x in v['xs'])


def has_atom(v: dict, a: int) -> bool:
  return (v['t'] == 'leaf' and v['a'] == a) or any(has_atom(x, a) for x in v['xs'])


_LOAD_DIR = '/verif/.work/store'


def _save_load(v):
  os.makedirs(_LOAD_DIR, exist_ok=True)
  path = os.path.join(_LOAD_DIR, f'codec-{os.getpid()}.json')
  try:
    pg.save(v, path)
    return pg.load(path)
  finally:
    if os.path.exists(path):
      os.remove(path)


# way -> fn(value, partial: bool).  json / json_str ask for allow_partial only when the value is partial (what a caller
# would do); the *_partial ways and load (pg.save + pg.load, which always loads with allow_partial=True) ask for it always.
WAYS = {
    'json': lambda v, p: pg.from_json(pg.to_json(v), allow_partial=p),
    'json_str': lambda v, p: pg.from_json_str(pg.to_json_str(v), allow_partial=p),
    'json_partial': lambda v, p: pg.from_json(pg.to_json(v), allow_partial=True),
    'json_str_partial': lambda v, p: pg.from_json_str(pg.to_json_str(v), allow_partial=True),
    'load': lambda v, p: _save_load(v),
    'pickle': lambda v, p: pickle.loads(pickle.dumps(v)),
    'deepcopy': lambda v, p: copy.deepcopy(v),
}
FIRST_CONC_ONLY = ('json_partial', 'json_str_partial', 'load')     # these ways are run on the first concretisation only


def observe(v: dict, vi: int, c: int, way: str) -> Optional[dict]:
  conc = Conc(c, vi)
  if way == 'pickle' and id(conc.opaque) in UNPICKLABLE and has_atom(v, 20):
    return None           # Python cannot pickle lambdas / nested functions by reference: not generated
  row = {'i': vi, 'v': v, 'way': way, 'conc': c, 'ok': False, 'back': {'t': 'err', 'a': 0, 'ks': [], 'xs': []},
         'eq': False, 'type': False, 'hash': False, 'tree': False, 'err': '', 'hashwhy': 'hash', 'built': False}
  try:
    orig = conc.build(v)
    row['built'] = True
  except Exception as e:  # pylint: disable=broad-except
    # the value cannot even be constructed (e.g. a dict with a '_type' key inside a tuple is re-interpreted)
    row['err'] = f'build: {type(e).__name__}: {str(e)[:100]}'
    return row
  try:
    back = WAYS[way](orig, has_missing(v) or (has_atom(v, 20) and bool(_safe(lambda: pg.is_partial(conc.opaque)))))
  except Exception as e:  # pylint: disable=broad-except
    row['err'] = f'{type(e).__name__}: {str(e)[:120]}'
    return row
  row['ok'] = True
  row['back'] = conc.abstract(back)
  nan = has_nan(orig) or (id(conc.opaque) in IDENTITY_EQ and has_atom(v, 20))
  # pg.eq(nan, nan) is False: values with NaN leaves are judged by the structural projection only (don't-care)
  row['eq'] = True if nan else bool(_safe(lambda: pg.eq(orig, back) and pg.eq(back, orig) and not pg.ne(orig, back)))
  row['type'] = type(back) is type(orig) and same_behaviour(orig, back)
  try:
    h = pg.hash(orig)
  except Exception:  # pylint: disable=broad-except
    h = None             # pg.hash is not defined for this value: don't-care
  row['hash'] = True if (h is None or nan) else _safe(lambda: pg.hash(back) == h)
  if not row['hash'] and holds_identity_hashed_in_tuple(orig):
    row['hashwhy'] = 'hash:tuple_of_identity_hashed_object'
  row['tree'] = tree_ok(back)
  if way in ('pickle', 'deepcopy') and isinstance(orig, pg.Symbolic):
    row['tree'] = row['tree'] and back is not orig
  return row


def concrete_repr(v: dict, vi: int, c: int) -> str:
  return repr(_safe(lambda: Conc(c, vi).build(v), '<unbuildable>'))[:300]
