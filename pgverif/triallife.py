"""S->C replay of TrialLife.tla behaviours through the real pg.sample loop (in-memory backend, one worker).

The spec is the oracle.  Every TLC state carries the whole observable state of a study (trials with status,
measurements, final measurement, infeasible flag, metadata, links; study metadata; is_active; best trial; the
summary counters; what the algorithm proposed and was fed) and, in `act` / `out`, the call that led to it and
what that call returned or raised.  The driver performs the call on a real generator / feedback object and then
compares, after EVERY step, the outcome of the call and the full projection of pg.poll_result(name) and of the
algorithm with the TLC state.  No expected value is computed here; the only things mirrored from the spec are
the two fixtures that belong to the *environment* (the early stopping policy `PolicyStop` and the reward the
scripted controller attaches to a proposal, `CtrlReward`) and the int -> Python concretisation of payloads.
"""
from __future__ import annotations

import ast
import datetime
import itertools
import json
import logging
import os
import re
from typing import Any, Dict, List, Optional, Tuple

import pyglove as pg
from pyglove.core.tuning import local_backend as _local_backend

from . import tlaval, tlc
from .core import Check

SPEC = 'TrialLife'
NONE, ABSENT, CES = 99, 98, 9
_counter = itertools.count(1)
_QUIET = logging.getLogger('g03-quiet')
_QUIET.addHandler(logging.NullHandler())
_QUIET.propagate = False


# ---- concretisation of the spec's ints ---------------------------------------------------------
def fval(r: int) -> float:
  return r / 2.0


def meta_key(k: int) -> str:
  return 'client_evaluation_skipped' if k == CES else f'k{k}'


def meta_val(k: int, v: int):
  return True if k == CES else v


def link_name(n: int) -> str:
  return f'l{n}'


def link_url(u: int) -> str:
  return f'http://host/u{u}'


def fn_items(f) -> List[Tuple[int, Any]]:
  """Items of a TLA+ function with an int domain as parsed by tlaval (1..n comes back as a list)."""
  if isinstance(f, dict):
    return sorted(f.items())
  return list(enumerate(f, 1))


# ---- fixtures: the environment of the loop ------------------------------------------------------
class NegPolicy(pg.tuning.EarlyStoppingPolicy):
  """`PolicyStop` of the spec: the last reported reward is negative."""

  def should_stop_early(self, trial):
    return trial.measurements[-1].reward < 0


class RecSweep(pg.geno.Sweeping):
  """pg.geno.Sweeping that logs what it is fed and plays the controller of `CtrlAt` / `CtrlReward`."""

  def _setup(self):
    super()._setup()
    self._g03_fed = []

  def _propose(self):
    dna = super()._propose()
    ordinal = self.num_proposals + 1
    if ordinal in getattr(self, '_g03_ctrl', ()):
      dna.set_metadata('reward', fval((ordinal % 3) - 1))
    return dna

  def _feedback(self, dna, reward):
    self._g03_fed.append((dna.value, reward))


def read_constants(cfg: str) -> dict:
  """The constants of a cfg file that parameterise the fixture (pg.sample arguments)."""
  p = cfg if os.path.isabs(cfg) else str(tlc.SPECS / cfg)
  text = open(p).read()
  def get(name, default=None):
    m = re.search(rf'^\s*{name}\s*=\s*(.+?)\s*$', text, flags=re.M)
    return tlaval.parse(m.group(1)) if m else default
  return {'budget': get('Budget'), 'space': get('SpaceSize'), 'objective': get('Objective'), 'policy': get('Policy'),
          'ctrl': sorted(get('CtrlAt', frozenset()))}


def _is_dna(dna, value: int) -> bool:
  return isinstance(dna, pg.DNA) and dna.value == value and not dna.children


class Divergence(Exception):

  def __init__(self, clause: str, detail: str, **sig):
    super().__init__(f'{clause}: {detail}')
    self.clause, self.detail, self.sig = clause, detail, sig


def _exc_name(e: BaseException) -> str:
  if isinstance(e, pg.tuning.RaceConditionError):
    return 'RaceConditionError'
  for c in (StopIteration, ValueError, KeyError, TypeError, AttributeError, RuntimeError):
    if type(e) is c:
      return c.__name__
  return type(e).__name__


class Worker:
  """One worker, one study: executes the calls of one behaviour."""

  def __init__(self, consts: dict):
    self.c = consts
    self.name = f'g03-{os.getpid()}-{next(_counter)}'
    self.values = [10 * (i + 1) for i in range(consts['space'])]
    self.space = pg.Dict(x=pg.oneof(self.values))
    self.algo = RecSweep()
    if consts['ctrl']:
      object.__setattr__(self.algo, '_g03_ctrl', frozenset(consts['ctrl']))
    self.policy = NegPolicy() if consts['policy'] == 'neg' else None
    self.metric = 'reward' if consts['objective'] == 'reward' else 'acc'
    self.it = None
    self.fb: Dict[int, Any] = {}
    self.tainted_links: set = set()
    self.generators = 0
    self.side_violations: List[Tuple[dict, str]] = []
    self.last_updated = None

  def _sample(self):
    self.generators += 1
    return pg.sample(self.space, self.algo, num_examples=self.c['budget'] or None, early_stopping_policy=self.policy,
                     name=self.name, metrics_to_optimize=[self.metric])

  def close(self):
    _local_backend._in_memory_results.pop(self.name, None)  # pylint: disable=protected-access

  # ---- calls: each returns (tag, payload) -----------------------------------------------------
  def call(self, act: List[Any]):
    try:
      return getattr(self, 'do_' + act[0])(*act[1:])
    except StopIteration:
      return ('stop', None)
    except Exception as e:  # pylint: disable=broad-except
      return ('err', _exc_name(e), str(e)[:160])

  def do_Next(self):
    if self.it is None:
      self.it = self._sample()
    try:
      example, fb = next(self.it)
    except ValueError as e:
      if self.policy is None or self.generators < 2 or 'has been set up with a different DNASpec' not in str(e) \
          or not str(e).startswith('NegPolicy'):
        raise
      # A second pg.sample(...) with the SAME policy object is refused although the search space is the same
      # (finding G03-F2).  Recorded, then worked around with a fresh policy object so that the behaviour goes on.
      self.side_violations.append(({'action': 'Next', 'clause': 'out', 'got': 'ValueError', 'cause': 'policy_dna_spec_identity'},
                                   f'next() of a second pg.sample on the same study and policy raised {str(e)[:90]!r}'))
      self.policy = NegPolicy()
      self.it = self._sample()
      example, fb = next(self.it)
    self.fb[fb.id] = fb
    return ('yield', fb.id, fb.dna, example, fb)

  def do_Reopen(self):
    self.it = self._sample()
    return ('ok', None)

  def _measure_kwargs(self, ra, ma, st, x):
    kw: Dict[str, Any] = {'step': st}
    if ra != NONE:
      kw['reward'] = fval(ra)
    if ma != NONE:
      kw['metrics'] = {'acc': fval(ma)}
    if x & 1:
      kw['elapse_secs'] = 7.0
    if x & 2:
      kw['checkpoint_path'] = '/ckpt/a'
    return kw

  def do_AddMeas(self, t, ra, ma, st, x, g):
    kw = self._measure_kwargs(ra, ma, st, x)
    r = None
    if g:
      with self.fb[t].ignore_race_condition():
        r = self.fb[t].add_measurement(**kw)
    else:
      r = self.fb[t].add_measurement(**kw)
    return ('ok', r)

  def do_Done(self, t, mk, mv, ln, lu):
    kw = {}
    if mk != NONE:
      kw['metadata'] = {meta_key(mk): meta_val(mk, mv)}
    if ln != NONE:
      kw['related_links'] = {link_name(ln): link_url(lu)}
    return ('ok', self.fb[t].done(**kw))

  def do_Call(self, t, ra, ma, st, mk, mv):
    kw = self._measure_kwargs(ra, ma, st, 0)
    if mk != NONE:
      kw['metadata'] = {meta_key(mk): meta_val(mk, mv)}
    return ('ok', self.fb[t](**kw))

  def do_Skip(self, t):
    return ('ok', self.fb[t].skip())

  def do_SkipOnExc(self, t, kind):
    spec = {'type': (ValueError,), 'sub': (Exception,), 'regex': ((ValueError, 'bad.*'),),
            'regex_miss': ((ValueError, 'good.*'),), 'other': (KeyError,), 'quiet': (ValueError,)}[kind]
    keep = pg.logging.get_logger()
    pg.logging.set_logger(_QUIET)              # skip_on_exceptions logs the traceback of what it swallows
    try:
      with self.fb[t].skip_on_exceptions(spec):
        if kind != 'quiet':
          raise ValueError('bad value')
    finally:
      pg.logging.set_logger(keep)
    return ('ok', None)

  def do_SetMeta(self, t, k, v, pt):
    return ('ok', self.fb[t].set_metadata(meta_key(k), meta_val(k, v), per_trial=bool(pt)))

  def do_GetMeta(self, t, k, pt):
    return ('val', self.fb[t].get_metadata(meta_key(k), per_trial=bool(pt)))

  def do_AddLink(self, t, n, u):
    return ('ok', self.fb[t].add_link(link_name(n), link_url(u)))

  def do_StopEarly(self, t):
    return ('val', self.fb[t].should_stop_early())

  def do_EndLoop(self, t):
    return ('ok', self.fb[t].end_loop())

  # ---- comparison of the outcome of the call ----------------------------------------------------
  def check_out(self, act, want, got):
    tag = want[0]
    name = act[0]
    def bad(detail, **sig):
      raise Divergence('out', f'{act}: spec says {want}, code gives {detail}', want=tag if tag != 'err' else want[1], **sig)
    if tag in ('ok', 'quiet'):
      if got[0] != 'ok' or got[1] is not None:
        bad(repr(got[:2]), got=got[1] if got[0] == 'err' else got[0])
    elif tag == 'noop':
      # DON'T-CARE: done()/skip() on a COMPLETED trial may be silent (as coded) or a RaceConditionError (docstring
      # of ignore_race_condition); the state comparison below requires that nothing changed
      if not (got[0] == 'ok' or (got[0] == 'err' and got[1] == 'RaceConditionError')):
        bad(repr(got[:2]), got=got[1] if got[0] == 'err' else got[0])
    elif tag == 'err':
      allowed = ('ValueError', 'RaceConditionError') if want[1] == 'ValueOrRace' else (want[1],)
      if got[0] != 'err' or got[1] not in allowed:
        bad(repr(got[:2]), got=got[1] if got[0] == 'err' else got[0])
    elif tag == 'stop':
      if got[0] != 'stop':
        bad(repr(got[:2]), got=got[1] if got[0] == 'err' else got[0])
    elif tag == 'yield':
      if got[0] != 'yield':
        bad(repr(got[:2]), got=got[1] if got[0] == 'err' else got[0])
      _, fid, dna, example, fb = got
      tid, d = want[1], want[2]
      if fid != tid:
        bad(f'feedback.id = {fid}', got='id')
      if not _is_dna(dna, d - 1) or not _is_dna(fb.get_trial().dna, d - 1):
        bad(f'feedback.dna = {dna!r}', got='dna')
      if not (isinstance(example, pg.Dict) and list(example.keys()) == ['x'] and example.x == self.values[d - 1]):
        bad(f'example = {example!r}', got='example')
      if fb.get_trial().id != tid:
        bad(f'get_trial().id = {fb.get_trial().id}', got='trial')
    elif tag == 'val':
      if got[0] != 'val':
        bad(repr(got[:2]), got=got[1] if got[0] == 'err' else got[0])
      v = got[1]
      if name == 'StopEarly':
        if v is not bool(want[1]):
          bad(f'should_stop_early() = {v!r}', got=repr(v))
      else:
        k = act[2]
        exp = None if want[1] == ABSENT else meta_val(k, want[1])
        if v != exp or type(v) is not type(exp):
          bad(f'get_metadata = {v!r}', got='value')
    else:
      raise AssertionError(f'unknown outcome {want}')

  # ---- projection of the real state ---------------------------------------------------------------
  def check_measurement(self, where: str, m, want: dict):
    def bad(what, got):
      raise Divergence(where, f'{what}: spec {want}, code {got!r}', field=what)
    if m is None:
      bad('missing', None)
    if m.step != want['step'] or type(m.step) is not int:
      bad('step', m.step)
    if type(m.reward) is not float or m.reward != fval(want['rw']):
      bad('reward', m.reward)
    x = want['x']
    if x == 5:                 # the placeholder of a skipped trial: only reward 0.0 / step 0 / elapse 0.0 are pinned
      if m.elapse_secs != 0.0:
        bad('elapse_secs', m.elapse_secs)
      return
    mt = dict(m.metrics) if m.metrics is not None else {}
    if mt != ({} if want['acc'] == NONE else {'acc': fval(want['acc'])}):
      bad('metrics', mt)
    if x & 1:
      if m.elapse_secs != 7.0:
        bad('elapse_secs', m.elapse_secs)
    elif not (isinstance(m.elapse_secs, float) and 0.0 <= m.elapse_secs < 600.0):
      bad('elapse_secs', m.elapse_secs)
    if m.checkpoint_path != ('/ckpt/a' if x & 2 else None):
      bad('checkpoint_path', m.checkpoint_path)

  def check_state(self, st: dict, prev: Optional[dict]):
    try:
      res = pg.poll_result(self.name)
    except ValueError:
      res = None
    if st['phase'] == 'new':
      if res is not None:
        raise Divergence('exists', 'poll_result finds a study before the first next()')
      return
    if res is None:
      raise Divergence('exists', 'poll_result does not find the study')
    want_trials = st['trials']
    got_trials = list(res.trials)
    if len(got_trials) != len(want_trials):
      raise Divergence('ntrials', f'spec has {len(want_trials)} trials, poll_result {len(got_trials)}')
    for w, t in zip(want_trials, got_trials):
      tid = w['id']
      if t.id != tid:
        raise Divergence('id', f'trial #{tid} has id {t.id}')
      if not _is_dna(t.dna, w['dna'] - 1):
        raise Divergence('dna', f'trial {tid}: dna {t.dna!r}, spec {w["dna"] - 1}')
      if t.status != w['status']:
        raise Divergence('status', f'trial {tid}: status {t.status}, spec {w["status"]}', want=w['status'])
      if bool(t.infeasible) != w['inf'] or type(t.infeasible) is not bool:
        raise Divergence('infeasible', f'trial {tid}: infeasible {t.infeasible}, spec {w["inf"]}')
      ms = list(t.measurements)
      if len(ms) != len(w['meas']):
        raise Divergence('measurements', f'trial {tid}: {len(ms)} measurements, spec {len(w["meas"])}', field='len')
      for m, wm in zip(ms, w['meas']):
        self.check_measurement('measurements', m, wm)
      if not w['final']:
        if t.final_measurement is not None:
          raise Divergence('final', f'trial {tid}: PENDING with final measurement {t.final_measurement!r}', field='present')
      else:
        self.check_measurement('final', t.final_measurement, w['final'][0])
      wmeta = {meta_key(k): meta_val(k, v) for k, v in fn_items(w['meta']) if v != ABSENT}
      if dict(t.metadata) != wmeta:
        raise Divergence('meta', f'trial {tid}: metadata {dict(t.metadata)!r}, spec {wmeta!r}')
      wlinks = {link_name(n): link_url(u) for n, u in fn_items(w['links']) if u != ABSENT}
      if tid not in self.tainted_links and dict(t.related_links) != wlinks:
        act = st['act']
        dropped = (act[0] == 'Done' and act[1] == tid and act[4] != NONE and st['out'] == ['ok']
                   and prev is not None and dict(t.related_links) ==
                   {link_name(n): link_url(u) for n, u in fn_items(prev['trials'][tid - 1]['links']) if u != ABSENT})
        self.tainted_links.add(tid)
        raise Divergence('links', f'trial {tid}: related_links {dict(t.related_links)!r}, spec {wlinks!r}',
                         cause='done_argument_dropped' if dropped else 'other', recoverable=True)
    wsm = {meta_key(k): meta_val(k, v) for k, v in fn_items(st['smeta']) if v != ABSENT}
    if dict(res.metadata) != wsm:
      raise Divergence('smeta', f'study metadata {dict(res.metadata)!r}, spec {wsm!r}')
    if res.is_active is not st['active']:
      raise Divergence('active', f'is_active {res.is_active}, spec {st["active"]}')
    got_best = res.best_trial.id if res.best_trial is not None else 0
    if got_best != st['best']:
      raise Divergence('best', f'best_trial {got_best}, spec {st["best"]}',
                       kind='none' if not got_best or not st['best'] else 'other')
    if prev is None or prev['cnt'] != st['cnt'] or prev['best'] != st['best'] or len(prev['trials']) != len(st['trials']) \
        or st['act'][0] in ('Done', 'Call', 'Skip', 'SkipOnExc', 'Next'):
      self.check_summary(res, st)
    lu = res.last_updated
    comp = st['cnt']['comp']
    if comp > 0 and not isinstance(lu, datetime.datetime):
      raise Divergence('last_updated', f'{comp} trials completed but last_updated is {lu!r}')
    if self.last_updated is not None and (lu is None or lu < self.last_updated):
      raise Divergence('last_updated', f'last_updated went back from {self.last_updated} to {lu}')
    self.last_updated = lu
    if self.algo.num_proposals != st['nprop']:
      raise Divergence('nprop', f'algorithm proposed {self.algo.num_proposals}, spec {st["nprop"]}')
    wfed = [(d - 1, fval(r)) for d, r in st['fed']]
    if list(self.algo._g03_fed) != wfed or self.algo.num_feedbacks != len(wfed):  # pylint: disable=protected-access
      raise Divergence('fed', f'algorithm was fed {self.algo._g03_fed} ({self.algo.num_feedbacks}), spec {wfed}')  # pylint: disable=protected-access

  def check_summary(self, res, st):
    """The counters are only visible in the printed summary ('status': {'PENDING': 'p/n', ..}, 'infeasible': 'i/n')."""
    try:
      d = ast.literal_eval(str(res))
      status = d['status']
    except Exception:  # pylint: disable=broad-except
      self.summary_unparsed = True
      return
    n = len(st['trials'])
    cnt = st['cnt']
    want = {}
    if cnt['pend']:
      want['PENDING'] = f'{cnt["pend"]}/{n}'
    if cnt['comp']:
      want['COMPLETED'] = f'{cnt["comp"]}/{n}'
    got_inf = d.get('infeasible')
    want_inf = f'{cnt["inf"]}/{n}' if cnt['inf'] else None
    got_best = d.get('best_trial', {}).get('id', 0)
    if dict(status) != want or got_inf != want_inf or got_best != st['best']:
      raise Divergence('summary', f'summary {dict(status)!r} infeasible={got_inf} best={got_best}, '
                       f'spec {want!r} infeasible={want_inf} best={st["best"]}')
    self.summary_parsed = True


# ---- replay of one behaviour ----------------------------------------------------------------------
def act_key(act) -> tuple:
  return tuple(act)


def replay_states(chk: Check, cfg: str, consts: dict, states: List[dict], hits: Dict[str, int]) -> None:
  """Replays one behaviour (list of TLC states, the first being the initial state)."""
  def hit(k, n=1):
    hits[k] = hits.get(k, 0) + n
  w = Worker(consts)
  history = [list(s['act']) for s in states]
  done = 0
  clean = True
  try:
    try:
      w.check_state(states[0], None)
    except Divergence as d:
      chk.violation({'action': 'Init', 'clause': d.clause, **d.sig}, {'cfg': cfg, 'step': 0, 'what': d.detail, 'history': history[:1]})
      return
    for i in range(1, len(states)):
      st = states[i]
      act = list(st['act'])
      got = w.call(act)
      cut = False
      for sig, what in w.side_violations:
        clean = False
        chk.violation(sig, {'cfg': cfg, 'step': i, 'what': what, 'history': history[:i + 1]})
      del w.side_violations[:]
      try:
        w.check_out(act, st['out'], got)
      except Divergence as d:
        clean = False
        chk.violation({'action': act[0], 'clause': d.clause, **d.sig},
                      {'cfg': cfg, 'step': i, 'what': d.detail, 'history': history[:i + 1]})
      try:
        w.check_state(st, states[i - 1])
      except Divergence as d:
        clean = False
        sig = {k: v for k, v in d.sig.items() if k != 'recoverable'}
        chk.violation({'action': act[0], 'clause': d.clause, **sig},
                      {'cfg': cfg, 'step': i, 'what': d.detail, 'history': history[:i + 1]})
        if d.sig.get('recoverable'):
          try:                                  # the rest of the state must still conform
            w.check_state(st, states[i - 1])
          except Divergence as d2:
            chk.violation({'action': act[0], 'clause': d2.clause, **{k: v for k, v in d2.sig.items() if k != 'recoverable'}},
                          {'cfg': cfg, 'step': i, 'what': d2.detail, 'history': history[:i + 1]})
            cut = True
        else:
          cut = True                            # the states have diverged: later comparisons would only echo this one
      done = i
      chk.evaluations += 1
      hit(act[0])
      hit('out:' + (st['out'][0] if st['out'][0] != 'err' else st['out'][1]))
      _count_mechanisms(hit, states[i - 1], st)
      if cut:
        break
  finally:
    w.close()
  chk.traces += 1
  chk.count('steps_replayed', done)
  if getattr(w, 'summary_parsed', False):
    hit('summary_parsed')
  if getattr(w, 'summary_unparsed', False):
    hit('summary_unparsed')
  if done:
    chk.distinct_case(history[:done + 1])
  if clean:
    chk.count('behaviours_conforming')
    if len(chk.samples) < 4 and len(states) > 6:
      chk.sample({'spec': SPEC, 'cfg': cfg, 'behaviour': history[:14], 'final_state': {
          'trials': [{k: t[k] for k in ('id', 'status', 'inf', 'meas', 'final')} for t in states[done]['trials']],
          'best': states[done]['best'], 'active': states[done]['active'], 'fed': states[done]['fed']}})


def _count_mechanisms(hit, prev: dict, st: dict) -> None:
  """Vacuity counters, read off two consecutive TLC states."""
  act, out = st['act'], st['out']
  a = act[0]
  pt, nt = prev['trials'], st['trials']
  if a == 'Next' and out[0] == 'yield':
    hit('next:new' if len(nt) > len(pt) else 'next:same_pending')
    if len(nt) > len(pt) + 1:
      hit('next:controller_evaluated', len(nt) - len(pt) - 1)
  if a == 'Next' and out[0] == 'stop':
    if prev['phase'] == 'closed':
      hit('stop:exhausted_generator')
    elif not prev['active']:
      hit('stop:end_loop')
    else:
      hit('stop:budget_or_space')
      if len(nt) > len(pt):
        hit('next:controller_evaluated', len(nt) - len(pt))
  if a in ('Done', 'Call', 'Skip', 'SkipOnExc', 'AddMeas', 'SetMeta', 'GetMeta', 'AddLink', 'StopEarly', 'EndLoop'):
    t = act[1]
    if pt[t - 1]['status'] == 'COMPLETED':
      hit(f'{a}:on_completed')
    if not prev['active']:
      hit(f'{a}:after_end_loop')
  if st['best'] != prev['best']:
    hit('best:changed')
  if a in ('Done', 'Call') and out[0] == 'ok' and st['best'] == prev['best'] and prev['best']:
    t = act[1]
    if nt[t - 1]['final'][0]['rw'] == nt[st['best'] - 1]['final'][0]['rw']:
      hit('best:tie_kept')
    else:
      hit('best:kept')
  if a in ('Skip', 'SkipOnExc') and out[0] == 'ok':
    hit('skip:with_measurements' if pt[act[1] - 1]['meas'] else 'skip:without_measurements')
  if a == 'StopEarly':
    hit(f'stop_early:{out[1]}')
  if a == 'GetMeta':
    hit('get_meta:absent' if out[1] == ABSENT else 'get_meta:value')
  if a == 'Done' and out[0] == 'ok' and act[4] != NONE:
    hit('done:with_links')
  if a == 'Done' and out[0] == 'ok' and act[2] != NONE:
    hit('done:with_metadata')
  if a in ('Done', 'Call') and out[0] == 'ok' and len(nt[act[1] - 1]['meas']) > 1:
    hit('done:several_measurements')
  if a == 'AddMeas' and act[6] == 1 and out[0] == 'ok' and pt[act[1] - 1]['status'] == 'COMPLETED':
    hit('race:ignored')


# ---- sources of behaviours --------------------------------------------------------------------------
def replay_simulated(chk: Check, cfg: str, num: int, depth: int, seed: int, hits: Dict[str, int], batches: int = 1) -> None:
  consts = read_constants(cfg)
  for b in range(batches):
    behaviours, r = tlc.simulate(SPEC, cfg, num=max(1, num // batches), depth=depth, seed=seed * 1000 + b + 1,
                                 name=f'g03-{cfg}-{b}', timeout=1500)
    chk.add_tlc(r, count_states=False)
    chk.transitions += r.generated
    if not r.ok:
      raise tlc.TLCError(f'{cfg}: {r.violated} violated during simulation:\n' + r.out[-3000:])
    for beh in behaviours:
      replay_states(chk, cfg, consts, [s.state for s in beh], hits)


def _freeze(v):
  if isinstance(v, dict):
    return tuple(sorted((k, _freeze(x)) for k, x in v.items()))
  if isinstance(v, (list, tuple)):
    return tuple(_freeze(x) for x in v)
  if isinstance(v, (set, frozenset)):
    return frozenset(_freeze(x) for x in v)
  return v


VIEW_VARS = ('phase', 'trials', 'smeta', 'active', 'best', 'nprop', 'fed', 'cnt', 'handles')


def replay_transitions(chk: Check, cfg: str, hits: Dict[str, int], seed: int, limit: Optional[int] = None) -> Dict[str, int]:
  """One implementation test per transition of a small exhaustive model.

  TLC dumps the full state graph (states include `act` and `out`).  A transition is a pair (state without act/out,
  call); the spec is deterministic, so it has one target.  Transition tours (greedy: take an untested transition
  of the current state, else walk to the nearest state that has one) cover every transition at least once; every
  step of a tour is executed and compared like any other replayed step."""
  import random  # pylint: disable=import-outside-toplevel
  consts = read_constants(cfg)
  nodes, edges, inits, r = tlc.dump_graph(SPEC, cfg, timeout=900)
  chk.add_tlc(r)
  if not r.ok:
    raise tlc.TLCError(f'{cfg}: {r.violated} violated:\n' + r.out[-3000:])
  vkey = {n: _freeze([s[v] for v in VIEW_VARS]) for n, s in nodes.items()}
  succ: Dict[Any, Dict[tuple, str]] = {}
  for src, dst, _, _ in edges:
    a = _freeze(nodes[dst]['act'])
    d = succ.setdefault(vkey[src], {})
    if a in d:
      o = nodes[d[a]]
      if vkey[d[a]] != vkey[dst] or o['out'] != nodes[dst]['out']:
        raise tlc.TLCError(f'{cfg}: the specification is not deterministic for call {a}')
    else:
      d[a] = dst
  total = sum(len(d) for d in succ.values())
  rng = random.Random(seed)
  todo = {(v, a) for v, d in succ.items() for a in d}
  if limit is not None and limit < len(todo):
    todo = set(rng.sample(sorted(todo, key=repr), limit))
  init = inits[0]
  tested = 0
  tours = 0
  while todo:
    states = [nodes[init]]
    cur = vkey[init]
    steps = 0
    while steps < 400:
      mine = sorted((a for a in succ.get(cur, {}) if (cur, a) in todo), key=repr)
      if mine:
        path = [mine[0]]
      else:
        path = _path_to_untested(succ, vkey, cur, todo)
        if not path:
          break
      for a in path:
        dst = succ[cur][a]
        todo.discard((cur, a))
        states.append(nodes[dst])
        cur = vkey[dst]
        steps += 1
    if len(states) == 1:
      raise tlc.TLCError(f'{cfg}: {len(todo)} transitions are unreachable from the initial state')
    before = chk.evaluations
    replay_states(chk, cfg, consts, states, hits)
    tested += chk.evaluations - before
    tours += 1
    if chk.evaluations - before < len(states) - 1:      # the tour was cut by a divergence: do not loop on it
      break
  return {'transitions': total, 'selected': total if limit is None else min(limit, total), 'steps_executed': tested,
          'tours': tours, 'view_states': len(succ)}


def _path_to_untested(succ, vkey, start, todo) -> List[tuple]:
  """Shortest call sequence from `start` to a state with an untested transition, including that transition."""
  from collections import deque  # pylint: disable=import-outside-toplevel
  seen = {start}
  q = deque([(start, [])])
  while q:
    v, path = q.popleft()
    for a in sorted(succ.get(v, {}), key=repr):
      if (v, a) in todo:
        return path + [a]
    for a in sorted(succ.get(v, {}), key=repr):
      nv = vkey[succ[v][a]]
      if nv not in seen:
        seen.add(nv)
        q.append((nv, path + [a]))
  return []


def _script_behaviour(cfg: str, hist: List[Any], name: str):
  """TLC recomputes the states of a given history (every argument enumerated)."""
  p = cfg if os.path.isabs(cfg) else str(tlc.SPECS / cfg)
  cfg_text = open(p).read()
  cfg_text = re.sub(r'SPECIFICATION\s+\w+', 'SPECIFICATION SpecScript', cfg_text)
  cfg_text = re.sub(r'SimK = \d+', 'SimK = 0', cfg_text)
  for rule, intended in (('FinalRule', 'last'), ('BestRule', 'strict'), ('LinksRule', 'recorded'), ('RedoneRule', 'noop')):
    cfg_text = re.sub(rf'{rule} = "\w+"', f'{rule} = "{intended}"', cfg_text)     # always the INTENDED rules
  cfg_text = re.sub(r'^(INVARIANT|PROPERTY|CONSTRAINT|VIEW).*$', '', cfg_text, flags=re.M)
  d = tlc.workdir(name)
  (d / 'script.json').write_text(json.dumps(hist))
  (d / 'replay.cfg').write_text(cfg_text)
  behaviours, r = tlc.simulate(SPEC, str(d / 'replay.cfg'), num=1, depth=max(1, len(hist)), seed=1,
                               name=name + '-run', env={'SCRIPT_FILE': str(d / 'script.json')}, timeout=900)
  return behaviours, r


def counterexample_history(r: 'tlc.TLCResult') -> List[Any]:
  return [list(s['state']['act']) for s in (r.error_trace or [])]


def replay_history(chk: Check, cfg: str, hist: List[Any], name: str, hits: Dict[str, int]) -> bool:
  """Executes one history on the real code against the INTENDED states of `cfg`; True iff a divergence was seen."""
  behaviours, r = _script_behaviour(cfg, hist, name)
  chk.add_tlc(r, count_states=False)
  chk.transitions += max(1, r.generated)
  chk.require(len(behaviours) == 1 and len(behaviours[0]) == len(hist),
              f'the specification ({cfg}) does not admit the history {hist}')
  before = (len(chk.violations), sum(chk.known_hits.values()), chk.counters.get('violations_not_recorded', 0))
  replay_states(chk, cfg, read_constants(cfg), [s.state for s in behaviours[0]], hits)
  return (len(chk.violations), sum(chk.known_hits.values()), chk.counters.get('violations_not_recorded', 0)) != before


def replay_file(chk: Check, path: str) -> None:
  """./check G03 --replay FILE"""
  rec = json.loads(open(path).read())
  det = rec['detail']
  hits: Dict[str, int] = {}
  chk.states += 1
  chk.sample({'replayed_history': det['history']})
  diverged = replay_history(chk, det['cfg'], det['history'], 'g03-replay-script', hits)
  if not diverged:
    print('replay: the history conforms on this tree')
