"""Check context: verdicts, known findings, replay files, evidence."""
from __future__ import annotations

import hashlib
import json
import os
import sys
import time
import traceback
from pathlib import Path
from typing import Any, Dict, List, Optional

from . import tlc as tlcmod

VERIF = Path(__file__).resolve().parent.parent
WORK = VERIF / '.work'
EVIDENCE = VERIF / 'evidence'
FINDINGS_FILE = VERIF / 'known_findings.json'


class MachineryFailure(RuntimeError):
  """The check itself is broken / vacuous (exit 2): never a VIOLATION."""


def _jsonable(x):
  if isinstance(x, dict):
    return {str(k): _jsonable(v) for k, v in x.items()}
  if isinstance(x, (list, tuple)):
    return [_jsonable(v) for v in x]
  if isinstance(x, (set, frozenset)):
    return sorted((_jsonable(v) for v in x), key=repr)
  if isinstance(x, (str, int, bool)) or x is None:
    return x
  if isinstance(x, float):
    return x if x == x and abs(x) != float('inf') else repr(x)
  return repr(x)


def load_findings(prop: str) -> List[dict]:
  if not FINDINGS_FILE.exists():
    return []
  data = json.loads(FINDINGS_FILE.read_text())
  return [f for f in data.get('findings', []) if f.get('property') == prop]


class Check:
  """One run of one property's check."""

  def __init__(self, prop: str, tier: str, seed: int, level: str = 'model_checking'):
    self.prop = prop
    self.tier = tier
    self.seed = seed
    self.level = level
    self.t0 = time.time()
    self.states = 0
    self.transitions = 0
    self.traces = 0                # behaviours replayed into / traces validated against impl
    self.evaluations = 0
    self.distinct: set = set()     # hashes of distinct non-trivial cases
    self.samples: List[Any] = []
    self.checker_cmds: List[str] = []
    self.counters: Dict[str, int] = {}
    self.assumptions: List[str] = []
    self.notes: Dict[str, Any] = {}
    self.exhaustive = False
    self.rule = ''
    self.violations: List[dict] = []   # unlisted violations
    self.known_hits: Dict[str, int] = {}
    self.findings = load_findings(prop)
    self._printed_known = set()
    self._per_sig: Dict[str, int] = {}
    self.write_evidence = True       # False in --replay mode

  # ---- bookkeeping -------------------------------------------------------
  def count(self, key: str, n: int = 1):
    self.counters[key] = self.counters.get(key, 0) + n

  def add_tlc(self, r: 'tlcmod.TLCResult', count_states: bool = True):
    self.checker_cmds.append(r.cmd)
    if count_states:
      self.states += r.distinct
      self.transitions += r.generated

  def distinct_case(self, key: Any):
    self.distinct.add(hashlib.sha1(repr(key).encode()).hexdigest()[:16])

  def sample(self, s: Any, limit: int = 6):
    if len(self.samples) < limit:
      self.samples.append(_jsonable(s))

  def require(self, cond: bool, msg: str):
    """Vacuity / machinery guard.

    When violations have already been recorded the guard only notes the gap: a broken
    implementation may well be the reason a mechanism was never reached, and the violation is
    the verdict."""
    if not cond:
      if self.violations:
        self.notes.setdefault('vacuity_gaps_after_violation', []).append(msg)
        return
      raise MachineryFailure(msg)

  # ---- verdicts ----------------------------------------------------------
  def match_known(self, signature: Dict[str, Any]) -> Optional[dict]:
    for f in self.findings:
      if f.get('status', 'open') != 'open':
        continue
      sig = f.get('signature', {})
      ok = True
      for k, v in sig.items():
        got = signature.get(k)
        if isinstance(v, list):
          if got not in v:
            ok = False
            break
        elif got != v:
          ok = False
          break
      if ok:
        return f
    return None

  def violation(self, signature: Dict[str, Any], detail: Dict[str, Any]) -> bool:
    """Reports a property violation observed on the real code.

    Returns True if it matched a known (open) finding.
    """
    f = self.match_known(signature)
    if f is not None:
      fid = f.get('id', '?')
      self.known_hits[fid] = self.known_hits.get(fid, 0) + 1
      if fid not in self._printed_known:
        self._printed_known.add(fid)
        print(f'KNOWN-FINDING: property={self.prop} {fid}: {f.get("what", "")}', flush=True)
      return True
    key = json.dumps(_jsonable(signature), sort_keys=True)
    n = self._per_sig.get(key, 0)
    self._per_sig[key] = n + 1
    if n < 3 and len(self.violations) < 300:       # a few witnesses per signature, every signature kept
      self.violations.append({'signature': _jsonable(signature), 'detail': _jsonable(detail)})
    else:
      self.count('violations_not_recorded')
    return False

  def _write_replay(self, v: dict) -> Path:
    d = WORK / 'replay'
    d.mkdir(parents=True, exist_ok=True)
    blob = json.dumps(v, indent=1, sort_keys=True, default=repr)
    h = hashlib.sha1(blob.encode()).hexdigest()[:10]
    p = d / f'{self.prop}-{h}.json'
    p.write_text(blob)
    return p

  def finish(self) -> int:
    wall = time.time() - self.t0
    coverage: Dict[str, Any] = {
        'states': int(self.states),
        'transitions': int(self.transitions),
        'traces_validated_against_impl': int(self.traces),
        'evaluations': int(max(self.evaluations, self.traces)),
        'distinct_nontrivial': len(self.distinct),
        'rule': self.rule,
        'samples': self.samples,
        'checker_cmd': ' ; '.join(self.checker_cmds[:12]),
        'exhaustive': bool(self.exhaustive),
        'counters': self.counters,
        'known_finding_hits': self.known_hits,
    }
    coverage.update(_jsonable(self.notes))
    ev = {
        'property_id': self.prop,
        'tier': self.tier,
        'seed': int(self.seed),
        'level': self.level,
        'coverage': coverage,
        'assumptions': self.assumptions,
        'wall_s': round(wall, 2),
        'violations': len(self.violations),
    }
    if self.write_evidence:
      EVIDENCE.mkdir(exist_ok=True)
      (EVIDENCE / f'{self.prop}.json').write_text(json.dumps(ev, indent=1, default=repr) + '\n')
    # listed findings that were *not* met this run are still announced (the tree
    # is unchanged as far as this check can tell only if they reproduce; a
    # finding that no longer reproduces is reported as a note, not an alarm).
    for f in self.findings:
      if f.get('status', 'open') == 'open' and f.get('id') not in self._printed_known:
        # every listed (open) finding is announced; one that this tier / seed did not reach says so
        print(f'KNOWN-FINDING: property={self.prop} {f.get("id")}: {f.get("what", "")} '
              f'[not reproduced by this run: tier={self.tier} seed={self.seed}]', flush=True)
    if self.violations:
      seen = set()
      for v in self.violations:
        key = json.dumps(v['signature'], sort_keys=True)
        if key in seen:
          continue
        seen.add(key)
        p = self._write_replay({'property': self.prop, 'tier': self.tier, 'seed': self.seed, **v})
        print(f'VIOLATION property={self.prop} replay={p}', flush=True)
        print('  signature: ' + key, flush=True)
        print('  detail: ' + json.dumps(v['detail'], default=repr)[:1500], flush=True)
      return 1
    print(f'OK property={self.prop} tier={self.tier} states={self.states} '
          f'transitions={self.transitions} traces={self.traces} evaluations={coverage["evaluations"]} '
          f'distinct={len(self.distinct)} wall={wall:.1f}s', flush=True)
    return 0


def run_check(prop: str, fn, tier: str, seed: int, level: str = 'model_checking', write_evidence: bool = True) -> int:
  chk = Check(prop, tier, seed, level)
  chk.write_evidence = write_evidence
  try:
    fn(chk)
  except (MachineryFailure, tlcmod.TLCError) as e:
    print(f'MACHINERY-FAILURE property={prop}: {e}', file=sys.stderr, flush=True)
    traceback.print_exc()
    return 2
  except Exception as e:  # pylint: disable=broad-except
    print(f'MACHINERY-FAILURE property={prop}: unexpected {type(e).__name__}: {e}',
          file=sys.stderr, flush=True)
    traceback.print_exc()
    return 2
  return chk.finish()
