"""Parser for TLC's textual rendering of TLA+ values.

Handles: integers, strings, booleans, model values / identifiers, sequences
<<..>>, sets {..}, records [a |-> v, ..], explicit functions (k :> v @@ ..),
intervals a..b.  Functions whose domain is 1..n are printed by TLC as
sequences, so they come back as Python lists; other functions come back as
dicts; records as dicts keyed by str; sets as frozensets when hashable else
lists (order as printed).
"""
from __future__ import annotations


class ModelValue(str):
  """A TLA+ model value / bare identifier."""
  __slots__ = ()

  def __repr__(self):
    return f'MV({str(self)})'


class ParseError(ValueError):
  pass


def _freeze(v):
  if isinstance(v, list):
    return tuple(_freeze(x) for x in v)
  if isinstance(v, dict):
    return tuple(sorted(((_freeze(k), _freeze(x)) for k, x in v.items()),
                        key=repr))
  if isinstance(v, (set, frozenset)):
    return frozenset(_freeze(x) for x in v)
  return v


class _P:

  def __init__(self, s: str):
    self.s = s
    self.i = 0
    self.n = len(s)

  def ws(self):
    s, n = self.s, self.n
    i = self.i
    while i < n and s[i] in ' \t\r\n':
      i += 1
    self.i = i

  def peek(self, k=1):
    return self.s[self.i:self.i + k]

  def expect(self, tok):
    self.ws()
    if not self.s.startswith(tok, self.i):
      raise ParseError(
          f'expected {tok!r} at {self.i}: {self.s[self.i:self.i + 40]!r}')
    self.i += len(tok)

  def value(self):
    self.ws()
    v = self.atom()
    # interval a..b
    self.ws()
    if self.s.startswith('..', self.i) and isinstance(v, int):
      self.i += 2
      hi = self.atom()
      return frozenset(range(v, hi + 1))
    return v

  def atom(self):
    self.ws()
    s = self.s
    if self.i >= self.n:
      raise ParseError('unexpected end')
    c = s[self.i]
    if c == '<' and s.startswith('<<', self.i):
      self.i += 2
      out = []
      self.ws()
      if s.startswith('>>', self.i):
        self.i += 2
        return out
      while True:
        out.append(self.value())
        self.ws()
        if s.startswith('>>', self.i):
          self.i += 2
          return out
        self.expect(',')
    if c == '{':
      self.i += 1
      out = []
      self.ws()
      if s.startswith('}', self.i):
        self.i += 1
        return frozenset()
      while True:
        out.append(self.value())
        self.ws()
        if s.startswith('}', self.i):
          self.i += 1
          break
        self.expect(',')
      try:
        return frozenset(_freeze(x) for x in out)
      except TypeError:
        return out
    if c == '[':
      self.i += 1
      out = {}
      self.ws()
      if s.startswith(']', self.i):
        self.i += 1
        return out
      while True:
        self.ws()
        j = self.i
        while j < self.n and (s[j].isalnum() or s[j] == '_'):
          j += 1
        name = s[self.i:j]
        self.i = j
        self.expect('|->')
        out[name] = self.value()
        self.ws()
        if s.startswith(']', self.i):
          self.i += 1
          return out
        self.expect(',')
    if c == '(':
      self.i += 1
      out = {}
      self.ws()
      if s.startswith(')', self.i):
        self.i += 1
        return out
      while True:
        k = self.value()
        self.expect(':>')
        v = self.value()
        out[_freeze(k)] = v
        self.ws()
        if s.startswith(')', self.i):
          self.i += 1
          return out
        self.expect('@@')
    if c == '"':
      j = self.i + 1
      buf = []
      while s[j] != '"':
        if s[j] == '\\':
          j += 1
          buf.append({'n': '\n', 't': '\t'}.get(s[j], s[j]))
        else:
          buf.append(s[j])
        j += 1
      self.i = j + 1
      return ''.join(buf)
    if c == '-' or c.isdigit():
      j = self.i + 1
      while j < self.n and s[j].isdigit():
        j += 1
      v = int(s[self.i:j])
      self.i = j
      return v
    if c.isalpha() or c == '_':
      j = self.i
      while j < self.n and (s[j].isalnum() or s[j] == '_'):
        j += 1
      w = s[self.i:j]
      self.i = j
      if w == 'TRUE':
        return True
      if w == 'FALSE':
        return False
      return ModelValue(w)
    raise ParseError(f'unexpected {c!r} at {self.i}: {s[self.i:self.i+40]!r}')


def parse(text: str):
  p = _P(text)
  v = p.value()
  p.ws()
  if p.i != p.n:
    raise ParseError(f'trailing text at {p.i}: {text[p.i:p.i + 40]!r}')
  return v


def parse_state(text: str) -> dict:
  """Parses a TLC state: '/\\ a = v\\n/\\ b = w' (or a single 'a = v')."""
  text = text.strip()
  if text.startswith('/\\'):
    text = text[2:]
  out = {}
  for part in text.split('\n/\\ '):
    part = part.strip()
    if not part:
      continue
    name, _, rhs = part.partition(' = ')
    if not _:
      name, _, rhs = part.partition('=')
    out[name.strip()] = parse(rhs.strip())
  return out
