"""Three-way check of PyContainers.tla: reference (TLC export) vs builtin list/dict vs pg.List/pg.Dict."""
from __future__ import annotations

import copy
from typing import Any, Dict, List, Tuple

import pyglove as pg

NONE = 9999
KEYS = {1: 'a', 2: 'b.c', 3: '12', 4: 7}          # plain str, str with '.', digits-only str, int
RKEYS = {v: k for k, v in KEYS.items()}
DEFAULT = 777


def val(v):
  """Concretises a value code: 250 is a nested plain container."""
  if v == 250:
    return {'q': [1]}
  if v == 251:
    return None
  return v


def unval(x):
  if isinstance(x, dict) and dict(x) == {'q': [1]}:
    return 250
  if x is None:
    return 251
  return x


def b(x):
  return None if x == NONE else x


def err(e) -> str:
  for c in (IndexError, KeyError, ValueError, TypeError):
    if isinstance(e, c):
      return c.__name__
  return type(e).__name__


def plain(x):
  """Plain Python structure of a (possibly symbolic) container, for comparison."""
  if isinstance(x, dict):
    return {k: plain(v) for k, v in x.items()}
  if isinstance(x, (list, tuple)):
    return [plain(v) for v in x]
  return x


def list_apply(xs: list, op: dict, symbolic: bool) -> Tuple[str, Any, list, Dict[str, Any]]:
  """Runs one list operation; returns (outcome, ret, content after, extra observations)."""
  o = op['o']
  extra: Dict[str, Any] = {}
  x = pg.List(xs) if symbolic else list(xs)
  v = val(op['v'])
  vs = [val(t) for t in op['vs']]
  a, bb, c = op['a'], op['b'], op['c']
  try:
    ret = []
    if o == 'getitem':
      ret = x[a]
    elif o == 'setitem':
      x[a] = v
    elif o == 'delitem':
      del x[a]
    elif o == 'insert':
      x.insert(a, v)
    elif o == 'pop':
      ret = x.pop(a)
    elif o == 'pop_last':
      ret = x.pop()
    elif o == 'append':
      x.append(v)
    elif o == 'extend':
      x.extend(vs)
    elif o == 'iadd':
      y = x
      x += vs
      extra['same_object'] = x is y
    elif o == 'add':
      ret = x + vs
      extra['ret_type_ok'] = isinstance(ret, type(x))
    elif o == 'eq':
      ret = int((x == vs) and not (x != vs))
      extra['ne_consistent'] = (x == vs) != (x != vs)
    elif o == 'remove':
      x.remove(v)
    elif o == 'index':
      ret = x.index(v)
    elif o == 'count':
      ret = x.count(v)
    elif o == 'contains':
      ret = int(v in x)
    elif o == 'len':
      ret = len(x)
    elif o == 'iter':
      ret = [t for t in x]
    elif o == 'copy':
      ret = x.copy()
      extra['copy_is_new'] = ret is not x
      extra['ret_type_ok'] = isinstance(ret, type(x))
    elif o == 'tojson':
      ret = pg.to_json(x) if symbolic else list(x)
    elif o == 'reverse':
      x.reverse()
    elif o == 'sort':
      x.sort()
    elif o == 'sortx':
      kw = {}
      if a == 1:
        kw['reverse'] = True
      if bb == 1:
        kw['key'] = lambda t: t % 10
      x.sort(**kw)
    elif o == 'clear':
      x.clear()
    elif o == 'mul':
      ret = x * a
    elif o == 'imul':
      y = x
      x *= a
      extra['same_object'] = x is y
    elif o == 'getslice':
      ret = x[b(a):b(bb):b(c)]
    elif o == 'delslice':
      del x[b(a):b(bb):b(c)]
    elif o == 'setslice':
      x[b(a):b(bb):b(c)] = vs
    else:
      raise AssertionError(o)
    out = 'ok'
  except Exception as e:  # pylint: disable=broad-except
    out, ret = err(e), []
  after = [unval(plain(t)) for t in x]
  if symbolic:
    # every way of reading back must agree
    extra['readback'] = (len(x) == len(after) and [unval(plain(x[i])) for i in range(len(x))] == after
                         and x == [val(t) for t in after] and [unval(plain(t)) for t in pg.to_json(x)] == after)
    extra['nested_symbolic'] = all(isinstance(t, pg.Symbolic) for t in x if isinstance(t, (dict, list)))
  if isinstance(ret, (list, tuple)):
    ret = [unval(plain(t)) for t in ret]
  else:
    ret = unval(plain(ret))
  return out, ret, after, extra


def dict_apply(d: list, op: dict, symbolic: bool):
  o = op['o']
  extra: Dict[str, Any] = {}
  src = {KEYS[k]: val(v) for k, v in d}
  x = pg.Dict(src) if symbolic else dict(src)
  k = KEYS.get(op['k'])
  v = val(op['v'])
  kvs = {KEYS[kk]: val(vv) for kk, vv in op['kvs']}

  def enc_items(items):
    return [[RKEYS[kk], unval(plain(vv))] for kk, vv in items]

  try:
    ret = []
    if o == 'getitem':
      ret = x[k]
    elif o == 'delitem':
      del x[k]
    elif o == 'set_missing':
      if symbolic:
        x[k] = pg.MISSING_VALUE
      elif k in x:
        del x[k]
    elif o == 'pop':
      ret = x.pop(k)
    elif o == 'pop_default':
      ret = x.pop(k, DEFAULT)
    elif o == 'get':
      ret = x.get(k, DEFAULT)
    elif o == 'contains':
      ret = int(k in x)
    elif o == 'setitem':
      x[k] = v
    elif o == 'setdefault':
      ret = x.setdefault(k, v)
    elif o == 'popitem':
      kk, vv = x.popitem()
      ret = [RKEYS[kk], unval(plain(vv))]
    elif o == 'len':
      ret = len(x)
    elif o == 'keys':
      ret = [RKEYS[t] for t in x.keys()]
      extra['iter_agrees'] = [RKEYS[t] for t in x] == ret
    elif o == 'values':
      ret = [unval(plain(t)) for t in x.values()]
    elif o == 'items':
      ret = enc_items(x.items())
    elif o == 'copy':
      y = x.copy()
      extra['copy_is_new'] = y is not x
      extra['ret_type_ok'] = isinstance(y, type(x))
      ret = enc_items(y.items())
    elif o == 'tojson':
      j = pg.to_json(x) if symbolic else dict(x)
      ret = enc_items(j.items())
    elif o == 'clear':
      x.clear()
    elif o == 'update':
      x.update(kvs)
    elif o == 'ior':
      y = x
      x |= kvs
      extra['same_object'] = x is y
    elif o == 'or':
      y = x | kvs
      ret = enc_items(y.items())
    elif o == 'eq':
      ret = int((x == kvs) and not (x != kvs))
    else:
      raise AssertionError(o)
    out = 'ok'
  except Exception as e:  # pylint: disable=broad-except
    out, ret = err(e), []
  after = enc_items(x.items())
  if symbolic:
    extra['readback'] = (len(x) == len(after) and all(RKEYS[t] == a[0] for t, a in zip(x, after))
                         and x == {KEYS[a[0]]: val(a[1]) for a in after}
                         and all(unval(plain(x[KEYS[a[0]]])) == a[1] for a in after))
    extra['nested_symbolic'] = all(isinstance(t, pg.Symbolic) for t in x.values() if isinstance(t, (dict, list)))
  if not isinstance(ret, list):
    ret = unval(plain(ret))
  return out, ret, after, extra


def expected(res: dict):
  ret = res['ret']
  return res['k'], ret, res['xs']


def norm_ret(ret):
  """TLC exports <<>> for 'no value' and sequences as lists; records of pairs as lists of lists."""
  if isinstance(ret, tuple):
    return list(ret)
  return ret


def rebind_apply(xs: list, op: dict, symbolic: bool):
  """One batched rebind with two index entries on a long list: (outcome, content after).

  The builtin side applies the two entries by hand, higher index first (each entry addresses a position of the
  list as it was before the call)."""
  vals = {op['i']: (op['ki'], 401), op['j']: (op['kj'], 402)}
  try:
    if symbolic:
      x = pg.List(xs)
      arg = {}
      for idx, (k, v) in vals.items():
        arg[idx] = v if k == 'set' else pg.MISSING_VALUE if k == 'del' else pg.Insertion(v)
      # the entries are given lowest index first and highest index first alternately: the order of the argument must not matter
      if (op['i'] + op['j']) % 2:
        arg = dict(reversed(list(arg.items())))
      x.rebind(arg)
    else:
      x = list(xs)
      for idx in sorted(vals, reverse=True):
        k, v = vals[idx]
        if k == 'set':
          x[idx] = v
        elif k == 'del':
          del x[idx]
        else:
          x.insert(idx, v)
    return 'ok', list(x)
  except Exception as e:  # pylint: disable=broad-except
    return err(e), list(x)
