"""G01 driver: builds the universe of specs/Diff.tla with the real API and observes pg.diff on it.

The universe (value descriptors), the reference walk, the laws, the patch machine and the verdict all live in
Diff.tla; this module only
(1) turns a descriptor exported by TLC into a Python value (plain containers or pg.List / pg.Dict / pg.Object),
(2) calls pg.diff(a, b, flatten=.., collapse=.., mode=..) on every ordered pair with every option combination,
    pg.eq(a, b), and pg.to_json(a) / pg.to_json(b) before and after every call,
(3) projects every result onto the entry form of the spec - a list of (key path, left, right) with the values
    written back as descriptors - and writes the table in the shape `Obs` of Diff.tla.
No expected value is computed here: nothing is compared with anything except to_json before/after (purity).
"""
from __future__ import annotations

import concurrent.futures
import json
import multiprocessing
import os
from typing import Any, Dict, List, Tuple

import pyglove as pg
from pyglove.core.symbolic.diff import Diff


class A(pg.Object):
  x: Any
  y: Any


class B(A):          # subclass with the same fields
  pass


class C(pg.Object):  # unrelated class with another field
  z: Any


CLASSES = {1: A, 2: B, 3: C}
CLS_DICT, CLS_PGDICT, CLS_LIST = 5, 6, 7
CLASS_IDS = {A: 1, B: 2, C: 3, dict: CLS_DICT, pg.Dict: CLS_PGDICT, pg.List: CLS_LIST}
FIELDS = {1: ('x', 'y'), 2: ('x', 'y'), 3: ('z',)}
TYPE_KEY = 99
UNKNOWN_KEY = 98
BAD = ['bad', 0]


def same_kind(x, y) -> bool:
  """The callable of collapse option "fn" (`Fn` in Diff.tla): two objects of any classes, two dicts or two lists."""
  return ((isinstance(x, pg.Object) and isinstance(y, pg.Object))
          or (isinstance(x, dict) and isinstance(y, dict))
          or (isinstance(x, list) and isinstance(y, list)))


COLLAPSE_ARG = {'same_type': 'same_type', 'all': True, 'none': False, 'fn': same_kind}
COLLAPSE_SRC = {'same_type': "'same_type'", 'all': 'True', 'none': 'False',
                'fn': 'lambda x, y: any(isinstance(x, t) and isinstance(y, t) for t in (pg.Object, dict, list))'}


class Tables:
  """Key / string tables exported by the spec."""

  def __init__(self, data: dict):
    self.strs: List[str] = list(data['strs'])
    self.key_name: Dict[int, str] = {int(k): s for k, s in data['keys']}
    self.key_id: Dict[str, int] = {s: k for k, s in self.key_name.items()}
    self.collapses: List[str] = list(data['collapses'])
    self.modes: List[str] = list(data['modes'])
    self.forms: List[str] = list(data['forms'])

  def combos(self) -> List[Tuple[str, str, str]]:
    """In the order of `Combo` in Diff.tla."""
    return [(c, m, f) for c in self.collapses for m in self.modes for f in self.forms]


# ---------------------------------------------------------------------------------------------------------------
# descriptor -> value

def build(v, pgc: bool, tb: Tables):
  """Descriptor <<tag, payload>> -> Python value.  pgc: lists / dicts are pg.List / pg.Dict."""
  tag, p = v
  if tag == 'none':
    return None
  if tag == 'bool':
    return bool(p)
  if tag == 'int':
    return int(p)
  if tag == 'flt':
    return p / 2.0
  if tag == 'str':
    return tb.strs[p - 1]
  if tag == 'list':
    items = [build(e, pgc, tb) for e in p]
    return pg.List(items) if pgc else items
  if tag == 'dict':
    d = {}
    for k, e in p:                       # insertion order as given
      d[tb.key_name[k]] = build(e, pgc, tb)
    return pg.Dict(d) if pgc else d
  if tag == 'obj':
    cls, fields = p
    return CLASSES[cls](*[build(e, True, tb) for e in fields])
  raise ValueError(f'unknown tag {tag!r}')


# ---------------------------------------------------------------------------------------------------------------
# value -> descriptor (projection of what pg.diff reports)

def project(x, tb: Tables):
  if isinstance(x, Diff._Missing):       # pylint: disable=protected-access
    return ['mis', 0]
  if x is None:
    return ['none', 0]
  if isinstance(x, bool):
    return ['bool', int(x)]
  if isinstance(x, int):
    return ['int', x]
  if isinstance(x, float):
    h = x * 2
    return ['flt', int(h)] if h == int(h) else BAD
  if isinstance(x, str):
    return ['str', tb.strs.index(x) + 1] if x in tb.strs else BAD
  if isinstance(x, type):
    return ['cls', CLASS_IDS[x]] if x in CLASS_IDS else BAD
  if isinstance(x, list):
    return ['list', [project(e, tb) for e in x]]
  if isinstance(x, dict):
    items = x.sym_items() if isinstance(x, pg.Dict) else x.items()
    return ['dict', [[tb.key_id.get(k, UNKNOWN_KEY), project(e, tb)] for k, e in items]]
  if type(x) in (A, B, C):
    k = CLASS_IDS[type(x)]
    return ['obj', [k, [project(x.sym_getattr(f), tb) for f in FIELDS[k]]]]
  return BAD


def _key(k, tb: Tables) -> int:
  if isinstance(k, int) and not isinstance(k, bool):
    return 100 + k
  return tb.key_id.get(k, UNKNOWN_KEY)


def _is_inner(d: Diff) -> bool:
  """A Diff that stands for a walked container: it has children, or both sides are class objects (the universe has
  no class objects as leaves)."""
  return bool(d.children) or (isinstance(d.left, type) and isinstance(d.right, type))


def _walk(d, path: List[int], out: List[list], tb: Tables):
  """Flattens a nested Diff: leaves -> [path, left, right]; walked containers -> a type entry [path + _type, ..]."""
  if not isinstance(d, Diff):
    out.append([path, BAD, BAD])
    return
  if _is_inner(d):
    out.append([path + [TYPE_KEY], project(d.left, tb), project(d.right, tb)])
    is_list = isinstance(d.left, type) and issubclass(d.left, list)
    for k, cd in d.children.sym_items():
      if is_list:
        try:
          k = int(k)
        except ValueError:
          pass
      _walk(cd, path + [_key(k, tb)], out, tb)
  else:
    left, right = project(d.left, tb), project(d.right, tb)
    if left[0] == 'mis' and right[0] == 'mis' and not path:
      return                                  # Diff(): "no diff"
    out.append([path, left, right])


def entries_of(result, flat: bool, tb: Tables) -> Tuple[List[list], int]:
  """(entries, notflat): notflat = the flattened result holds a Diff that is not a leaf."""
  out: List[list] = []
  notflat = 0
  if flat and isinstance(result, dict):
    for key, d in result.items():
      path = [_key(k, tb) for k in pg.utils.KeyPath.parse(key).keys] if isinstance(key, str) else [UNKNOWN_KEY]
      if isinstance(d, Diff) and path and path[-1] == TYPE_KEY:
        out.append([path, project(d.left, tb), project(d.right, tb)])
        continue
      if isinstance(d, Diff) and _is_inner(d):
        notflat = 1
      _walk(d, path, out, tb)
  else:
    if flat and isinstance(result, Diff) and _is_inner(result):
      notflat = 1
    _walk(result, [], out, tb)
  out.sort(key=json.dumps)
  return out, notflat


def observe_cell(a, b, c: str, m: str, f: str, tb: Tables) -> dict:
  try:
    r = pg.diff(a, b, flatten=(f == 'flat'), collapse=COLLAPSE_ARG[c], mode=m)
    nd = 0 if r else 1
    e, fl = entries_of(r, f == 'flat', tb)
    return {'st': 0, 'nd': nd, 'fl': fl, 'e': e}
  except Exception as ex:  # pylint: disable=broad-except
    return {'st': 1, 'nd': 0, 'fl': 0, 'e': [], 'err': type(ex).__name__}


def _snapshot(x) -> str:
  try:
    return json.dumps(pg.to_json(x))
  except Exception as ex:  # pylint: disable=broad-except
    return f'<to_json raised {type(ex).__name__}>'


def observe_pair(ea: dict, eb: dict, tb: Tables) -> Tuple[List[str], int, int, int]:
  """All option combinations on one ordered pair, on freshly built values."""
  a = build(ea['v'], bool(ea['pg']), tb)
  b = build(eb['v'], bool(eb['pg']), tb)
  try:
    q = pg.eq(a, b)
    eq = 1 if q is True else 0 if q is False else 2
  except Exception:  # pylint: disable=broad-except
    eq = 2
  before = (_snapshot(a), _snapshot(b))
  pure = 1
  cells = []
  for c, m, f in tb.combos():
    r = observe_cell(a, b, c, m, f, tb)
    r.pop('err', None)
    cells.append(json.dumps(r, sort_keys=True))
    if (_snapshot(a), _snapshot(b)) != before:
      pure = 0
  adopted = int(isinstance(a, pg.Symbolic) and a.sym_parent is not None) \
      + int(isinstance(b, pg.Symbolic) and b.sym_parent is not None)
  return cells, eq, pure, adopted


_CTX: Dict[str, Any] = {}


def _row(a_ix: int):
  """One row of the table; results are interned per row (most cells of a row share a few results)."""
  universe, tb = _CTX['universe'], _CTX['tb']
  local: Dict[str, int] = {}
  row = []
  for eb in universe:
    cells, eq, pure, adopted = observe_pair(universe[a_ix], eb, tb)
    row.append(([local.setdefault(s, len(local)) for s in cells], eq, pure, adopted))
  return a_ix, list(local), row


def observe(data: dict, procs: int = 0) -> Tuple[dict, dict]:
  """Evaluates the real pg.diff on the whole universe; returns (the table for DiffObs.tla, counters)."""
  universe = data['universe']
  tb = Tables(data)
  n = len(universe)
  procs = procs or min(int(os.environ.get('VERIF_TLC_WORKERS', '16')), os.cpu_count() or 1)
  _CTX['universe'], _CTX['tb'] = universe, tb
  rows: Dict[int, list] = {}
  if procs > 1:
    ctx = multiprocessing.get_context('fork')
    with concurrent.futures.ProcessPoolExecutor(max_workers=procs, mp_context=ctx) as ex:
      for a_ix, strs, row in ex.map(_row, range(n), chunksize=1):
        rows[a_ix] = (strs, row)
  else:
    for a_ix in range(n):
      rows[a_ix] = _row(a_ix)[1:]
  # intern results and values (deterministic: row-major order)
  res_ix: Dict[str, int] = {}
  val_ix: Dict[str, int] = {}
  res: List[dict] = []
  vals: List[Any] = []

  def val(d) -> int:
    k = json.dumps(d)
    if k not in val_ix:
      vals.append(d)
      val_ix[k] = len(vals)
    return val_ix[k]

  def result(s: str) -> int:
    if s not in res_ix:
      r = json.loads(s)
      r['e'] = [[p, val(l), val(rr)] for p, l, rr in r['e']]
      res.append(r)
      res_ix[s] = len(res)
    return res_ix[s]

  cell, eq, pure = [], [], []
  counters = {'calls': 0, 'raised': 0, 'notflat': 0, 'adopted_inputs': 0, 'impure_pairs': 0}
  for a_ix in range(n):
    crow, erow, prow = [], [], []
    strs, row = rows[a_ix]
    ids = [result(s) for s in strs]
    for cells, q, p, adopted in row:
      crow.append([ids[k] for k in cells])
      erow.append(q)
      prow.append(p)
      counters['calls'] += len(cells)
      counters['adopted_inputs'] += adopted
      counters['impure_pairs'] += 1 - p
    cell.append(crow)
    eq.append(erow)
    pure.append(prow)
  for crow in cell:
    for ids in crow:
      for k in ids:
        counters['raised'] += res[k - 1]['st']
        counters['notflat'] += res[k - 1]['fl']
  counters['distinct_results'] = len(res)
  counters['distinct_values'] = len(vals)
  counters['nonempty_cells'] = sum(1 for crow in cell for ids in crow for k in ids if res[k - 1]['e'])
  obs = {'n': n, 'vals': vals, 'res': res, 'cell': cell, 'eq': eq, 'pure': pure}
  return obs, counters


# ---------------------------------------------------------------------------------------------------------------
# reporting

def source(v, pgc: bool, tb: Tables) -> str:
  """Python source text of a universe value (for witnesses)."""
  tag, p = v
  if tag in ('none', 'bool', 'int', 'flt', 'str'):
    return repr(build(v, False, tb))
  if tag == 'list':
    s = '[' + ', '.join(source(e, pgc, tb) for e in p) + ']'
    return f'pg.List({s})' if pgc else s
  if tag == 'dict':
    s = '{' + ', '.join(f'{tb.key_name[k]!r}: {source(e, pgc, tb)}' for k, e in p) + '}'
    return f'pg.Dict({s})' if pgc else s
  if tag == 'obj':
    cls, fields = p
    return f'{CLASSES[cls].__name__}(' + ', '.join(source(e, True, tb) for e in fields) + ')'
  return repr(v)


def describe_call(data: dict, a: int, b: int, c: str, m: str, f: str) -> dict:
  """Concrete rendering of one cell (1-based universe indices) with what the real pg.diff returns for it."""
  tb = Tables(data)
  ea, eb = data['universe'][a - 1], data['universe'][b - 1]
  sa, sb = source(ea['v'], bool(ea['pg']), tb), source(eb['v'], bool(eb['pg']), tb)
  out = {'a': sa, 'b': sb}
  if m in tb.modes and f in tb.forms:
    out['call'] = f'pg.diff({sa}, {sb}, flatten={f == "flat"}, collapse={COLLAPSE_SRC[c]}, mode={m!r})'
    va, vb = build(ea['v'], bool(ea['pg']), tb), build(eb['v'], bool(eb['pg']), tb)
    try:
      r = pg.diff(va, vb, flatten=(f == 'flat'), collapse=COLLAPSE_ARG[c], mode=m)
      out['returned'] = repr(r)[:600]
    except Exception as ex:  # pylint: disable=broad-except
      out['raised'] = f'{type(ex).__name__}: {str(ex)[:200]}'
  return out
