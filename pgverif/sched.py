"""Deterministic scheduler for real Python threads (C16).

Exactly one worker thread runs at any time: the *run token* is handed from the
controller (the thread that calls `Scheduler.resume`) to one worker and comes
back when that worker reaches its next *yield point*:

  hook mode   every event reported through `Scheduler.emit` is a yield point;
  line mode   every 'line' trace event inside the traced source files is a yield
              point (sys.settrace), except the lines of the hook calls themselves, so
              that a statement and the hook that reports it are one atomic step.

Events get their sequence number while the emitting thread holds the token; there
is no wall-clock ordering.  A worker that does not come back within a quiet period
is classified *blocked* - which the callers only ever compare with "disabled" in
the specification (negative probe).  A blocked worker that later produces an event
parks, without the token, until it is resumed; its event is recorded then (or
immediately, by the controller, if the lock model says that the event happened
inside somebody else's critical section).

The scheduler knows nothing about PyGlove; the meaning of events (which lock an
event wants / acquires / releases, which events must not yield) is given by a
`classify` callback.
"""
from __future__ import annotations

import ast
import random
import sys
import threading
import time
from typing import Any, Callable, Dict, List, Optional, Sequence, Tuple


class Info:
  """What an event means for scheduling."""
  __slots__ = ('want', 'acquire', 'release', 'hold', 'ignore')

  def __init__(self, want=None, acquire=None, release=(), hold=False, ignore=False):
    self.want = want          # lock key the thread will try to take next
    self.acquire = acquire    # lock key the thread has just taken
    self.release = tuple(release)   # lock keys that are free once the thread moves on
    self.hold = hold          # not a yield point: the thread keeps the token until its next event
    self.ignore = ignore      # not an event at all


START, PARKED, RUNNING, BLOCKED, FINISHED = 'start', 'parked', 'running', 'blocked', 'finished'


class Scheduler:

  def __init__(self, classify: Callable[[str, dict], Info], *, mode: str = 'hook',
               quiet: float = 0.01, stuck: float = 3.0, trace_files: Sequence[str] = ()):
    assert mode in ('hook', 'line')
    self.classify = classify
    self.mode = mode
    self.quiet = quiet
    self.stuck = stuck
    self.trace_files = tuple(trace_files)
    self.cv = threading.Condition()
    self.turn: Optional[int] = None
    self.free = False
    self.seq = 0
    self.events: List[dict] = []
    self.state: Dict[int, str] = {}
    self.last: Dict[int, Optional[dict]] = {}      # last recorded event per worker
    self.wants: Dict[int, Any] = {}                # lock the worker is about to take
    self.pending: Dict[int, Tuple[str, dict]] = {}  # tokenless arrivals
    self.holding_token_after_hold: Dict[int, bool] = {}
    self.holder: Dict[Any, int] = {}               # lock model (from events)
    self.reserved: Dict[Any, int] = {}             # lock -> blocked worker that will get it next
    self.crash: Dict[int, str] = {}
    self.threads: Dict[int, threading.Thread] = {}
    self.tls = threading.local()
    self.yields = 0
    self.probes = 0
    self.probes_blocked = 0
    self.tokenless = 0
    self.unexpected_blocks = 0
    self.violation: Optional[dict] = None
    self._noyield_lines: Dict[str, set] = {}

  # ------------------------------------------------------------------ thread side
  def worker_id(self) -> Optional[int]:
    return getattr(self.tls, 'w', None)

  def emit(self, event: str, fields: dict) -> None:
    """Called (through the hooks) by a worker thread at a linearisation point."""
    w = self.worker_id()
    if w is None or self.free:
      return
    info = self.classify(event, fields)
    if info.ignore:
      return
    self._arrive(w, event, fields, info, park=(self.mode == 'hook' and not info.hold))

  def _record(self, w: int, event: str, fields: dict, info: Info) -> dict:
    self.seq += 1
    ev = {'seq': self.seq, 'w': w, 'e': event}
    ev.update(fields)
    self.events.append(ev)
    self.last[w] = ev
    self.wants[w] = info.want
    self.holding_token_after_hold[w] = bool(info.hold)
    if info.acquire is not None:
      self.holder[info.acquire] = w
      if self.reserved.get(info.acquire) == w:
        del self.reserved[info.acquire]
    for k in info.release:
      if self.holder.get(k) == w:
        del self.holder[k]
    return ev

  def _arrive(self, w, event, fields, info, park):
    with self.cv:
      if self.free:
        return
      if self.turn != w:
        # woken up after having been classified blocked: wait for the token
        self.tokenless += 1
        self.pending[w] = (event, fields)
        self.cv.notify_all()
        while self.turn != w and not self.free:
          self.cv.wait()
        if self.free:
          return
        if w not in self.pending:        # the controller recorded it already
          pass
        else:
          del self.pending[w]
          self._record(w, event, fields, info)
      else:
        self._record(w, event, fields, info)
      self.state[w] = RUNNING
      self.cv.notify_all()
      if park:
        self._park(w)

  def _park(self, w):
    # caller holds cv and the token
    self.state[w] = PARKED
    self.turn = None
    self.cv.notify_all()
    while self.turn != w and not self.free:
      self.cv.wait()
    if not self.free:
      self.state[w] = RUNNING
      self.cv.notify_all()

  def _line_yield(self, w):
    with self.cv:
      if self.free:
        return
      if self.turn != w:
        # a worker that had been classified blocked shows up at a scheduling point
        self.tokenless += 1
        self.pending[w] = ('line', {})
        self.cv.notify_all()
        while self.turn != w and not self.free:
          self.cv.wait()
        self.pending.pop(w, None)
        if self.free:
          return
        self.state[w] = RUNNING
        self.cv.notify_all()
        return
      if self.holding_token_after_hold.get(w) or self._probing == w:
        return
      self.yields += 1
      self._park(w)

  _probing: Optional[int] = None

  def _noyield(self, filename: str) -> set:
    s = self._noyield_lines.get(filename)
    if s is None:
      s = set()
      try:
        tree = ast.parse(open(filename).read())
        for node in ast.walk(tree):
          if (isinstance(node, ast.Expr) and isinstance(node.value, ast.Call)
              and isinstance(node.value.func, ast.Attribute) and node.value.func.attr == 'emit'
              and isinstance(node.value.func.value, ast.Name)
              and node.value.func.value.id == '_verif_hooks'):
            s.update(range(node.lineno, node.end_lineno + 1))
      except (OSError, SyntaxError):
        pass
      self._noyield_lines[filename] = s
    return s

  def _tracer(self, frame, event, arg):
    if self.free:
      return None
    fn = frame.f_code.co_filename
    if not fn.endswith(self.trace_files):
      return None
    if event == 'call':
      return self._tracer
    if event == 'line':
      if frame.f_lineno not in self._noyield(fn):
        self._line_yield(self.tls.w)
    return self._tracer

  def _thread_main(self, w, fn):
    self.tls.w = w
    with self.cv:
      self.state[w] = PARKED
      self.cv.notify_all()
      while self.turn != w and not self.free:
        self.cv.wait()
      self.state[w] = RUNNING
      self.cv.notify_all()
    if self.mode == 'line':
      sys.settrace(self._tracer)
    try:
      fn(w)
    except BaseException as e:  # pylint: disable=broad-except
      self.crash[w] = f'{type(e).__name__}: {e}'
    finally:
      sys.settrace(None)
      with self.cv:
        if not self.free:
          if self.turn != w:
            self.pending[w] = ('finish', {})
            self.cv.notify_all()
            while self.turn != w and not self.free:
              self.cv.wait()
            self.pending.pop(w, None)
          if not self.free:
            self._record(w, 'finish', {'crash': 1 if w in self.crash else 0}, Info())
        self.state[w] = FINISHED
        # whatever the model thought this worker held is gone
        for k in [k for k, h in self.holder.items() if h == w]:
          del self.holder[k]
        if self.turn == w:
          self.turn = None
        self.cv.notify_all()

  # ------------------------------------------------------------------ controller side
  def start(self, fns: Sequence[Callable[[int], None]]):
    for i, fn in enumerate(fns):
      w = i + 1
      self.state[w] = START
      self.last[w] = None
      t = threading.Thread(target=self._thread_main, args=(w, fn), daemon=True, name=f'w{w}')
      self.threads[w] = t
      t.start()
    with self.cv:
      self.cv.wait_for(lambda: all(s == PARKED for s in self.state.values()), timeout=10)

  def workers(self) -> List[int]:
    return sorted(self.state)

  def alive(self) -> List[int]:
    return [w for w in self.workers() if self.state[w] != FINISHED]

  def lock_busy_for(self, w) -> Optional[Any]:
    """The lock `w` is about to take if the model says somebody else has (or is promised) it."""
    k = self.wants.get(w)
    if k is None:
      return None
    h = self.holder.get(k)
    r = self.reserved.get(k)
    if (h is not None and h != w) or (r is not None and r != w):
      return k
    return None

  def runnable(self) -> List[int]:
    out = []
    for w in self.alive():
      st = self.state[w]
      if st == PARKED:
        if w in self.pending or self.lock_busy_for(w) is None:
          out.append(w)
      elif st == BLOCKED:
        if w in self.pending:
          # it got the lock meanwhile: fine if the model agrees
          out.append(w)
    return out

  def probe_candidates(self) -> List[int]:
    out = []
    for w in self.alive():
      if self.state[w] == PARKED and w not in self.pending:
        k = self.wants.get(w)
        if k is not None and self.holder.get(k) not in (None, w) and k not in self.reserved:
          out.append(w)
    return out

  def check_intruders(self) -> Optional[dict]:
    """A blocked worker that produced an `acquire` event although the model says the lock is held."""
    with self.cv:
      for w, (event, fields) in list(self.pending.items()):
        info = self.classify(event, fields)
        if info.acquire is not None and self.holder.get(info.acquire) not in (None, w):
          del self.pending[w]
          ev = self._record_intruder(w, event, fields, info)
          return ev
    return None

  def _record_intruder(self, w, event, fields, info):
    holder = self.holder.get(info.acquire)
    self.seq += 1
    ev = {'seq': self.seq, 'w': w, 'e': event}
    ev.update(fields)
    self.events.append(ev)
    self.violation = {'clause': 'mutual_exclusion', 'event': event, 'worker': w, 'holder': holder}
    return ev

  def resume(self, w: int, timeout: Optional[float] = None, probe: bool = False) -> str:
    """Hands the token to `w`; returns its state afterwards (PARKED / FINISHED / BLOCKED)."""
    timeout = self.stuck if timeout is None else timeout
    n0 = len(self.events)
    with self.cv:
      if self.state[w] == FINISHED:
        return FINISHED
      self._probing = w if probe else None
      prev = self.state[w]
      self.turn = w
      self.cv.notify_all()
      if prev in (PARKED, START):
        # the worker is waiting for the token: wait until it has taken it, so that the quiet period
        # below measures the worker and not the operating system's wake-up latency
        self.cv.wait_for(lambda: self.state[w] != prev or self.turn is None, timeout=self.stuck)
      elif w in self.pending:
        self.cv.wait_for(lambda: w not in self.pending or self.turn is None, timeout=self.stuck)
      ok = self.cv.wait_for(lambda: self.turn is None or self.state[w] == FINISHED, timeout=timeout)
      self._probing = None
      if not ok:
        self.turn = None
        self.state[w] = BLOCKED
        return BLOCKED
      self._settle()
      return self.state[w]

  def _settle(self):
    """Determinism: a blocked worker whose lock has just become free is awaited (it parks, tokenless,
    at its `acquire` event) before the next scheduling decision is taken.  Caller holds cv."""
    for k, w in list(self.reserved.items()):
      if self.holder.get(k) is None and self.state.get(w) == BLOCKED and w not in self.pending:
        self.cv.wait_for(lambda: w in self.pending or self.state[w] == FINISHED or self.free,
                         timeout=self.stuck)

  def probe(self, w: int) -> bool:
    """Negative probe: lets `w` run although the model says that it must block.

    Returns True when it blocked (no event within the quiet period).  False: it produced an
    event - recorded in `events`, `violation` set."""
    k = self.wants.get(w)
    holder = self.holder.get(k)
    self.probes += 1
    n0 = len(self.events)
    st = self.resume(w, timeout=self.quiet, probe=True)
    if st == BLOCKED and len(self.events) == n0:
      self.probes_blocked += 1
      self.reserved[k] = w
      return True
    ev = self.events[-1] if len(self.events) > n0 else None
    self.violation = {'clause': 'mutual_exclusion', 'event': ev['e'] if ev else st, 'worker': w,
                      'holder': holder}
    return False

  def abort(self):
    with self.cv:
      self.free = True
      self.cv.notify_all()

  def join(self, timeout: float = 5.0) -> bool:
    self.abort()
    ok = True
    t0 = time.time()
    for t in self.threads.values():
      t.join(max(0.05, timeout - (time.time() - t0)))
      ok = ok and not t.is_alive()
    return ok


# ---------------------------------------------------------------------------- policies
class Policy:
  """Chooses the next worker among the runnable ones."""

  def __init__(self, rng: random.Random):
    self.rng = rng

  def choose(self, runnable: List[int], current: Optional[int], step: int) -> int:
    raise NotImplementedError


class RandomPolicy(Policy):
  name = 'random'

  def choose(self, runnable, current, step):
    return self.rng.choice(runnable)


class StickyPolicy(Policy):
  """Keeps running the same worker; switches with probability p (long runs, rare pre-emptions)."""
  name = 'sticky'

  def __init__(self, rng, p=0.15):
    super().__init__(rng)
    self.p = p

  def choose(self, runnable, current, step):
    if current in runnable and self.rng.random() > self.p:
      return current
    return self.rng.choice(runnable)


class RoundRobinPolicy(Policy):
  name = 'rr'

  def __init__(self, rng, quantum=None):
    super().__init__(rng)
    self.quantum = quantum or rng.choice([1, 2, 3, 5, 8])
    self.left = self.quantum

  def choose(self, runnable, current, step):
    if current in runnable and self.left > 0:
      self.left -= 1
      return current
    self.left = self.quantum - 1
    later = [w for w in runnable if current is None or w > current]
    return later[0] if later else runnable[0]


class PCTPolicy(Policy):
  """PCT-style: random priorities, d priority-change points (Burckhardt et al.)."""
  name = 'pct'

  def __init__(self, rng, nworkers=8, depth=3, horizon=200):
    super().__init__(rng)
    ws = list(range(1, nworkers + 1))
    rng.shuffle(ws)
    self.prio = {w: depth + i for i, w in enumerate(ws)}
    self.change = {rng.randrange(horizon): i for i in range(depth)}

  def choose(self, runnable, current, step):
    if step in self.change and current is not None:
      self.prio[current] = self.change[step]
    return max(runnable, key=lambda w: self.prio.get(w, 0))


def make_policy(name: str, rng: random.Random, nworkers: int, horizon: int) -> Policy:
  if name == 'random':
    return RandomPolicy(rng)
  if name == 'sticky':
    return StickyPolicy(rng)
  if name == 'rr':
    return RoundRobinPolicy(rng)
  if name == 'pct':
    return PCTPolicy(rng, nworkers, depth=rng.choice([1, 2, 3, 4]), horizon=horizon)
  raise ValueError(name)


def run_random(s: Scheduler, fns, policy: Policy, rng: random.Random, *, probe_p: float = 1.0,
               serial_until: Optional[Callable[[Scheduler, int], bool]] = None,
               max_steps: int = 200000) -> str:
  """Starts the workers and runs them to completion under `policy`.

  `serial_until(s, w)`: when given, worker w is first run alone until the predicate holds
  (sequential start).  Returns 'done' | 'deadlock' | 'mutual_exclusion' | 'stuck' | 'overrun'.
  """
  s.start(fns)
  if serial_until is not None:
    for w in s.workers():
      while s.state[w] not in (FINISHED,) and not serial_until(s, w):
        if s.resume(w) == BLOCKED:
          return 'stuck'
  return drive(s, policy, rng, probe_p=probe_p, max_steps=max_steps)


def drive(s: Scheduler, policy: Policy, rng: random.Random, *, probe_p: float = 1.0,
          max_steps: int = 200000) -> str:
  """Runs the (already started) workers to completion under `policy`."""
  current = None
  step = 0
  while s.alive():
    if s.check_intruders() is not None:
      return 'mutual_exclusion'
    step += 1
    if step > max_steps:
      return 'overrun'
    cands = s.probe_candidates()
    if cands and rng.random() < probe_p:
      w = cands[0] if len(cands) == 1 else rng.choice(cands)
      if not s.probe(w):
        return 'mutual_exclusion'
      continue
    run = s.runnable()
    if not run:
      # nobody can move: give late arrivals (workers blocked on a lock without hooks) a chance, then
      # everybody blocked or waiting = deadlock
      with s.cv:
        s.cv.wait_for(lambda: bool(s.pending), timeout=s.stuck if s.unexpected_blocks else 10 * s.quiet)
      if s.check_intruders() is not None:
        return 'mutual_exclusion'
      run = s.runnable()
      if not run:
        return 'deadlock'
    w = policy.choose(run, current, step)
    current = w
    st = s.resume(w)
    if st == BLOCKED and w not in s.reserved.values():
      # blocked although the model said runnable (a lock without hooks): continue with the others
      s.unexpected_blocks += 1
  return 'done'
