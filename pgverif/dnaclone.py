"""S->C replay of DnaClone.tla through real pg.DNA values (clone independence of metadata / userdata)."""
from __future__ import annotations

import copy
from typing import Any, Dict, Optional

import pyglove as pg

KEYS = {1: 'k1', 2: 'k2', 3: 'k3'}


def make_shape(i: int):
  """A DNA bound to a spec, per shape index."""
  if i == 1:
    spec = pg.dna_spec(pg.oneof([1, 2, 3]))
    return pg.DNA(1, spec=spec), spec
  if i == 2:
    spec = pg.dna_spec(pg.Dict(a=pg.oneof([1, 2]), b=pg.manyof(2, [1, 2, 3])))
    return pg.DNA([1, [0, 2]], spec=spec), spec
  spec = pg.dna_spec(pg.oneof([pg.oneof([1, 2]), 3]))
  return pg.DNA((0, 1), spec=spec), spec


class Replayer:

  def __init__(self):
    self.obj: Dict[int, Any] = {}
    self.base: Dict[int, Any] = {}      # id -> (numbers, spec) expected decisions
    self.hits: Dict[str, int] = {}
    self.n_clone = 0

  def project(self, d):
    return ({k: v for k, v in d.metadata.items()}, dict(d.userdata), d.to_numbers(), d.spec)

  def compare(self, st) -> Optional[str]:
    for i, alive in enumerate(st['live'], start=1):
      if not alive:
        continue
      if i not in self.obj:
        return f'dna {i} is live in the spec but unbound'
      d = self.obj[i]
      meta, user, numbers, spec = self.project(d)
      want_meta = {KEYS[k]: v for k, v in self._fn(st['meta'][i - 1]).items() if v != 0}
      want_user = {KEYS[k]: v for k, v in self._fn(st['user'][i - 1]).items() if v != 0}
      if meta != want_meta:
        return f'dna {i}: metadata {meta} expected {want_meta}'
      if user != want_user:
        return f'dna {i}: userdata {user} expected {want_user}'
      nums, sp = self.base[st['shape'][i - 1]]
      if numbers != nums:
        return f'dna {i}: decisions {numbers} expected {nums}'
      if spec is not sp:
        return f'dna {i}: bound spec is not the original spec object'
    ids = [id(o) for o in self.obj.values()]
    if len(set(ids)) != len(ids):
      return 'two spec DNAs are one object'
    return None

  @staticmethod
  def _fn(v):
    # [k \in Keys |-> x] over Keys = 1..n prints as a sequence
    if isinstance(v, dict):
      return {int(k): x for k, x in v.items()}
    return {i + 1: x for i, x in enumerate(v)}

  def replay(self, steps) -> Optional[dict]:
    st0 = steps[0].state
    d, spec = make_shape(st0['shape'][0])
    self.base[st0['shape'][0]] = (d.to_numbers(), d.spec)
    self.obj[1] = d
    err = self.compare(st0)
    if err:
      return {'step': 0, 'act': ['Init'], 'clause': 'state', 'detail': err}
    for i, step in enumerate(steps[1:], start=1):
      st = step.state
      act = st['act']
      name = act[0]
      try:
        if name == 'SetMeta':
          self.obj[act[1]].set_metadata(KEYS[act[2]], act[3], cloneable=act[4])
        elif name == 'SetUser':
          self.obj[act[1]].set_userdata(KEYS[act[2]], act[3], cloneable=act[4])
        elif name == 'Clone':
          self.n_clone += 1
          src = self.obj[act[1]]
          if self.n_clone % 2 == 0:
            new = copy.deepcopy(src) if act[2] else copy.copy(src)
          else:
            new = src.clone(deep=act[2])
          if any(new is o for o in self.obj.values()):
            return {'step': i, 'act': act, 'clause': 'fresh', 'detail': 'clone returned an existing object'}
          # NOTE: pg.eq(clone, original) is deliberately NOT required: metadata is a symbolic field and
          # entries not marked cloneable are dropped by design, so equality is judged on the decisions,
          # the bound spec and the cloneable entries (the spec state), compared below.
          if type(new) is not type(src):
            return {'step': i, 'act': act, 'clause': 'equal', 'detail': f'clone has class {type(new).__name__}'}
          self.obj[st['ret']] = new
        elif name == 'Forget':
          del self.obj[act[1]]
        else:
          raise AssertionError(name)
      except Exception as e:  # pylint: disable=broad-except
        return {'step': i, 'act': act, 'clause': 'raise', 'detail': repr(e)}
      err = self.compare(st)
      if err:
        return {'step': i, 'act': act, 'clause': 'state', 'detail': err}
      self.hits[name] = self.hits.get(name, 0) + 1
    return None
