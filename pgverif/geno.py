"""Driver for Geno.tla / GenoLaws.tla (C11, and the shared parts of C12 / C13).

The TLA+ side owns every expected value: GenoExport hands out abstract specs and probe trees, this module
builds the corresponding pg.geno specs / pg.DNA objects, runs the real code and writes down what it
*observed*; GenoLaws (TLC) then evaluates the laws of the property on the observed relation.

Raw tree  = [kind, n, [children]]  with kind 'n' None, 'i' int, 'f' float in tenths, 's' string number.
"""
from __future__ import annotations

import concurrent.futures
import json
import os
import random
import time
from typing import Any, Dict, List, Optional, Tuple

from . import tlc

STRS = ['abc', 'xyz']           # custom decision values: string number k <-> STRS[k-1]
NO_NEXT = ['x', 0, []]
MAX_OBS_PER_TLC = 120
PY_WORKERS = int(os.environ.get('VERIF_PY_WORKERS', '0') or 0) or max(2, min(12, (os.cpu_count() or 4) - 2))


def tlc_jobs(jobs: Dict[str, Any]) -> Dict[str, Any]:
  """Runs independent TLC jobs (name -> zero-argument callable) concurrently; returns name -> result.

  The JVM start-up and the exports are I/O and single-thread bound, so the model check, the design searches and
  the exports of one property overlap instead of queueing.  Exceptions propagate (first one wins)."""
  with concurrent.futures.ThreadPoolExecutor(max_workers=len(jobs)) as ex:
    futs = {k: ex.submit(f) for k, f in jobs.items()}
    return {k: f.result() for k, f in futs.items()}


class phase:
  """with phase(chk, 'name'): ...  -> chk.notes['phase_s'][name] = seconds (measured)."""

  def __init__(self, chk, name):
    self.chk, self.name = chk, name

  def __enter__(self):
    self.t0 = time.time()

  def __exit__(self, *a):
    self.chk.notes.setdefault('phase_s', {})[self.name] = round(time.time() - self.t0, 1)
    return False


# --------------------------------------------------------------------------- abstract spec -> pg.geno
def _pg():
  import pyglove as pg  # pylint: disable=import-outside-toplevel
  return pg


NAMES = {0: None, 1: 'alpha', 2: 'beta', 3: 'gamma', 4: 'delta'}


def literal_values(lits: int, n: int):
  """lits: 0 none, 1 strings, 2 ints, 3 floats, 4 strings that look like the 'i/n' choice format."""
  if lits == 0:
    return None
  if lits == 1:
    return [f'v{i}' for i in range(n)]
  if lits == 2:
    return [10 * (i + 1) for i in range(n)]
  if lits == 3:
    return [0.5 + i for i in range(n)]
  raise ValueError(lits)


class GridRandom(random.Random):
  """A random.Random whose uniform(a, b) answers a, the middle or b (the float atom classes of Geno.tla)."""

  def uniform(self, a, b):
    return (a, (a + b) / 2.0, b)[self.randrange(3)]


def _custom_random(rng, previous_dna):
  pg = _pg()
  del previous_dna
  return pg.DNA(STRS[rng.randrange(len(STRS))])


def build_dp(js: dict, loc: Optional[str] = None, use_locations: bool = False):
  pg = _pg()
  g = pg.geno
  kw = {}
  if use_locations and loc is not None:
    kw['location'] = pg.KeyPath.parse(loc)
  t = js['t']
  name = NAMES[js.get('name', 0)]
  if t == 'choices':
    cands = [build_space(c, use_locations=use_locations) for c in js['cands']]
    return g.manyof(js['k'], cands, distinct=js['distinct'], sorted=js['sorted'],
                    literal_values=literal_values(js.get('lits', 0), len(cands)), name=name, **kw)
  if t == 'float':
    return g.floatv(js['lo'] / 10.0, js['hi'] / 10.0, name=name, **kw)
  if t == 'custom':
    return g.custom(random_dna_fn=_custom_random, name=name, **kw)
  raise ValueError(t)


LOCS = ['a', 'b', 'c', 'd', 'e']


def build_space(js: dict, use_locations: bool = False):
  pg = _pg()
  assert js['t'] == 'space', js
  elems = js['elems']
  return pg.geno.Space([build_dp(e, LOCS[i], use_locations) for i, e in enumerate(elems)])


def spec_str(js: dict) -> str:
  """Compact human readable form of an abstract spec (for samples and reports)."""
  t = js['t']
  if t == 'space':
    return 'S[' + ', '.join(spec_str(e) for e in js['elems']) + ']' if js['elems'] else 'C'
  if t == 'choices':
    m = ('d' if js['distinct'] else '') + ('s' if js['sorted'] else '')
    nm = f"@{js['name']}" if js.get('name') else ''
    lt = f"L{js['lits']}" if js.get('lits') else ''
    return f"ch{js['k']}{m}{nm}{lt}(" + ','.join(spec_str(c) for c in js['cands']) + ')'
  if t == 'float':
    return f"fl({js['lo']},{js['hi']})"
  return 'custom'


# --------------------------------------------------------------------------- raw trees <-> pg.DNA
def tree_value(kind: str, n: int):
  if kind == 'n':
    return None
  if kind == 'i':
    return int(n)
  if kind == 'f':
    return n / 10.0
  if kind == 's':
    return STRS[n - 1] if 1 <= n <= len(STRS) else f's{n}'
  raise ValueError(kind)


def mk_dna(tree, **kw):
  pg = _pg()
  kind, n, kids = tree
  return pg.DNA(tree_value(kind, n), [mk_dna(k) for k in kids], **kw)


def project(dna) -> list:
  v = dna.value
  if v is None:
    head = ['n', 0]
  elif isinstance(v, bool):
    head = ['b', int(v)]
  elif isinstance(v, int):
    head = ['i', v]
  elif isinstance(v, float):
    r = round(v * 10)
    head = ['f', r if abs(v * 10 - r) < 1e-9 else 99999]
  elif isinstance(v, str):
    head = ['s', STRS.index(v) + 1 if v in STRS else 99]
  else:
    head = ['?', 0]
  return head + [[project(c) for c in dna.children]]


def tree_str(tree) -> str:
  kind, n, kids = tree
  v = {'n': '', 'i': str(n), 'f': f'{n / 10.0}', 's': f"'{n}'", 'x': 'END'}.get(kind, f'{kind}{n}')
  return v + ('[' + ' '.join(tree_str(k) for k in kids) + ']' if kids else '') or '()'


def _past_the_end(algo, cap: int = 6) -> list:
  """Polls an exhausted generator again: [outcomes of 3 more propose() calls (NO_NEXT = StopIteration, else the
  DNA proposed), what iterating it once more yields, num_proposals afterwards]."""
  outcomes = []
  for _ in range(3):
    try:
      outcomes.append(project(algo.propose()))
    except StopIteration:
      outcomes.append(NO_NEXT)
  again = []
  for d in algo:
    again.append(project(d))
    if len(again) >= cap:
      break
  return [outcomes, again, algo.num_proposals]


def _exc(e: BaseException) -> str:
  return type(e).__name__


# --------------------------------------------------------------------------- C11 observation of one spec
def observe_c11(entry: dict, seed: int, opts: dict) -> dict:
  pg = _pg()
  js = entry['spec']
  ref_size = entry['size']          # used only as a loop bound (a runaway iterator must stop somewhere)
  errs: List[str] = []
  o: Dict[str, Any] = {'spec': js, 'iter': [], 'lt': [], 'endnone': True, 'sweep': [], 'hassweep': False,
                       'nexts': [], 'resume': [0, []], 'probes': [], 'random': [], 'errs': errs, 'size': -2, 'recov': [],
                       'sweep_end': [[], [], -1]}
  try:
    spec = build_space(js)
  except Exception as e:  # pylint: disable=broad-except
    errs.append('build:' + _exc(e))
    return o
  try:
    o['size'] = spec.space_size
  except Exception as e:  # pylint: disable=broad-except
    errs.append('space_size:' + _exc(e))
  finite = ref_size != -1
  cap = 3 * max(ref_size, 1) + 8
  dnas = []
  if finite:
    try:
      for d in spec.iter_dna():
        dnas.append(d)
        if len(dnas) >= cap:
          break
    except Exception as e:  # pylint: disable=broad-except
      errs.append('iter_dna:' + _exc(e))
    o['iter'] = [project(d) for d in dnas]
    lts = []
    for a, b in zip(dnas, dnas[1:]):
      try:
        lts.append(bool(a < b))
      except Exception:  # pylint: disable=broad-except
        lts.append(False)
    o['lt'] = lts
    if dnas and len(dnas) < cap:
      try:
        o['endnone'] = spec.next_dna(dnas[-1]) is None
      except Exception as e:  # pylint: disable=broad-except
        errs.append('next_dna(last):' + _exc(e))
    if ref_size <= opts['sweep_max']:
      o['hassweep'] = True
      try:
        algo = pg.geno.Sweeping()
        algo.setup(spec)
        sw, sw_dnas = [], []
        for d in algo:
          sw.append(project(d))
          sw_dnas.append(d)
          if len(sw) >= cap:
            break
        o['sweep'] = sw
        if len(sw) < cap:
          o['sweep_end'] = _past_the_end(algo)
      except Exception as e:  # pylint: disable=broad-except
        errs.append('sweeping:' + _exc(e))
        sw_dnas = []
      # a fresh sweeper picks the work up through recover(history); the last `pending` proposals have no reward yet
      n = len(sw_dnas)
      if n >= 1:
        rr = random.Random(seed * 31 + n)
        for pending in (rr.randrange(1, 4), 0):
          r = rr.randrange(max(1, n // 2), n + 1)
          pending = min(pending, r)
          try:
            algo2 = pg.geno.Sweeping()
            algo2.setup(spec)
            algo2.recover([(d, None if i >= r - pending else 1.0) for i, d in enumerate(sw_dnas[:r])])
            nprop = algo2.num_proposals
            rest = []
            for d in algo2:
              rest.append(project(d))
              if len(rest) >= cap:
                break
            o['recov'].append([r, pending, nprop, rest, _past_the_end(algo2) if len(rest) < cap else [[], [], n]])
          except Exception as e:  # pylint: disable=broad-except
            errs.append('sweeping.recover:' + _exc(e))
    if 2 <= len(dnas) <= opts['resume_max']:
      pos = (seed % (len(dnas) - 1)) + 1
      try:
        rest = []
        for d in dnas[pos - 1].iter_dna():
          rest.append(project(d))
          if len(rest) >= cap:
            break
        o['resume'] = [pos, rest]
      except Exception as e:  # pylint: disable=broad-except
        errs.append('dna.iter_dna:' + _exc(e))
  # probes: validate / bind on DNA-shaped inputs
  n_next = 0
  for label, tree in entry['probes']:
    try:
      dna = mk_dna(tree)
    except Exception as e:  # pylint: disable=broad-except
      errs.append(f'construct {label}:' + _exc(e))
      continue
    built = project(dna)
    try:
      spec.validate(dna)
      vok = True
    except Exception:  # pylint: disable=broad-except
      vok = False
    try:
      dna.use_spec(spec)            # what DNA(..., spec=spec) does after construction
      bok = True
    except Exception:  # pylint: disable=broad-except
      bok = False
    o['probes'].append([label, built, vok, bok])
    if finite and label == 'v' and n_next < opts['next_max']:
      n_next += 1
      try:
        nx = spec.next_dna(mk_dna(tree))
        o['nexts'].append([built, NO_NEXT if nx is None else project(nx)])
      except Exception as e:  # pylint: disable=broad-except
        errs.append('next_dna(rebuilt):' + _exc(e))
  # random generation
  nr = opts['random']
  try:
    rng = (random.Random if finite else GridRandom)(seed * 7919 + 13)
    prev = None
    for k in range(nr):
      d = spec.random_dna(rng, True, prev if k % 2 else None)
      o['random'].append(project(d))
      prev = d
    algo = pg.geno.Random(seed=seed + 1)
    algo.setup(spec)
    if finite:
      for k in range(2):
        o['random'].append(project(algo.propose()))
    d = pg.random_dna(spec, (random.Random if finite else GridRandom)(seed + 5), attach_spec=False)
    o['random'].append(project(d))
  except Exception as e:  # pylint: disable=broad-except
    errs.append('random_dna:' + _exc(e))
  return o


def _observe_chunk(args):
  fn_name, entries, seed, opts = args
  if ':' in fn_name:                    # 'package.module:function'
    import importlib  # pylint: disable=import-outside-toplevel
    mod, name = fn_name.split(':')
    fn = getattr(importlib.import_module(mod), name)
  else:
    fn = globals()[fn_name]
  return [fn(e, seed, opts) for e in entries]


def observe_parallel(fn_name: str, entries: List[dict], seed: int, opts: dict, workers: Optional[int] = None,
                     weight=None) -> List[dict]:
  """Runs fn_name(entry, seed, opts) for every entry in a process pool; result order = entry order."""
  workers = workers or PY_WORKERS
  weight = weight or (lambda e: 1)
  order = sorted(range(len(entries)), key=lambda i: -weight(entries[i]))
  nchunks = max(1, min(len(entries), workers * 6))
  chunks: List[List[int]] = [[] for _ in range(nchunks)]
  loads = [0.0] * nchunks
  for i in order:                       # greedy balancing, heavy first
    k = loads.index(min(loads))
    chunks[k].append(i)
    loads[k] += weight(entries[i])
  out: List[Optional[dict]] = [None] * len(entries)
  with concurrent.futures.ProcessPoolExecutor(max_workers=workers) as ex:
    futs = {ex.submit(_observe_chunk, (fn_name, [entries[i] for i in ch], seed, opts)): ch for ch in chunks if ch}
    for f in concurrent.futures.as_completed(futs):
      ch = futs[f]
      for i, o in zip(ch, f.result()):
        out[i] = o
  return out  # type: ignore


# --------------------------------------------------------------------------- TLC law evaluation in parallel
def laws_parallel(module: str, cfg: str, obs: List[dict], nchunks: int, name: str, weight=None,
                  timeout: int = 1500) -> Tuple[List[dict], List[tlc.TLCResult]]:
  """Splits the observations over several TLC processes (ASSUME evaluation is single threaded).

  Returns the failure records (index `i` rewritten to the global 0-based position in `obs`) and the results.
  """
  weight = weight or (lambda o: 1)
  concurrency = max(1, nchunks)
  # TLC's FlattenSeq recursion (and the per-record nesting under it) overflows the Java stack beyond a few hundred
  # records per run: keep the chunks small and run them through a bounded pool instead
  nchunks = max(1, min(len(obs), max(concurrency, -(-len(obs) // MAX_OBS_PER_TLC))))
  order = sorted(range(len(obs)), key=lambda i: -weight(obs[i]))
  chunks: List[List[int]] = [[] for _ in range(nchunks)]
  loads = [0.0] * nchunks
  for i in order:
    k = loads.index(min(loads))
    chunks[k].append(i)
    loads[k] += weight(obs[i])

  def one(k):
    ch = chunks[k]
    out = tlc.workdir(f'lawsout/{name}-{k}') / 'fail.json'
    r = tlc.check_with_json(module, cfg, [obs[i] for i in ch], name=f'{name}-{k}', env={'OUT_FILE': str(out)},
                            timeout=timeout, workers=1)
    if not r.ok or not out.exists():
      raise tlc.TLCError(f'{module}/{cfg}: law evaluation did not complete:\n' + r.out[-3000:])
    fails = json.loads(out.read_text())
    for f in fails:
      f['i'] = ch[f['i'] - 1]
    return fails, r

  fails: List[dict] = []
  results = []
  with concurrent.futures.ThreadPoolExecutor(max_workers=concurrency) as ex:
    for fs, r in ex.map(one, range(nchunks)):
      fails.extend(fs)
      results.append(r)
  fails.sort(key=lambda f: (f['i'], f['law']))
  return fails, results
