"""C07 - clone fidelity and independence."""
from pgverif import dnaclone, symtree_check, tlc

META = {
    'level': 'model_checking',
    'technique': 'TLA+ spec SymTree.tla: Clone allocates fresh node ids for every symbolic node and copies the flags; TLC '
                 'checks CloneOK (equal, fresh, detached, same flags, source untouched) and ContentLocality (a call on one '
                 'tree never changes a node of another) exhaustively; S->C replay with identity binding compares BOTH copies '
                 'after the clone and after every later mutation of either',
    'level_text': 'Fresh identity is part of the model state (a cloned node is a new id), so "shares no mutable node" and '
                  '"no later mutation is observable through the other copy" are state comparisons: after each replayed call '
                  'every live node of every tree is projected (content by identity, parent, path, sealed / accessor-writable) '
                  'and compared with the specification; clone(deep), clone(), copy.copy and copy.deepcopy are alternated.',
    'level_note': 'Non-symbolic mutable leaf objects (shared by a shallow clone by design) and pg.Ref targets are not in the '
                  'model: leaves are immutable ints.  The onchange callback of a List is dropped by clone (as coded; not a '
                  'behavioural flag of the statement).  A copy is sealed iff the original or one of its copied ancestors was '
                  '(the constructor seals deeply); a class whose instances are born sealed is part of the configurations (an '
                  'unsealed instance must clone to an unsealed one).  Bounded as C01.',
}

CLAUSES = {'content', 'flags', 'parent', 'path', 'lookup', 'oneplace', 'bind', 'ret'}


def in_scope(d):
  # a divergence is attributed to C07 when a copy is involved: the step is a copy, or an earlier step of
  # the behaviour was (from then on both copies are compared after every call)
  return True


def run(chk):
  thorough = chk.tier == 'thorough'
  chk.rule = ('behaviours = TLC simulation walks of SymTree.tla with Clone / JsonRoundTrip and every mutator family; '
              'distinct = distinct action sequences; non-trivial = contains at least one copy step that was replayed')
  symtree_check.model_check(chk, ['C07_thorough.cfg' if thorough else 'C07_quick.cfg'])
  hits = {}
  plan = [('C07_sim.cfg', 450, 30), ('C07_sim_obj.cfg', 250, 30)] if not thorough else \
         [('C07_sim.cfg', 3500, 40), ('C07_sim_obj.cfg', 1800, 40)]
  for cfg, num, depth in plan:
    h = symtree_check.replay_simulated(chk, cfg, CLAUSES, num, depth, chk.seed, in_scope=only_after_copy,
                                       batches=1 if not thorough else 8)
    for k, v in h.items():
      hits[k] = hits.get(k, 0) + v
  h = symtree_check.replay_transitions(chk, 'C07_states.cfg' if not thorough else 'C07_states_thorough.cfg', 'C07_step.cfg', CLAUSES,
                                       max_states=250 if not thorough else 3000, seed=chk.seed)
  for kk, v in h.items():
    hits[kk] = hits.get(kk, 0) + v
  dna_clones(chk, thorough)
  chk.notes['action_outcome_hits'] = dict(sorted(hits.items()))
  for need in ('Clone:ok', 'Seal:ok', 'SetAccW:ok', 'DictSet:ok', 'ListAppend:ok', 'Rebind:ok'):
    chk.require(hits.get(need, 0) > 0, f'vacuous: no replayed step {need}')


def dna_clones(chk, thorough):
  """pg.DNA clones (geno/base.py): DnaClone.tla checked exhaustively, simulated behaviours replayed."""
  r = tlc.run('DnaClone', 'C07_dna.cfg', timeout=900)
  chk.add_tlc(r)
  chk.require(r.ok, f'DnaClone.tla: {r.violated} violated in the model')
  behaviours, r2 = tlc.simulate('DnaClone', 'C07_dna_sim.cfg', num=400 if not thorough else 6000, depth=30, seed=chk.seed + 5)
  chk.add_tlc(r2, count_states=False)
  hits = {}
  for beh in behaviours:
    rp = dnaclone.Replayer()
    d = rp.replay(beh)
    chk.traces += 1
    chk.evaluations += (d['step'] if d else len(beh) - 1)
    chk.distinct_case(('dna', [s.state['act'] for s in beh[1:]]))
    for k, v in rp.hits.items():
      hits[k] = hits.get(k, 0) + v
    if d is not None:
      chk.violation({'spec': 'DnaClone', 'action': d['act'][0], 'clause': d['clause']},
                    {'cfg': 'C07_dna_sim.cfg', 'step': d['step'], 'act': d['act'], 'what': d['detail'],
                     'history': [s.state['act'] for s in beh[1:d['step'] + 1]]})
  chk.notes['dna_clone_hits'] = hits
  for need in ('Clone', 'SetMeta', 'SetUser'):
    chk.require(hits.get(need, 0) > 0, f'vacuous: no replayed DNA step {need}')


def only_after_copy(d):
  hist = d.get('history') or []
  return any(a[0] in ('Clone',) for a in hist) or d['act'][0] == 'Clone'


def replay(chk, path):
  symtree_check.replay_file(chk, path, CLAUSES, only_after_copy)
