"""C09 - change notification contract and freshness of derived state."""
from pgverif import symtree_check, tlc

META = {
    'level': 'model_checking',
    'technique': 'TLA+ spec SymTree.tla: every mutating action computes the event set (receivers = subscribing ancestors-or-self '
                 'of each changed location, relative paths, old/new values) and drops the memo of every node whose content '
                 'changed; TLC checks EventsOK and Fresh exhaustively (and finds the stale-memo counter-example when the '
                 'mechanism is modelled as coded at the pinned commit, Mirror = TRUE); S->C replay compares delivered events '
                 '(receivers, locations, old/new, children-before-parents) and is_partial / sym_missing / sym_nondefault / '
                 'sym_puresymbolic / is_deterministic after every call under eight read policies (every node / roots only / only '
                 'the node a ReadFacts step names; all facts or a single one), because what is read decides which memos exist',
    'level_text': 'The notification step and the memo mechanism are part of the model state, so exactly-once delivery, payload '
                  'and freshness are decided per step for whole histories (batched rebinds, accessor writes, every list/dict '
                  'mutator, scopes that disable notification, skip_notification, notify_parents=False) on trees mixing dicts, '
                  'lists with callbacks and objects with overridden _on_change, including a partial object and search-space '
                  'placeholders so that all three memoised facts can go stale.',
    'level_note': 'Event order is compared only between ancestor-related receivers; sort()/reverse() deliver no event in the '
                  'model (a permutation has no old/new per location) but must refresh the facts; writes that reset a field '
                  'already holding its default, two rebind entries hitting one location, and paths into a placeholder object '
                  'are not generated (don\'t-care).  sym_nondefault() is projected to leaf locations (whole symbolic values '
                  'expanded, anything below a placeholder collapsed) on key tuples, and each reported value must be the value stored '
                  'there now.  Three-level schema dicts (fixed keys with defaults) and an object with an object-typed default member '
                  'give holders that compute sym_nondefault() without asking their members.  Bounded as C01.',
}

CLAUSES = {'events', 'facts', 'ret'}
# derived facts are read under eight policies (symtree_check.FACTS_POLICIES): which nodes and which fact are read after a
# call decides which memos exist when the next write must invalidate them
NEED = ('DictSet:ok', 'DictUpdate:ok', 'DictClear:ok', 'DictPopItem:ok', 'ListAppend:ok', 'ListInsert:ok', 'ListDel:ok',
        'ListExtend:ok', 'ListClear:ok', 'ListSetSlice:ok', 'ListReverse:ok', 'Rebind:ok', 'EnterNotify:ok', 'ReadFacts:ok')


def run(chk):
  thorough = chk.tier == 'thorough'
  chk.rule = ('behaviours = TLC simulation walks of SymTree.tla with events, facts and notification scopes enabled; distinct '
              '= distinct action sequences; non-trivial = at least one step replayed')
  symtree_check.model_check(chk, ['C09_thorough.cfg' if thorough else 'C09_quick.cfg'])
  # the as-coded memo mechanism must be refuted by the model: shows the Fresh invariant is not vacuous
  r = tlc.run('SymTree', 'C09_mirror.cfg', timeout=900)
  chk.add_tlc(r, count_states=False)
  chk.require(not r.ok and r.violated == 'Fresh', 'vacuous: Fresh is not violated by the as-coded memo mechanism (Mirror)')
  chk.notes['mirror_counterexample'] = [s['state'].get('act') for s in (r.error_trace or [])]
  hits = {}
  plan = [('C09_sim.cfg', 400, 30), ('C09_sim_dl.cfg', 300, 30), ('C09_sim_oc.cfg', 150, 30), ('C09_sim_sd.cfg', 300, 30)] if not thorough else \
         [('C09_sim.cfg', 2500, 40), ('C09_sim_dl.cfg', 1500, 40), ('C09_sim_oc.cfg', 1000, 40), ('C09_sim_sd.cfg', 2000, 40)]
  for cfg, num, depth in plan:
    h = symtree_check.replay_simulated(chk, cfg, CLAUSES, num, depth, chk.seed, batches=1 if not thorough else 8)
    for k, v in h.items():
      hits[k] = hits.get(k, 0) + v
  h = symtree_check.replay_transitions(chk, 'C09_states.cfg', 'C09_step.cfg', CLAUSES,
                                       max_states=8 if not thorough else 40, seed=chk.seed)
  for kk, v in h.items():
    hits[kk] = hits.get(kk, 0) + v
  # every slice / in-place / batched transition from every list of <= 3 members (events of multi-element slice writes)
  h = symtree_check.replay_transitions(chk, 'C09_states_l.cfg', 'C09_step_l.cfg', CLAUSES, seed=chk.seed,
                                       max_transitions=2500 if not thorough else 20000)
  for kk, v in h.items():
    hits[kk] = hits.get(kk, 0) + v
  chk.notes['action_outcome_hits'] = dict(sorted(hits.items()))
  for need in NEED:
    chk.require(hits.get(need, 0) > 0, f'vacuous: no replayed step {need}')


def replay(chk, path):
  symtree_check.replay_file(chk, path, CLAUSES, None)
