"""C01 - symbolic tree integrity: one parent, true path, for every reachable node."""
from pgverif import symtree_check

META = {
    'level': 'model_checking',
    'technique': 'TLA+ spec SymTree.tla checked exhaustively with TLC (TreeOK, OnePlace, DetachedOK, LookupOK, '
                 'RemovedIsDetached) + S->C replay of TLC-simulated behaviours into pg.Dict/pg.List/pg.Object with '
                 'identity binding and per-step comparison of parent, path, lookup, single occurrence',
    'level_text': 'The parent/position bookkeeping of the symbolic tree is modelled as explicit state in SymTree.tla '
                  '(detach, relocate-or-copy, re-index); TLC proves the integrity invariants for every history within '
                  'small bounds; every simulated behaviour is then stepped through the real containers and after each '
                  'call the parent identity, sym_path, lookup-from-root and single-occurrence clauses are compared '
                  'with the specification state, so histories the unit tests never compose are decided.',
    'level_note': 'Bounded: <= 4 nodes exhaustively, <= 6 nodes / depth <= 40 by simulation with sampled arguments; '
                  'trusted: TLC, the TLA+ value parser, the projection (sym_parent, sym_path, sym_items, KeyPath.query). '
                  'A root\'s own sym_path is not compared (paths are compared relative to the root). Rejected writes are '
                  'modelled for one typed list kind (symbolic members only, never empty: TypeError / ValueError must leave the '
                  'tree unchanged, RejectedMeansUnchanged); sealed nodes, a class whose instances are born sealed and a dict '
                  'key that contains a dot are part of the simulated configurations.',
}

CLAUSES = {'parent', 'path', 'lookup', 'oneplace', 'bind'}


def run(chk):
  thorough = chk.tier == 'thorough'
  chk.rule = ('behaviours = TLC simulation walks of SymTree.tla (all mutator/copy families, arguments sampled by '
              'RandomSubset); distinct = distinct action sequences; a behaviour is non-trivial when >= 1 step was replayed')
  chk.assumptions += ['leaf values are small ints (same abstract leaf = same Python object)',
                      'a node is never stored inside its own subtree (user error, not generated)']
  symtree_check.model_check(chk, ['C01_quick.cfg', 'C01_typed.cfg'] + (['C01_thorough.cfg'] if thorough else []))
  hits = {}
  for cfg, num, depth in ([('C01_sim.cfg', 400, 30), ('C01_sim_obj.cfg', 250, 30), ('C01_sim_td.cfg', 250, 30),
                           ('C01_sim_typed.cfg', 300, 30)] if not thorough else
                          [('C01_sim.cfg', 4000, 40), ('C01_sim_obj.cfg', 2000, 40), ('C01_sim_td.cfg', 2000, 40),
                           ('C01_sim_typed.cfg', 2500, 40)]):
    h = symtree_check.replay_simulated(chk, cfg, CLAUSES, num, depth, chk.seed, batches=1 if not thorough else 8)
    for k, v in h.items():
      hits[k] = hits.get(k, 0) + v
  # one implementation test per transition, from every sampled small tree
  # copies (clone / JSON round trip) are cheap: they are taken from EVERY dumped state, typed roots included
  for states_cfg, step_cfg, k in ([('C01_states.cfg', 'C01_step.cfg', 10), ('C01_states.cfg', 'C01_step2.cfg', 3),
                                   ('C01_states_td.cfg', 'C01_step3.cfg', 100000)] if not thorough
                                  else [('C01_states.cfg', 'C01_step.cfg', 60), ('C01_states.cfg', 'C01_step2.cfg', 20),
                                        ('C01_states_td.cfg', 'C01_step3.cfg', 100000)]):
    h = symtree_check.replay_transitions(chk, states_cfg, step_cfg, CLAUSES, max_states=k, seed=chk.seed)
    for kk, v in h.items():
      hits[kk] = hits.get(kk, 0) + v
  chk.notes['action_outcome_hits'] = dict(sorted(hits.items()))
  # vacuity guards: the mechanisms the property is about must have been exercised
  for need in ('ListInsert:ok', 'ListDel:ok', 'DictSet:ok', 'Rebind:ok', 'Clone:ok', 'ListReverse:ok',
               'ListSetSlice:ok', 'ListExtend:ok', 'DictUpdate:ok', 'JsonRoundTrip:ok'):
    chk.require(hits.get(need, 0) > 0, f'vacuous: no replayed step {need}')


def replay(chk, path):
  symtree_check.replay_file(chk, path, CLAUSES, None)
