"""C05 - serialisation and persistence round trip."""
from __future__ import annotations

import concurrent.futures as cf
import json
import os
import random
from typing import Any, Dict, List

import pyglove as pg

from pgverif import codec, store, tlc

META = {
    'level': 'model_checking',
    'technique': 'TLA+ specs Codec.tla/CodecModel.tla (the JSON marker scheme as abstract Enc/Dec; TLC searches the design for '
                 'non-injectivity and classifies the minimal counter-examples), CodecLaws.tla (TLC evaluates the round-trip law '
                 'on rows observed on pg.to_json/from_json, to_json_str/from_json_str, pickle, copy.deepcopy for every value of '
                 'the exported universe), Store.tla (file tree + record sequences for std / mem / .mem with ghost history; '
                 'ReadYourWrites, SeqReadYourWrites checked exhaustively; Mirror = transcription of MemoryFileSystem searched for '
                 'counter-examples) + S->C replay of TLC behaviours through pg.save/pg.load/pg.io/pg.open_jsonl',
    'level_text': 'The escaping scheme (tuple marker, _type key, n_: int-key prefix) is modelled as an explicit encoder/decoder '
                  'over reserved atoms and near misses; TLC enumerates all values to depth 2-3 and proves that outside four '
                  'collision classes the scheme is injective; every value of that universe is then built with the real API in '
                  'several concretisations and the observed round trips (value, pg.eq, type and schema behaviour, pg.hash, tree '
                  'well-formedness) are judged by TLC. Persistence is a state machine over paths whose read-your-writes '
                  'invariants TLC checks for every history within bounds; simulated histories are stepped through the real file '
                  'systems with the outcome of every call compared.',
    'level_note': 'Bounded: values of depth <= 2 (3), <= 2 elements per container; 5 paths x 3 contents, histories <= 6 exhaustively '
                  'and <= 40 by simulation. Atom classes are concretised from fixed pools (special floats, control and non-BMP '
                  'characters, big ints). Trusted: TLC, the JSON bridge, Python\'s json/pickle modules, the projection. '
                  'Don\'t-cares: pg.eq / pg.hash on values with NaN leaves or unhashable leaves; the error class of a failing '
                  'call; reading a file while a writer is open; loading a record file as a document.',
}

TAG = f'c05-{os.getpid()}'
PAR = 5
CHUNK_ROWS = 6000
KNOWN_CLASSES = {'marker_first_list', 'empty_tuple', 'type_str_key', 'int_prefix_str_key'}


# ------------------------------------------------------------------------------------------------
# serialisation half


def check_codec(chk, tier: str, pool, f_model) -> None:
  data, r = f_model.result()
  chk.add_tlc(r)
  prints = r.prints or []
  model = {p[1]: p[2:] for p in prints if p and p[0] == 'model'}
  chk.require(model.get('Explained') == [True] and model.get('MinimalAreSelf') == [True],
              'the design-level classification of the codec collisions does not hold on the model')
  design = {p[1]: {'obj': p[3], 'str': p[5]} for p in prints if p and p[0] == 'design'}
  chk.notes['design_candidates_codec'] = design
  chk.require(all(sum(design.get(c, {'obj': 0, 'str': 0}).values()) > 0 for c in KNOWN_CLASSES),
              f'vacuous: a collision class has no minimal counter-example in the model: {design}')
  vals = data['vals']
  chk.require(len(vals) == model['values'][0] > 500, 'export incomplete')
  nconc = 2        # concretisations per value (which ones depends on the seed)
  rows = []
  for vi, e in enumerate(vals):
    for c in range(nconc):
      cc = (c + chk.seed) % 12
      for way in codec.WAYS:
        if c > 0 and way in codec.FIRST_CONC_ONLY:
          continue
        row = codec.observe(e['v'], vi, cc, way)
        if row is not None:
          rows.append(row)
  chk.notes['rows_observed'] = len(rows)
  futs = []
  k = 0
  while k < len(rows):
    e = min(len(rows), k + CHUNK_ROWS)
    futs.append((k, e, pool.submit(tlc.check_with_json, 'CodecLaws', f'C05_laws_{tier}.cfg', {'rows': rows[k:e]},
                                   name=f'{TAG}-laws-{k}', timeout=1500, workers=1)))
    k = e
  seen_classes = set()
  per_way: Dict[str, int] = {}
  for k, e, fut in futs:
    rl = fut.result()
    chk.add_tlc(rl, count_states=False)
    if not rl.ok:
      raise tlc.TLCError(f'CodecLaws: TLC reports {rl.violated}\n' + rl.out[-3000:])
    pr = rl.prints or []
    cov = [p for p in pr if p and p[0] == 'COVER']
    chk.require(bool(cov) and cov[0][1] is True and cov[0][3] == e - k, f'codec rows outside the universe: {cov}')
    for p in pr:
      if p and p[0] == 'LAW':
        per_way[p[1]] = per_way.get(p[1], 0) + p[2]
        chk.count('law:rt_' + p[1] + ':cases', p[2])
        chk.count('law:rt_' + p[1] + ':bad', p[3])
        chk.evaluations += p[2]
      elif p and p[0] == 'CLASSES':
        seen_classes |= set(p[1])
      elif p and p[0] == 'VIOL':
        _, way, cls, clause, count, sample = p
        ex = []
        for i in list(sample)[:3]:
          row = rows[k + i - 1]
          ex.append({'value': codec.concrete_repr(row['v'], row['i'], row['conc']), 'conc': row['conc'], 'err': row['err'],
                     'flags': {f: row[f] for f in ('ok', 'eq', 'type', 'hash', 'tree')}})
        chk.violation({'clause': 'rt_' + way, 'cls': cls, 'how': clause}, {'part': 'codec', 'count': count, 'examples': ex})
  chk.require(set(per_way) == set(codec.WAYS) and all(v > 0 for v in per_way.values()), f'vacuous: ways evaluated {per_way}')
  chk.require(KNOWN_CLASSES <= seen_classes and 'plain' in seen_classes, f'vacuous: classes met {seen_classes}')
  for row in rows:
    if row['v']['t'] != 'leaf':
      chk.distinct_case(('codec', json.dumps(row['v'], sort_keys=True), row['way'], row['conc']))
  for row in rows[4000::3517][:3]:
    chk.sample({'kind': 'round_trip', 'way': row['way'], 'value': codec.concrete_repr(row['v'], row['i'], row['conc']),
                'ok': row['ok'], 'eq': row['eq'], 'type': row['type'], 'hash': row['hash'], 'tree': row['tree']})
  extra_cases(chk)


def extra_cases(chk) -> None:
  """Values outside the abstract grammar that the statement names: every member of the opaque pool on its own, at the root
  and inside a typed object, through all four ways (judged here by the same flags; no collision class applies)."""
  v_leaf = {'t': 'leaf', 'a': 20, 'ks': [], 'xs': []}
  int_leaf = {'t': 'leaf', 'a': 3, 'ks': [], 'xs': []}
  positions = {
      'root': v_leaf,
      'object_field': {'t': 'obj', 'a': 1, 'ks': [51], 'xs': [v_leaf]},
      'list': {'t': 'list', 'a': 0, 'ks': [], 'xs': [v_leaf, v_leaf]},
      'tuple': {'t': 'tuple', 'a': 0, 'ks': [], 'xs': [int_leaf, v_leaf]},
      'dict_value': {'t': 'dict', 'a': 0, 'ks': [31, 41], 'xs': [v_leaf, int_leaf]},
      'tuple_in_list': {'t': 'list', 'a': 0, 'ks': [], 'xs': [{'t': 'tuple', 'a': 0, 'ks': [], 'xs': [v_leaf]}]},
  }
  n = 0
  met = set()
  for vi in range(len(codec.OPAQUE)):
    for pos, v in positions.items():
      if id(codec.OPAQUE[vi][0]) in codec.DERIVED and pos not in ('root', 'tuple'):
        continue
      for way in codec.WAYS:
        row = codec.observe(v, vi, 0, way)
        if row is None:
          continue
        n += 1
        met.add(type(codec.OPAQUE[vi][0]).__name__)
        good = row['ok'] and row['back'] == v and row['eq'] and row['type'] and row['hash'] and row['tree']
        if not good:
          how = ('raises' if not row['ok'] else 'value' if row['back'] != v else
                 'eq' if not row['eq'] else 'type' if not row['type'] else row['hashwhy'] if not row['hash'] else 'tree')
          chk.violation({'clause': 'rt_' + way, 'cls': 'opaque:' + type(codec.OPAQUE[vi][0]).__name__, 'how': how, 'position': pos},
                        {'part': 'codec', 'value': codec.concrete_repr(v, vi, 0), 'err': row['err']})
  chk.notes['opaque_pool'] = {'members': len(codec.OPAQUE), 'types': sorted(met)}
  chk.require({'function', 'builtin_function_or_method', 'partial', 'Any', 'Dict', 'Schema', 'Enum', 'Union', 'Callable'} <= met,
              f'vacuous: opaque pool types {sorted(met)}')
  for name, value, eqf in codec.extra_pool():
    for way, fn in codec.WAYS.items():
      n += 1
      try:
        back = fn(value, bool(pg.is_partial(value)))
        how = None
        if not (type(back) is type(value) and eqf(value, back)):
          how = 'value'
        elif not codec.same_behaviour(value, back):
          how = 'type'
        elif not codec.tree_ok(back):
          how = 'tree'
        elif isinstance(value, pg.List) and value.is_sealed != back.is_sealed:
          how = 'flags'
        err = ''
      except Exception as e:  # pylint: disable=broad-except
        how, err = 'raises', f'{type(e).__name__}: {str(e)[:120]}'
      if how:
        chk.violation({'clause': 'rt_' + way, 'cls': 'extra:' + name, 'how': how}, {'part': 'codec', 'value': repr(value)[:200], 'err': err})
  chk.count('opaque_pool_round_trips', n)
  chk.evaluations += n


# ------------------------------------------------------------------------------------------------
# persistence half

SENSITIVE = {1, 2}        # paths whose first component starts with a character of '/mem/'


class Taint:
  """Which (fs, path) went through a write pattern that is a known-bad class (derived from the SPEC's ghost state)."""

  def __init__(self):
    self.t: Dict[tuple, str] = {}

  def cls(self, act, prev) -> str:
    name = act[0]
    if name in ('Add', 'AddBad', 'CloseSeq', 'Init'):
      return self.cur or 'any'
    fs, p = act[1], act[2]
    gdoc = store_reg(prev['gdoc'], fs, p)
    grecs = store_reg(prev['grecs'], fs, p)
    self.cur = None
    if fs == 'mem' and p in (3, 4) and name in ('Exists', 'Rm', 'Load', 'ReadSeq'):
      # a path BELOW a file: the spec's tree says whether component 'a' is a file right now
      node = prev['tree']['mem'].get(((4,),))
      if node is not None and node['k'] != 'dir':
        self.cur = 'mem_below_file'
        return self.cur
    if fs == 'mem':
      if p in SENSITIVE:
        self.cur = 'mem_prefix_charset'
        return self.cur
      if name == 'Save' and (gdoc > act[3] or len(grecs) > 0):
        self.t[(fs, p)] = 'mem_no_truncate'
      elif name == 'OpenSeq' and act[3] == 'w' and (gdoc != 0 or len(grecs) > 0):
        self.t[(fs, p)] = 'mem_no_truncate'
      elif name == 'OpenSeq' and act[3] == 'a':
        self.t[(fs, p)] = 'mem_append_at_start' if (gdoc != 0 or len(grecs) > 0) else 'mem_append_missing'
      elif name == 'Rm':
        self.t.pop((fs, p), None)
      self.cur = self.t.get((fs, p))
    return self.cur or 'any'

  cur = None


def store_reg(fn, fs, p):
  x = fn[fs]
  if isinstance(x, dict):
    return x[p] if p in x else x[str(p)]
  return x[p - 1]


def replay_store(chk, beh, vals_ids, rng, tag, hits, cfg) -> None:
  rp = store.StoreReplayer(vals_ids, rng, tag)
  taint = Taint()
  chk.traces += 1
  acts = []
  prev = beh[0].state
  try:
    for k, step in enumerate(beh[1:], 1):
      act = step.state['act']
      acts.append(act)
      cls = taint.cls(act, prev)
      try:
        rp.step(act, step.state['out'])
        hits[act[0] + ':' + step.state['out']['k']] = hits.get(act[0] + ':' + step.state['out']['k'], 0) + 1
        chk.evaluations += 1
      except store.StoreDivergence as d:
        fs = act[1] if act[0] not in ('Add', 'AddBad', 'CloseSeq') else 'writer'
        known = chk.violation({'action': act[0], 'clause': d.clause, 'cls': cls},
                              {'part': 'store', 'cfg': cfg, 'step': k, 'act': act, 'fs': fs, 'what': d.detail,
                               'paths': {str(i): store.rel(i) for i in store.PATH_TABLE}, 'history': acts})
        chk.count('store_divergence:' + act[0] + ':' + d.clause + ':' + cls)
        if known and act[0] == 'Exists':
          prev = step.state
          continue       # a read-only call: the stores still match the spec state
        break          # the file systems no longer match the spec state: cut the behaviour
      prev = step.state
  finally:
    rp.close()
  if len(acts) >= 3:
    chk.distinct_case(('store', repr(acts), repr(sorted((k, repr(v)) for k, v in rp.value.items()))))
  if len(acts) >= 8 and sum(1 for s in chk.samples if isinstance(s, dict) and s.get('kind') == 'store_behaviour') < 2:
    chk.sample({'kind': 'store_behaviour', 'paths': {str(i): store.rel(i) for i in store.PATH_TABLE}, 'actions': acts[:12]})


def submit_store(chk, tier, pool) -> dict:
  thorough = tier == 'thorough'
  f = {'model': pool.submit(tlc.run, 'Store', f'C05_store_{tier}.cfg', name=TAG + '-store', timeout=1500, workers=1)}   # one worker: the level bound is exact only then
  f['mirror'] = {c: pool.submit(tlc.run, 'Store', c, name=TAG + '-' + c[:-4], timeout=600, workers=1)
                 for c in ('C05_store_mirror.cfg', 'C05_store_mirror_trunc.cfg', 'C05_store_mirror_append.cfg')}
  num, depth, batches = (300, 25, 1) if not thorough else (4000, 40, 4)
  f['sims'] = []
  # sim: everything; sim_safe: known-bad classes not generated (coverage behind the cuts); sim_one: one path only,
  # so that re-opening / overwriting / removing the same file is frequent
  for cfg in ('C05_store_sim.cfg', 'C05_store_sim_safe.cfg', 'C05_store_sim_one.cfg'):
    for b in range(batches):
      f['sims'].append((cfg, b, pool.submit(tlc.simulate, 'Store', cfg, num=num // batches, depth=depth,
                                            seed=chk.seed * 1000 + b + 1, name=f'{TAG}-{cfg[10:-4]}-{b}', timeout=1500)))
  return f


def check_store(chk, f) -> None:
  r = f['model'].result()
  chk.add_tlc(r)
  chk.notes.setdefault('tlc_runs', []).append(r.summary())
  if not r.ok:
    raise tlc.TLCError(f'Store: {r.violated} violated in the intended model:\n' + r.out[-3000:])
  chk.require(r.distinct > 5000, 'Store state space suspiciously small')
  hits: Dict[str, int] = {}
  # the transcription of MemoryFileSystem: TLC's counter-examples are candidates, replayed on the code before being believed
  cands = {}
  for cfg, fut in f['mirror'].items():
    rm = fut.result()
    chk.add_tlc(rm, count_states=False)
    trace = rm.error_trace or []
    cands[cfg] = {'violated': rm.violated, 'trace': [s['state'].get('act') for s in trace]}
    if trace:
      # replay the candidate against the INTENDED outcomes: the last step must read back what was written
      beh = [tlc.Step('Init', [], trace[0]['state'])]
      for s in trace[1:]:
        st = dict(s['state'])
        beh.append(tlc.Step('Next', [], st))
      last = beh[-1].state
      want = dict(last)
      a = last['act']
      if a[0] == 'Load':
        want['out'] = {'k': 'ok', 'v': store_reg(last['gdoc'], a[1], a[2]), 'recs': []}
      else:
        want['out'] = {'k': 'ok', 'v': 0, 'recs': store_reg(last['grecs'], a[1], a[2])}
      beh[-1] = tlc.Step('Next', [], want)
      vals = sorted({x for s in beh for x in ([s.state['act'][3]] if s.state['act'][0] == 'Save' else
                                              [s.state['act'][1]] if s.state['act'][0] == 'Add' else [])} | {2, 5})
      replay_store(chk, beh, vals, random.Random(chk.seed), f'{TAG}-cand', hits, cfg)
  chk.notes['design_candidates_store'] = cands
  for cfg, b, fut in f['sims']:
    behs, rs = fut.result()
    chk.add_tlc(rs, count_states=False)
    chk.transitions += rs.generated
    if not rs.ok:
      raise tlc.TLCError(f'Store simulation {cfg}: {rs.violated}\n' + rs.out[-3000:])
    for n, beh in enumerate(behs):
      replay_store(chk, beh, [1, 2, 3], random.Random(chk.seed * 7919 + b * 100003 + n), f'{TAG}-{b}-{n}', hits, cfg)
  chk.notes['store_action_hits'] = dict(sorted(hits.items()))
  for need in ('SaveBad:unserializable', 'AddBad:unserializable', 'Save:ok', 'Save:not_a_directory', 'Save:is_a_directory', 'MkdirAt:ok', 'Load:is_a_directory', 'Load:ok', 'Load:not_found', 'Rm:ok', 'Exists:ok', 'OpenSeq:ok', 'Add:ok', 'CloseSeq:ok', 'ReadSeq:ok'):
    chk.require(hits.get(need, 0) > 0, f'vacuous: store step {need} never replayed successfully')


def run(chk, only: str = ''):
  tier = chk.tier
  chk.rule = ('cases = (value of the Codec universe, concretisation, way) rows judged by CodecLaws.tla + behaviours of Store.tla '
              'replayed on the file systems; non-trivial = rows whose value is a container / behaviours with >= 3 calls '
              '(distinct by call sequence and contents)')
  chk.assumptions += ['dict keys are str or int (bool keys are outside the statement)',
                      'functions and classes are serialised by reference (importable module-level names)',
                      'file contents are produced only through pg.save / pg.open_jsonl']
  os.makedirs(store.WORK, exist_ok=True)
  with cf.ThreadPoolExecutor(PAR) as pool:
    f_model = pool.submit(tlc.export_json, 'CodecModel', f'C05_model_{tier}.cfg', name=TAG + '-model', timeout=1500) \
        if only in ('', 'codec') else None
    f_store = submit_store(chk, tier, pool) if only in ('', 'store') else None
    if f_model is not None:
      check_codec(chk, tier, pool, f_model)
    if f_store is not None:
      check_store(chk, f_store)


def replay(chk, path: str):
  v = json.loads(open(path).read())
  chk.tier = v.get('tier', chk.tier)
  chk.seed = v.get('seed', chk.seed)
  run(chk, only=v.get('detail', {}).get('part', ''))
  chk.rule = 'replay of ' + path + ': ' + chk.rule
