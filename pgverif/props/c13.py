"""C13 - hyper values: decode and encode are mutually inverse and side-effect free."""
import json

from pgverif import geno, hyper, tlc

META = {
    'level': 'model_checking',
    'technique': 'TLA+ spec Hyper.tla (EXTENDS Geno.tla): templates with OneOf / ManyOf / Float / custom placeholders in '
                 'dicts, lists and objects, conditional sub-templates and where-filters; TemplateSpec, Decode, Encode, '
                 'Distinguishable; behaviours = the Geno odometer over the template\'s space; TLC checks NoPlaceholderLeft, '
                 'ShapeOK, InverseLaw (Encode(Decode(d)) = d when candidates are distinguishable), PairwiseDifferent and '
                 'HExact on every state; then the real pg.template / decode / encode / pg.iter / pg.materialize are run '
                 'on every template x where pair and every exported DNA and TLC (HyperLaws.tla) compares the projected '
                 'results with Decode and evaluates the inverse, purity, determinism and iteration laws',
    'level_text': 'Decode and encode of object templates are explicit TLA+ functions over an abstract value language; TLC '
                  'proves the inverse, shape, no-placeholder-left and pairwise-difference laws for every DNA of every '
                  'template of a bounded universe (the odometer of Geno.tla supplies the DNAs). The real code is bound by '
                  'building each template with pg.oneof/manyof/floatv/CustomHyper inside pg.Dict/pg.List/pg.Object, '
                  'decoding every exported DNA, projecting the result to the abstract value language and letting TLC '
                  'compare it with Decode, check encode(decode(d)) = d under the distinguishability proviso, determinism, '
                  'template purity (by serialised form) and the pg.iter sequence.',
    'level_note': 'Bounded: <= 2 (3) placeholders per container level, nesting <= 2, <= 3 candidates, space size <= 40 (120); '
                  'where-filters: all / OneOf only / choices only / 3-candidate choices; floats are multiples of 0.1; '
                  'evolvable placeholders and derived values are not modelled; purity is judged by pg.to_json of the '
                  'template before/after (object identity is deliberately not compared).',
}

QUICK = dict(model='C13_quick.cfg', export='C13_export_quick.cfg', iter_max=40, law_chunks=6)
THOROUGH = dict(model='C13_thorough.cfg', export='C13_export_thorough.cfg', iter_max=120, law_chunks=12)


def evaluate(chk, entries, cfg, name):
  with geno.phase(chk, 'observe_real_code'):
    obs = geno.observe_parallel('pgverif.hyper:observe_c13', entries, chk.seed, cfg,
                              weight=lambda e: 2 + len(e['dnas']) + max(e['size'], 0) // 2)
  with geno.phase(chk, 'tlc_laws'):
    fails, results = geno.laws_parallel('HyperLaws', 'C13_laws.cfg', obs, cfg['law_chunks'], name,
                                      weight=lambda o: 2 + len(o['dnas']) + len(o['iter']))
  for r in results:
    chk.add_tlc(r, count_states=False)
  seen = {}
  for f in fails:
    o = obs[f['i']]
    sig = {'law': f['law'], 'where': 'all' if o['wh'] == 'all' else 'filtered'}
    key = json.dumps(sig, sort_keys=True)
    chk.count('law_failure:' + f['law'])
    if key in seen:
      seen[key]['occurrences'] += 1
      continue
    seen[key] = {'template': hyper.value_str(o['tmpl']), 'template_json': o['tmpl'], 'where_filter': o['wh'],
                 'entry_index': o['index'], 'witness': f['w'], 'occurrences': 1}
  for key, detail in seen.items():
    chk.violation(json.loads(key), detail)
  return obs, fails


def account(chk, obs):
  for o in obs:
    s = (hyper.value_str(o['tmpl']), o['wh'])
    chk.traces += 1 if o['hasiter'] else 0
    chk.evaluations += 4 * len(o['dnas']) + len(o['iter'])
    chk.count('templates')
    if o['tmpl']['h'] == 'tobj' or any(x.get('h') == 'tobj' for x in o['tmpl'].get('items', [])):
      chk.count('typed_templates_bound' if not o['bind_rejected'] else 'typed_templates_refused')
      chk.count('typed_templates_offered_twice', 1 if o['bind_rejected'] else 0)
    chk.count('purity_stages', len(o['json']))
    chk.count('histories_filtered_then_unfiltered' if o['wh'] != 'all' and o['hashist'] else
              ('histories_unfiltered_then_filtered' if o['hashist'] else 'no_history'))
    if o['json'] and o['tmpl']['h'] in ('oneof', 'manyof'):
      chk.count('root_placeholder_purity' + ('_filtered' if o['wh'] != 'all' else ''))
    chk.count('where:' + o['wh'])
    chk.count('decoded', len(o['dnas']))
    chk.count('iterated_values', len(o['iter']))
    chk.count('iterations', 1 if o['hasiter'] else 0)
    for x in o['dnas']:
      chk.distinct_case((s, x['tree']))
      chk.count('encode_near_misses', len(x.get('foreign', [])))
      chk.count('encode_near_misses_refused', sum(1 for f in x.get('foreign', []) if f[1][0] == '!'))
      chk.count('encode_near_misses_accepted', sum(1 for f in x.get('foreign', []) if f[1][0] != '!'))
      if x['decoded'] != o['tmpl']:
        chk.count('decoded_differs_from_template')
      if not x['is_det']:
        chk.count('decoded_with_placeholder_left')
      if x['encoded'][0] != '!':
        chk.count('encoded_ok')
    kinds = set()

    def walk(t, depth):
      kinds.add(t['h'])
      if t['h'] == 'obj' and t.get('c'):
        kinds.add('subclass_object')
      if t['h'] in ('oneof', 'manyof'):
        if depth > 0:
          kinds.add('nested_choice')
        for c in t['cands']:
          if c['h'] not in ('leaf',):
            kinds.add('conditional')
          walk(c, depth + 1)
      for c in t.get('items', []):
        walk(c, depth)
    walk(o['tmpl'], 0)
    if not (kinds & {'oneof', 'manyof', 'float', 'custom'}):
      kinds.add('constant_template')
    for k in kinds:
      chk.count('kind:' + k)


def run(chk):
  cfg = THOROUGH if chk.tier == 'thorough' else QUICK
  chk.rule = ('cases = (template, where-filter, DNA) triples: every template of the TLA+ universe (placeholders OneOf, '
              'ManyOf in each distinct x sorted mode, Float, custom; alone, inside dict / list / object containers, as '
              'conditional candidates) under every applicable filter, decoded with the DNAs TLC exports (all when the '
              'space is small, a spread sample otherwise) and iterated completely with pg.iter when finite; distinct = '
              'distinct (template, where, DNA) triples')
  chk.assumptions += ['a custom hyper decodes the string number s to the constant 50 + s and encodes it back',
                      'leaf constants are small ints; float decisions are multiples of 0.1',
                      'object templates use pg.Object classes with untyped (Any) fields']
  with geno.phase(chk, 'tlc_model_and_export'):
    res = geno.tlc_jobs({
        'model': lambda: tlc.run('Hyper', cfg['model'], timeout=1500),
        'export': lambda: tlc.export_json('HyperExport', cfg['export'], env={'SALT': str(chk.seed)}, timeout=900),
    })
  r = res['model']
  chk.add_tlc(r)
  chk.notes['model'] = r.summary()
  if not r.ok:
    raise tlc.TLCError(f'{cfg["model"]}: {r.violated} violated in the model (specification defect):\n' + r.out[-3000:])
  chk.require(r.distinct > 1000, f'vacuous: Hyper model explored only {r.distinct} states')
  entries, r1 = res['export']
  chk.add_tlc(r1, count_states=False)
  chk.require(len(entries) >= 300, f'vacuous: only {len(entries)} template x where pairs exported')
  obs, fails = evaluate(chk, entries, cfg, 'c13')
  account(chk, obs)
  chk.notes['template_where_pairs'] = len(obs)
  for o in obs:
    if o['hasiter'] and 2 <= len(o['iter']) <= 6 and len(chk.samples) < 5 and \
       (len(chk.samples) % 2 == 0) == (o['wh'] == 'all'):
      chk.sample({'template': hyper.value_str(o['tmpl']), 'where': o['wh'], 'space': geno.spec_str(o['spec']),
                  'decodes(dna, value, encode(value))': [[geno.tree_str(x['tree']), hyper.value_str(x['decoded']),
                                                         geno.tree_str(x['encoded'])] for x in o['dnas'][:6]],
                  'pg.iter': [hyper.value_str(v) for v in o['iter']]})
  c = chk.counters
  for need in ['templates', 'where:all', 'where:oneof', 'where:choices', 'where:many3', 'decoded', 'iterated_values',
               'iterations', 'decoded_with_placeholder_left', 'encoded_ok', 'kind:oneof', 'kind:manyof', 'kind:float',
               'kind:custom', 'kind:dict', 'kind:list', 'kind:obj', 'kind:tobj', 'kind:ref', 'kind:subclass_object', 'kind:constant_template', 'kind:conditional', 'kind:nested_choice',
               'typed_templates_bound', 'typed_templates_refused', 'encode_near_misses_refused', 'encode_near_misses_accepted', 'purity_stages', 'histories_filtered_then_unfiltered',
               'histories_unfiltered_then_filtered', 'root_placeholder_purity', 'root_placeholder_purity_filtered']:
    chk.require(c.get(need, 0) > 0, f'vacuous: counter {need} is zero')


def replay(chk, path):
  v = json.load(open(path))
  d = v['detail']
  cfg = THOROUGH if v.get('tier') == 'thorough' else QUICK
  chk.seed = v.get('seed', 0)
  entries, r1 = tlc.export_json('HyperExport', cfg['export'], env={'SALT': str(chk.seed)}, timeout=900)
  chk.add_tlc(r1, count_states=False)
  sel = [e for e in entries if e['tmpl'] == d['template_json'] and e['wh'] == d['where_filter']][:1]
  chk.require(len(sel) == 1, 'replay: template not found in the exported universe')
  obs, fails = evaluate(chk, sel, dict(cfg, law_chunks=1), 'c13-replay')
  account(chk, obs)
  chk.sample({'replayed': d['template'], 'where': d['where_filter'], 'failures': [f['law'] for f in fails]})
  chk.states = max(chk.states, 1)
  chk.transitions = max(chk.transitions, 1)
