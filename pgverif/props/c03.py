"""C03 - schema invariant: a typed pg.Dict / pg.List / pg.Object never holds a state its schema rejects."""
from pgverif import typedtree

META = {
    'level': 'model_checking',
    'technique': 'TLA+ spec TypedTree.tla (content of one typed pg.Dict / pg.List / pg.Object as explicit state, one '
                 'action per write path fired with acceptable and every kind of unacceptable argument, acceptance '
                 'and completion taken from ValueSpec.tla) checked exhaustively with TLC (invariants Conforms, '
                 'AltsConform; action property RejectedWriteNoStore; Mirror = TRUE searches the coded size checks) + '
                 'S->C replay of TLC-simulated behaviours through real typed containers with per-step comparison of '
                 'outcome class, stored content and the Conforms clauses evaluated directly on the container',
    'level_text': 'The content of a typed container and every public write path (item/attribute assignment, del, pop, '
                  'append, insert, extend, +=, *=, slice assignment and deletion, remove, clear, update, |=, setdefault, '
                  'rebind with one and two paths, MISSING assignment, allow_partial scopes) are modelled in TypedTree.tla; '
                  'TLC proves that the schema invariant and "a rejected write is not stored" hold for every history '
                  'within the bounds, and every simulated history is then executed on real pg.Dict / pg.List / pg.Object '
                  'instances whose value specs are built from the very records the specification uses; after each call '
                  'the exception class, the stored content and each clause of the invariant are compared.',
    'level_note': 'Bounded: three schemas (typed dict with constant + dynamic keys and a nested typed list, typed list '
                  'with element range and size bounds, object with required / frozen / noneable fields and a nested '
                  'typed list), exhaustive depth 2-4 with reduced argument pools, simulation depth <= 40 with full '
                  'pools; type checking stays on; batches have two elements.  Don\'t-cares: which admissible prefix a '
                  'rejected batch keeps; MISSING written to an undeclared key (may or may not raise).  A valid write '
                  'that the code rejects is a machinery failure (exit 2), not a violation.  Trusted: TLC, the TLA+ '
                  'value parser, pgverif/valuespec.py (record <-> pg.typing), the projection (sym_keys, sym_getattr, '
                  'sym_values).',
}

KINDS = [('list', False, 'list'), ('list2', False, 'list2'), ('dict', False, 'dict'), ('dict', True, 'dictp'),
         ('obj', False, 'obj'), ('obj', True, 'objp'), ('nest', False, 'nest'), ('nest', True, 'nestp')]


def run(chk):
  thorough = chk.tier == 'thorough'
  chk.rule = ('behaviours = TLC simulation walks of TypedTree.tla (one typed container, every write path, arguments '
              'sampled by RandomSubset from pools of acceptable and unacceptable values); distinct = distinct call '
              'sequences as replayed')
  chk.assumptions += ['type checking is on (pg.enable_type_check(False) is outside the claim)',
                      'values are small ints / strs / None / lists of them; batches have two elements',
                      'a rejected batch may keep any of its valid elements (alts), as the statement allows']
  # 1. the model: TLC proves the invariant and the action property on the intended semantics
  mc = ['C03_list.cfg', 'C03_list2_cov.cfg', 'C03_nest.cfg', 'C03_obj.cfg', 'C03_dict_cov.cfg', 'C03_dictro.cfg', 'C03_dictp_2.cfg']
  if thorough:      # (the partial-mode object / nested configurations are exhaustive in the thorough tier, simulated in both)
    mc += ['C03_nestp.cfg', 'C03_objp.cfg', 'C03_dict.cfg', 'C03_dictp.cfg', 'C03_list2.cfg', 'C03_list_deep.cfg', 'C03_obj_deep.cfg']
  for cfg in mc:
    typedtree.model_check(chk, cfg)
  # vacuity of the exhaustive runs: every action has transitions out of the initial states (depth-1 state graph)
  # (thorough tier; in the quick tier the same guarantee comes from the replay guard below: every action was
  # replayed at least once accepted and once rejected, hence enabled in the model)
  cov = {}
  for cfg in ('C03_list_cov.cfg', 'C03_dict_cov.cfg', 'C03_obj_cov.cfg', 'C03_nest_cov.cfg', 'C03_list2_cov.cfg') if thorough else ():
    for a, n in typedtree.action_counts(chk, cfg).items():
      cov[a] = cov.get(a, 0) + n
  chk.notes['model_action_coverage'] = dict(sorted(cov.items()))
  for a in () if not thorough else ('DSet', 'DSetAttr', 'OSetAttr', 'DRebind1', 'ORebind1', 'DDel', 'DPop', 'DClear', 'DSetDefault', 'DUpdate',
            'DIor', 'DRebind2', 'ORebind2', 'LSet', 'LRebindSet', 'LRebindAppend', 'LRebindInsert', 'LRebind2', 'LDel',
            'LPop', 'LRemove', 'LClear', 'LDelSlice', 'LSetSliceA', 'LAppend', 'LInsert', 'LExtendA', 'LIadd', 'LImul',
            'LDelSliceX', 'LSetSliceX', 'NSetExtAttr', 'NSetExtRebind', 'NLeaf', 'CtorOmit'):
    chk.require(cov.get(a, 0) > 0, f'vacuous: action {a} never taken in the exhaustive runs')
  # 2. replay
  models = {k: typedtree.Model(k) for k in ('list', 'list2', 'dict', 'obj', 'nest')}
  models_p = {'dict': typedtree.Model('dict', True)}      # the partial-mode dict has a schema of its own
  model_ro = typedtree.Model('dict', False, 'dictro')     # the dict created with accessor_writable=False

  def model_of(kind, partial):
    return models_p[kind] if partial and kind in models_p else models[kind]
  hits = {}

  def add(h):
    for k, v in h.items():
      hits[k] = hits.get(k, 0) + v

  # 2a. TLC searches the size checks *as coded* for a violation of Conforms; the counter-example is replayed
  typedtree.mirror_search(chk, 'C03_mirror.cfg', 'list', False, hits, models['list'])
  # 2b. simulated behaviours; the second pass stays away from the two mechanisms with open findings
  n1, d1, n2, d2 = (80, 15, 80, 30) if not thorough else (600, 25, 600, 40)
  for kind, partial, tag in KINDS:
    # (list2 exists for the extended-slice actions only: more, longer walks over fewer action families)
    add(typedtree.replay_simulated(chk, kind, partial, f'C03_sim_{tag}.cfg', n1 * (2 if kind == 'list2' else 1),
                                   d1 * (2 if kind == 'list2' else 1), chk.seed, model_of(kind, partial)))
    if (thorough or not partial) and kind != 'list2':      # (the list2 configuration is an Avoid pass itself)
      add(typedtree.replay_simulated(chk, kind, partial, f'C03_sim_avoid_{tag}.cfg', n2, d2, chk.seed + 1, model_of(kind, partial)))
  # the dict with accessor_writable=False: accessor-style writes are refused, methods keep working
  add(typedtree.replay_simulated(chk, 'dict', False, 'C03_sim_dictro.cfg', n1, d1, chk.seed + 2, model_ro))
  # every mechanism must have been exercised with both outcomes; a sample that misses one is topped up (more behaviours,
  # derived seeds) before the check is declared vacuous
  names = ['DSet', 'DSetAttr', 'OSetAttr', 'Rebind1', 'DDel', 'DPop', 'DClear', 'DSetDefault', 'DUpdate', 'DIor', 'Rebind2',
           'LSet', 'LRebindSet', 'LRebindAppend', 'LRebindInsert', 'LRebind2', 'LDel', 'LPop', 'LRemove', 'LClear',
           'LDelSlice', 'LSetSlice', 'LAppend', 'LInsert', 'LExtend', 'LIadd', 'LImul', 'LDelSliceX', 'LSetSliceX',
           'NSetExtAttr', 'NSetExtRebind', 'NLeaf', 'CtorOmit']

  def missing():
    m = [a + o for a in names for o in (':ok', ':err') if hits.get(a + o, 0) == 0]
    if hits.get('DSet:perm', 0) + hits.get('DSetAttr:perm', 0) == 0 or hits.get('DDel:perm', 0) == 0:
      m.append('perm')
    return m

  for extra in range(1, 5):
    if not missing() or chk.violations:
      break
    chk.count('top_up_rounds')
    for kind, partial, tag in KINDS:
      add(typedtree.replay_simulated(chk, kind, partial, f'C03_sim_{tag}.cfg', n1 * (2 if kind == 'list2' else 1),
                                     d1 * (2 if kind == 'list2' else 1), chk.seed + 1000 * extra, model_of(kind, partial)))
    add(typedtree.replay_simulated(chk, 'dict', False, 'C03_sim_dictro.cfg', n1, d1, chk.seed + 1000 * extra + 2, model_ro))
  chk.require(hits.get('DSet:perm', 0) + hits.get('DSetAttr:perm', 0) > 0 and hits.get('DDel:perm', 0) > 0,
              'vacuous: no refused accessor-style write replayed')
  chk.notes['action_outcome_hits'] = dict(sorted(hits.items()))
  chk.require(hits.get('valid_write_rejected', 0) == 0,
              f'the code rejected {hits.get("valid_write_rejected", 0)} writes the specification accepts '
              f'(see valid_write_rejected in the evidence): TypedTree.tla no longer describes the code')
  for a in names:
    chk.require(hits.get(a + ':ok', 0) > 0, f'vacuous: no accepted {a} replayed')
    chk.require(hits.get(a + ':err', 0) > 0, f'vacuous: no rejected {a} replayed')


def replay(chk, path):
  chk.rule = f'replay of the behaviour recorded in {path}'
  typedtree.replay_file(chk, path)
