"""C15 - search algorithms recover their state from history at every crash point."""
from __future__ import annotations

import collections
import json
import random
import time
from pathlib import Path

from pgverif import search, tlc
from pgverif.core import WORK

META = {
    'level': 'model_checking',
    'technique': 'TLA+ spec Search.tla (generators Sweeping / Random(seed) / Deduping wrappers / Evolution with the '
                 'population rules of regularized_evolution, hill_climb, nsga2, neat; persisted history; Propose, '
                 'Feedback(i), CrashRecover) checked exhaustively with TLC: CrashRecover is a stuttering step on the '
                 'observable state and history-determined algorithms continue with the same proposals for every future '
                 'of the RNG; the as-coded recover rules (constant Mirror) yield design-level counter-examples that '
                 'are replayed on the code; S->C double run: every behaviour of a transition cover of the state graph '
                 '(and simulated longer behaviours) is executed on the real algorithm objects uninterrupted and with '
                 'crash/recover through pg.to_json_str/from_json_str, Obs compared with the spec and with each other '
                 'after every step',
    'level_text': 'The algorithms\' recoverable state (counters, last swept DNA, RNG position, de-duplication memory and '
                  'the wrapped generator, initial-phase flag, generation counter, population, elites, pending batch) and '
                  'the persisted history are explicit state of Search.tla; TLC proves for every schedule of proposals, '
                  'feedbacks (in and out of order, up to w in flight) and crash points within the bounds that a fresh '
                  'instance replaying the history is observably the instance that was lost; the same behaviours are '
                  'executed on the shipped algorithm objects (the RNG draws and evolution children TLC chose are '
                  'realised by real seeds and a scripted mutator), so every crash point of every small history is '
                  'decided on the code, not one scripted recovery per algorithm.',
    'level_note': 'Bounded: <= 4 proposals / <= 1 in flight / <= 2 crashes exhaustively, <= 3-4 proposals with <= 2 in '
                  'flight and out-of-order feedback exhaustively, longer by simulation; spaces of 3 (and 4) points; the '
                  'RNG streams TLC may use are the observed draws of real seeds; evolution children are chosen by TLC '
                  '(scripted mutator), parents are still chosen by the real selectors. Trusted: TLC, the value parser, '
                  'the projection (num_proposals, num_feedbacks, population + metadata, global_state.elites, '
                  'num_generations; private reads: Evolution._population_initialized, Deduping._cache). Not compared: '
                  'proposals of a recovered evolution (not history-determined), its pending batch, elite_cursor, '
                  'counters of a wrapped generator that takes no feedback.',
}

MIRROR_RULES = ['dd_inner', 'dd_inflight', 'dd_draws', 'evo_gen', 'evo_order']


def _streams(chk, d, n_seeds, length, tag):
  spaces = search.spaces_for(d)
  seeds = [chk.seed * 1000 + i for i in range(n_seeds)]
  streams, pmap = search.seed_streams(spaces, seeds, length)
  wd = WORK / 'c15'
  wd.mkdir(parents=True, exist_ok=True)
  f = wd / f'streams-{tag}-{chk.tier}-{chk.seed}.json'
  f.write_text(json.dumps(streams))
  chk.count('rng_streams_observed', len(streams))
  return spaces, pmap, {'STREAMS_FILE': str(f)}


def _jobs(chk, behs, pmap, n_spaces, mirror=False, base=0):
  jobs = []
  for j, beh in enumerate(behs):
    c = search.concretise(beh, pmap, n_spaces, j + chk.seed)
    if c is None:
      chk.count('behaviours_without_seed')
      continue
    jobs.append((base + j, beh, c[0], c[1], mirror))
  return jobs


def _absorb(chk, results, source, stats):
  for r in results:
    if r['machinery']:
      raise tlc.TLCError(f'[{source}] {r["machinery"]}')
    chk.traces += 1
    chk.evaluations += r['steps']
    chk.count('steps_replayed', r['steps'])
    for k, v in r['counters'].items():
      stats[r['cfg'] + ':' + k] += v
      stats['all:' + k] += v
    stats[r['cfg'] + ':behaviours'] += 1
    if any(a[0] == 'Propose' and a[2] for a in r['acts']):
      stats[r['cfg'] + ':evolve'] += 1
    if r['steps'] >= 2:
      chk.distinct_case((r['cfg'], r['pm'], r['acts']))
    if not r['violations']:
      chk.count('behaviours_conforming')
      if len(chk.samples) < 4 and len(r['acts']) >= 6 and any(a[0] == 'Crash' for a in r['acts']):
        chk.sample({'spec': 'Search', 'source': source, 'config': r['cfg'], 'persist': r['pm'], 'space': r['space'],
                    'seed': r['seed'], 'behaviour': r['acts']})
    for sig, detail in r['violations']:
      detail = dict(detail, source=source)
      known = chk.violation(sig, detail)
      stats['diverged_known' if known else 'diverged_unknown'] += 1
      if known and sum(1 for s in chk.samples if isinstance(s, dict) and s.get('known_finding')) < 2:
        chk.sample({'known_finding': True, 'signature': sig, 'config': r['cfg'], 'behaviour': r['acts'],
                    'uninterrupted': detail.get('uninterrupted'), 'recovered': detail.get('recovered')})


def _check_and_cover(chk, cfg, env, spaces, pmap, stats, limit, timeout=1500, cover=True):
  """Exhaustive TLC run; with cover=True the state graph is dumped and a transition cover of it (or a
  stratified sample of `limit` paths) is replayed on the real code."""
  t0 = time.time()
  dump = WORK / 'c15' / f'graph-{Path(cfg).stem}-{chk.seed}'
  r = tlc.run('Search', cfg, env=env, timeout=timeout,
              extra=['-dump', 'dot,actionlabels', str(dump)] if cover else None)
  chk.add_tlc(r)
  chk.notes.setdefault('tlc_runs', []).append(r.summary())
  if not r.ok:
    raise tlc.TLCError(f'{cfg}: {r.violated} violated in the intended model:\n' + r.out[-3000:])
  chk.require(r.distinct > 1000, f'{cfg}: suspiciously small state space ({r.distinct})')
  t1 = time.time()
  if not cover:
    chk.notes.setdefault('timing_s', {})[cfg] = dict(tlc=round(t1 - t0, 1))
    return
  nodes, out, inits = search.read_dump(str(dump) + '.dot')
  Path(str(dump) + '.dot').unlink(missing_ok=True)
  paths = search.transition_cover(nodes, out, inits)
  t2 = time.time()
  chk.count('cover_paths:' + cfg, len(paths))
  if limit and len(paths) > limit:
    rng = random.Random(chk.seed)
    by_cfg = collections.defaultdict(list)
    for p in paths:
      by_cfg[nodes[p[0]]['cfg']].append(p)
    sel = []
    per = max(1, limit // len(by_cfg))
    for c in sorted(by_cfg):
      ps = by_cfg[c]
      sel += ps if len(ps) <= per else rng.sample(ps, per)
    paths = sel
  else:
    chk.count('cover_complete:' + cfg)
  behs = [search.behaviour_of_path(nodes, p) for p in paths]
  res = search.replay_all(spaces, _jobs(chk, behs, pmap, len(spaces)))
  _absorb(chk, res, cfg, stats)
  chk.notes.setdefault('timing_s', {})[cfg] = dict(tlc=round(t1 - t0, 1), graph=round(t2 - t1, 1),
                                                   replay=round(time.time() - t2, 1), behaviours=len(behs))


def _simulate(chk, cfg, env, spaces, pmap, stats, num, depth, workers=4):
  t0 = time.time()
  behs, r = tlc.simulate('Search', cfg, num=num // workers, depth=depth, seed=chk.seed * 7919 + 11, env=env,
                         workers=workers, timeout=1500, name=f'sim-Search-{Path(cfg).stem}-{chk.seed}')
  chk.add_tlc(r, count_states=False)
  chk.transitions += r.generated
  if not r.ok:
    raise tlc.TLCError(f'{cfg}: {r.violated} violated during simulation of the intended model:\n' + r.out[-3000:])
  t1 = time.time()
  behs = [search.behaviour_of_steps(b) for b in behs if len(b) > 2]
  res = search.replay_all(spaces, _jobs(chk, behs, pmap, len(spaces)))
  _absorb(chk, res, cfg + ' (simulation)', stats)
  chk.notes.setdefault('timing_s', {})[cfg + ' (simulation)'] = dict(
      tlc=round(t1 - t0, 1), replay=round(time.time() - t1, 1), behaviours=len(behs))


def _mirror(chk, env, spaces, pmap, stats):
  """Design-level counter-examples of the as-coded recover rules, replayed on the real code."""
  for rule in MIRROR_RULES:
    cfg = f'C15_mirror_{rule}.cfg'
    r = tlc.run('Search', cfg, env=env, timeout=600)
    chk.add_tlc(r)
    chk.require(not r.ok and r.violated in ('RecoverIsStutter', 'ContinuesSame') and r.error_trace,
                f'vacuous: TLC finds no counter-example for the as-coded rule {rule} (model lost its sensitivity)')
    beh = search.behaviour_of_steps(r.error_trace)
    stream = tuple(beh[-1][1]['stream'])
    cands = pmap.get(stream, [])
    chk.require(bool(cands), f'no real seed for the counter-example stream {stream}')
    jobs = [(i, beh, si, seed, True) for i, (si, seed) in enumerate(cands[:16 if rule == 'dd_draws' else 2])]
    res = search.replay_all(spaces, jobs)
    reproduced = sum(1 for x in res if x['violations'])
    _absorb(chk, res, cfg, stats)
    stats[f'mirror:{rule}:reproduced_on_code'] += reproduced
    chk.notes.setdefault('design_counterexamples', {})[rule] = {
        'violated': r.violated, 'config': beh[0][1]['cfg'], 'behaviour': [a for a, _ in beh[1:]],
        'reproduced_on_code': f'{reproduced}/{len(res)} concretisations'}


def run(chk):
  thorough = chk.tier == 'thorough'
  chk.rule = ('behaviours = paths of a transition cover of the TLC state graph of Search.tla (exhaustive configs) and '
              'TLC simulation walks (longer configs), each concretised by a real seed whose RNG draws match; '
              'distinct = distinct (configuration, persistence mode, call sequence); non-trivial = at least 2 steps '
              'executed on the real objects')
  chk.assumptions += [
      'rewards are a deterministic injective function of (DNA, proposal index), so no tie-breaking rule is compared',
      'the DNA (with the metadata the algorithm attached so far) is persisted at proposal time or again at feedback '
      'time; with out-of-order feedback only the latter is explored (the order is not in the history otherwise)',
      'a Deduping.propose that gave up (StopIteration) ends the search: recovery after it is not explored',
      'Deduping over an evolution is given an explicit hash_fn (the default pg.hash covers the DNA metadata)',
  ]
  stats = collections.Counter()
  spaces, pmap, env = _streams(chk, 3, 24 if thorough else 8, 10 if thorough else 9, 'd3')
  if not thorough:
    _check_and_cover(chk, 'C15_quick.cfg', env, spaces, pmap, stats, limit=0, cover=False)
    _check_and_cover(chk, 'C15_ooo.cfg', env, spaces, pmap, stats, limit=0, cover=False)
    _mirror(chk, env, spaces, pmap, stats)
    _simulate(chk, 'C15_quick.cfg', env, spaces, pmap, stats, num=400, depth=16)
    _simulate(chk, 'C15_ooo.cfg', env, spaces, pmap, stats, num=240, depth=12)
    _simulate(chk, 'C15_sim.cfg', env, spaces, pmap, stats, num=200, depth=22)
  else:
    _check_and_cover(chk, 'C15_thorough.cfg', env, spaces, pmap, stats, limit=0, timeout=3000)
    _check_and_cover(chk, 'C15_ooo_thorough.cfg', env, spaces, pmap, stats, limit=8000, timeout=3000)
    _mirror(chk, env, spaces, pmap, stats)
    _simulate(chk, 'C15_sim_thorough.cfg', env, spaces, pmap, stats, num=3000, depth=30, workers=8)
    spaces4, pmap4, env4 = _streams(chk, 4, 16, 9, 'd4')
    _simulate(chk, 'C15_sim4.cfg', env4, spaces4, pmap4, stats, num=2000, depth=24, workers=8)
  chk.notes['replay_stats'] = dict(sorted(stats.items()))
  # vacuity guards: every mechanism the property talks about was exercised on the real code
  for c in search.FAMILY:
    chk.require(stats[c + ':Crash'] > 0, f'vacuous: no crash/recover step replayed for {c}')
    chk.require(stats[c + ':Feedback'] > 0, f'vacuous: no feedback replayed for {c}')
  for c in ('regevo', 'hill', 'hill2', 'neat', 'sched', 'dd_regevo', 'dd_hill_auto') + (('nsga2',) if thorough else ()):
    chk.require(stats[c + ':evolve'] > 0, f'vacuous: no evolution step (scripted children) replayed for {c}')
  for form in search.HISTORY_FORMS:
    chk.require(stats['all:Crash:history=' + form] > 0, f'vacuous: recover() never received the history as a {form}')
  for c in search.FAMILY:
    chk.require(sum(stats[f'{c}:Crash:history={f}'] for f in ('generator', 'iterator', 'map')) > 0,
                f'vacuous: {c} never recovered from a one-shot iterable')
  chk.require(stats['all:Crash:inflight=1'] > 0, 'vacuous: no crash with a proposal in flight')
  chk.require(stats['all:Crash:inflight=0'] > 0, 'vacuous: no crash with every reward present')
  chk.require(stats['all:Crash:after_out_of_order_feedback'] > 0, 'vacuous: no crash after out-of-order feedback')
  chk.require(stats['all:ProposeStop'] > 0, 'vacuous: StopIteration never reached')
  chk.require(stats['all:tail_checked'] > 0, 'vacuous: continuation of history-determined algorithms never compared')
  chk.require(stats['all:auto_reward_feedback'] > 0, 'vacuous: automatic reward of Deduping never used')
  chk.require(chk.counters.get('behaviours_conforming', 0) > 0,
              'vacuous: no conforming behaviour')


def replay(chk, path):
  """Re-executes the behaviour of a replay file written for a violation."""
  v = json.loads(Path(path).read_text())
  d = v['detail']
  beh = [(a, s) for a, s in d['behaviour']]
  spaces = search.spaces_for(d.get('D', 3))
  sp = [s for s in spaces if s.name == d['space']][0]
  r = search.replay(beh, sp, d['seed'], mirror=bool(d.get('mirror')))
  stats = collections.Counter()
  _absorb(chk, [r], 'replay:' + Path(path).name, stats)
  chk.states = max(chk.states, 1)
  chk.transitions = max(chk.transitions, len(beh))
  if not chk.samples:
    chk.sample({'replayed': r['acts']})
