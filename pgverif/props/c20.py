"""C20 - HTML views are well-formed and never let data break out of its text position."""
from __future__ import annotations

import json

from pgverif import tlc

META = {
    'level': 'model_checking',
    'technique': 'C->S trace validation: documents rendered by pg.to_html_str for (view options x value shape x '
                 'metacharacter class) cases drawn from the universes enumerated by TLC (HtmlGen.tla) are tokenised '
                 'by a strict tokenizer, user data carries unique sentinels, and the token traces are validated in '
                 'batches by TLC against HtmlDoc.tla (stack automaton of open elements with the HTML parser\'s '
                 'no-repair nesting rules, content modes, attribute well-formedness/uniqueness, taint positions)',
    'level_text': 'HtmlDoc.tla is the grammar automaton of a well-formed document (open/close/void/text/comment events, '
                  'stack of open elements, raw-text mode of script/style, the nesting constraints under which an HTML '
                  'parser repairs nothing) plus the taint rule: a token component that contains a planted user datum '
                  'may only be character data or an attribute value, and must contain the datum intact after '
                  'unescaping. Every rendered document becomes one trace; TLC accepts it or names the first event it '
                  'cannot match. Presence of every key and string leaf and pg.to_json(value) before/after rendering '
                  'are compared by the driver.',
    'level_note': 'The thinnest use of TLA+ among the properties: TLC contributes the document automaton and the '
                  'enumeration of the option/shape universes; the escaping judgement rests on the strict tokenizer '
                  'and the sentinel bookkeeping of pgverif/htmldoc.py (trusted, ~200 lines, stdlib only). Sampled: '
                  '1152 option combinations x 129/777 shapes x 9 metacharacter classes are drawn deterministically '
                  '(300 documents quick, 5000 thorough), not exhausted. Keys and names containing path syntax '
                  '([ ] .) are not generated (pg.Dict parses them as paths: C10/C02 territory).',
}


def _case(i, seed, opts, shapes):
  from pgverif import htmldoc   # pylint: disable=import-outside-toplevel
  o = opts[(i * 37 + seed) % len(opts)]
  sh = shapes[(i * 11 + seed * 7) % len(shapes)]
  c = (i + seed) % len(htmldoc.CLASSES)
  # every other document keeps keys / names / class names free of metacharacters, so that the positions
  # of string values, tooltips and documentation are validated to the end of the document even while
  # the key-escaping findings are open (a rejected trace is not examined past the rejected event)
  return o, sh, c, _TCN[(i // 2) % 4], _PLAIN[(i // 2) % 4]


_PLAIN = [(), ('key', 'name', 'classname'), ('key',), ('key', 'name', 'classname')]
_TCN = [True, False, True, False]      # whether the class of 'obj' shapes gets a tainted __name__


def _render(i, o, sh, c, tcn, plain=()):
  import pyglove as pg          # pylint: disable=import-outside-toplevel
  from pgverif import htmldoc   # pylint: disable=import-outside-toplevel
  b = htmldoc.Builder(c, taint_class_name=tcn, plain_roles=plain)
  v = b.build(sh)
  kw, excl = htmldoc.render_kwargs(o, v, b)
  before = htmldoc.snapshot(v)
  doc = pg.to_html_str(v, **kw)
  after = htmldoc.snapshot(v)
  evs, texts = htmldoc.events(doc, b.data)
  return dict(i=i, b=b, v=v, kw=kw, excl=excl, doc=doc, evs=evs, texts=texts, modified=before != after,
              shape=sh, opts=o)


def _render_control(i, rec, c):
  import pyglove as pg          # pylint: disable=import-outside-toplevel
  from pgverif import htmldoc   # pylint: disable=import-outside-toplevel
  b = htmldoc.Builder(c, taint_class_name=False)
  v, expect = htmldoc.build_control(rec, b)
  before = htmldoc.snapshot(v)
  doc = pg.to_html_str(v)
  after = htmldoc.snapshot(v)
  evs, texts = htmldoc.events(doc, b.data)
  return dict(i=i, b=b, v=v, kw={}, excl=None, doc=doc, evs=evs, texts=texts, modified=before != after,
              shape=rec, opts={'control': rec['ctl']}, expect=expect)


def _judge(chk, cases, r):
  """Turns TLC's verdicts on a batch into violations."""
  from pgverif import htmldoc   # pylint: disable=import-outside-toplevel
  rejected = {}
  for p in r.prints or []:
    if p and p[0] == 'REJECT':
      rejected[p[1]] = p[3]
  for cs in cases:
    i, b, evs = cs['i'], cs['b'], cs['evs']
    chk.traces += 1
    chk.evaluations += len(evs)
    chk.distinct_case((cs['shape'], sorted(cs['opts'].items()), b.cls_name))
    detail = {'case': i, 'shape': cs['shape'], 'options': cs['opts'], 'class': b.cls_name, 'seed': chk.seed,
              'kwargs': {k: repr(v) for k, v in cs['kw'].items()}}
    if cs['modified']:
      chk.violation({'clause': 'mutation'}, dict(detail, what='pg.to_json(value) changed by rendering'))
    if i in rejected:
      k = rejected[i]
      ev = evs[k]
      role = htmldoc.culprit_role(evs, k, b.roles, b.data, cs['doc'])
      chk.count('rejected_traces')
      sig = ({'clause': 'breakout', 'role': role} if role != 'none' else
             {'clause': 'wellformed', 'role': 'none', 'event': ev['k'], 'tag': ev['tag']})
      chk.violation(sig, dict(detail, rejected_at_event=k,
                              event={x: y for x, y in ev.items() if x != '_near'},
                              previous_events=[e.get('_src', '')[-80:] for e in evs[max(0, k - 3):k]],
                              data={s: b.data[s] for s in list(b.data)[:6]}))
      continue
    chk.count('accepted_traces')
    if b.cls_name != 'plain':
      chk.count('accepted_traces_with_metacharacters')
      chk.count('tainted_text_tokens_validated', sum(1 for e in evs if 'text_ok' in e['taint']))
    alltext = '\n'.join(cs['texts'])
    for t in cs.get('expect', ()):
      chk.count('presence_checks')
      if t not in alltext:
        chk.violation({'clause': 'presence', 'role': 'control', 'control': cs['shape']['ctl']},
                      dict(detail, missing=t))
    for s in ([] if 'expect' in cs else htmldoc.visible_sentinels(cs['v'], cs['excl'], b)):
      chk.count('presence_checks')
      if b.data[s] not in alltext:
        how = 'other'
        if (b.roles[s] == 'key' and htmldoc.KEY_VALUE_KIND.get(s) == 'str' and cs['opts']['key_style'] == 'summary'
            and not cs['opts']['enable_summary_for_str']):
          how = 'summary_style_key_of_str_value_with_summary_disabled'
        chk.violation({'clause': 'presence', 'role': b.roles[s], 'case': how},
                      dict(detail, missing=b.data[s]))
    if len(chk.samples) < 4 and b.cls_name != 'plain' and len(evs) > 40:
      chk.sample({'shape': cs['shape'], 'options': cs['opts'], 'class': b.cls_name, 'events': len(evs),
                  'tainted_text_tokens': sum(1 for e in evs if 'text_ok' in e['taint']),
                  'first_events': [[e['k'], e['tag']] for e in evs[:8]]})


def run(chk):
  from pgverif import htmldoc   # pylint: disable=import-outside-toplevel
  thorough = chk.tier == 'thorough'
  chk.rule = ('one trace = one rendered document (option combination, value shape, metacharacter class); evaluations '
              '= token events validated by TLC; distinct = distinct (shape, options, class); all traces carry user data')
  chk.assumptions += ['the strict tokenizer and the sentinel/intactness bookkeeping are trusted',
                      'cases are a deterministic sample of options x shapes x classes, not the full product',
                      'keys / names with path syntax characters are not generated']
  gen, rg = tlc.export_json('HtmlGen', 'C20_gen_thorough.cfg' if thorough else 'C20_gen_quick.cfg', timeout=600)
  chk.add_tlc(rg)
  opts, shapes = gen['options'], gen['shapes']
  chk.notes['universe'] = {'option_combinations': len(opts), 'shapes': len(shapes), 'classes': len(htmldoc.CLASSES)}
  n = 8000 if thorough else 2700
  batch = 1000
  seen_opts = set()
  for start in range(0, n, batch):
    cases = []
    for i in range(start, min(n, start + batch)):
      o, sh, c, tcn, plain = _case(i, chk.seed, opts, shapes)
      seen_opts.add(json.dumps(o, sort_keys=True))
      try:
        cases.append(_render(i, o, sh, c, tcn, plain))
      except Exception as e:   # pylint: disable=broad-except
        chk.violation({'clause': 'render_raises', 'error': type(e).__name__},
                      {'case': i, 'shape': sh, 'options': o, 'error': str(e)[:300]})
    traces = [{'id': cs['i'], 'ev': htmldoc.for_tlc(cs['evs'])} for cs in cases]
    r = tlc.check_with_json('HtmlDoc', 'C20_trace.cfg', traces, var='TRACE_FILE', ndjson=True, workers=1,
                            name=f'C20-trace-{start}', timeout=1800)
    chk.add_tlc(r)
    if not r.ok:
      raise tlc.TLCError(f'HtmlDoc trace validation failed: {r.violated}\n' + r.out[-2000:])
    _judge(chk, cases, r)
  chk.notes['option_combinations_used'] = len(seen_opts)
  # the shipped controls, every option combination, rendered on their own / inside a pg.Dict / in a plain list
  ctls = gen['controls']
  cases = []
  for j, rec in enumerate(ctls):
    try:
      cases.append(_render_control(100000 + j, rec, (j + chk.seed) % len(htmldoc.CLASSES)))
    except Exception as e:   # pylint: disable=broad-except
      chk.violation({'clause': 'render_raises', 'error': type(e).__name__, 'control': rec['ctl']},
                    {'control': rec, 'error': str(e)[:300]})
  traces = [{'id': cs['i'], 'ev': htmldoc.for_tlc(cs['evs'])} for cs in cases]
  r = tlc.check_with_json('HtmlDoc', 'C20_trace.cfg', traces, var='TRACE_FILE', ndjson=True, workers=1,
                          name='C20-trace-controls', timeout=1800)
  chk.add_tlc(r)
  if not r.ok:
    raise tlc.TLCError(f'HtmlDoc trace validation (controls) failed: {r.violated}\n' + r.out[-2000:])
  _judge(chk, cases, r)
  chk.count('control_documents', len(cases))
  chk.notes['controls'] = {'records': len(ctls), 'kinds': sorted({c['ctl'] for c in ctls})}
  chk.require(len(cases) == len(ctls) or chk.violations or chk.known_hits, 'controls could not be rendered')
  # self-test of the automaton + tokenizer: hand-made bad documents must be rejected, a good one accepted
  bad = {
      'unclosed': '<html><body><div></body></html>',
      'stray_lt': '<html><body>a < b</body></html>',
      'bare_amp': '<html><body>a & b</body></html>',
      'p_div': '<html><body><p><div></div></p></body></html>',
      'tr_outside': '<html><body><tr></tr></body></html>',
      'text_in_table': '<html><body><table>x<tr><td></td></tr></table></body></html>',
      'dup_attr': '<html><body><div class="a" class="b"></div></body></html>',
      'void_close': '<html><body><br></br></body></html>',
      'selfclose': '<html><body><div/></body></html>',
      'two_roots': '<html></html><html></html>',
      'good': '<html><head><style>a<b</style></head><body><details open><summary>x &amp; y</summary>'
              '<table><tr><td class="k">1</td></tr></table><br></details></body></html>',
  }
  traces = [{'id': k, 'ev': htmldoc.for_tlc(htmldoc.events(d, {})[0])} for k, d in bad.items()]
  r = tlc.check_with_json('HtmlDoc', 'C20_trace.cfg', traces, var='TRACE_FILE', ndjson=True, workers=1,
                          name='C20-selftest', timeout=300)
  chk.add_tlc(r, count_states=False)
  rej = {p[1] for p in (r.prints or []) if p and p[0] == 'REJECT'}
  chk.require(rej == set(bad) - {'good'}, f'automaton self-test: rejected {sorted(rej)}')
  chk.require(chk.counters.get('accepted_traces', 0) > 50, 'vacuous: almost no accepted trace')
  chk.require(chk.counters.get('presence_checks', 0) > 100, 'vacuous: no presence checks')
  chk.require(chk.counters.get('accepted_traces_with_metacharacters', 0) > 100,
              'vacuous: hardly any document with metacharacters was validated to its end')
  chk.require(chk.counters.get('tainted_text_tokens_validated', 0) > 500, 'vacuous: no tainted text validated')


def replay(chk, path):
  from pgverif import htmldoc   # pylint: disable=import-outside-toplevel
  data = json.loads(open(path).read())
  d = data['detail']
  c = [n for n, _ in htmldoc.CLASSES].index(d['class'])
  if isinstance(d['shape'], dict):        # a control record
    cs = _render_control(d['case'], d['shape'], c)
  else:
    cs = _render(d['case'], d['options'], d['shape'], c, _TCN[(d['case'] // 2) % 4], _PLAIN[(d['case'] // 2) % 4])
  traces = [{'id': cs['i'], 'ev': htmldoc.for_tlc(cs['evs'])}]
  r = tlc.check_with_json('HtmlDoc', 'C20_trace.cfg', traces, var='TRACE_FILE', ndjson=True, workers=1,
                          name='C20-replay', timeout=300)
  chk.add_tlc(r)
  _judge(chk, [cs], r)
  chk.sample({'replayed': path, 'events': len(cs['evs'])})
