"""C20 - HTML views are well-formed and never let data break out of its text position."""
from __future__ import annotations

import json

from pgverif import tlc

META = {
    'level': 'model_checking',
    'technique': 'C->S trace validation: documents rendered by pg.to_html_str for (view options x value shape x '
                 'metacharacter class) cases drawn from the universes enumerated by TLC (HtmlGen.tla) are tokenised '
                 'by a strict tokenizer, user data carries unique sentinels, and the token traces are validated in '
                 'batches by TLC against HtmlDoc.tla (stack automaton of open elements with the HTML parser\'s '
                 'no-repair nesting rules, content modes, attribute well-formedness/uniqueness, taint positions)',
    'level_text': 'HtmlDoc.tla is the grammar automaton of a well-formed document (open/close/void/text/comment events, '
                  'stack of open elements, raw-text mode of script/style, the nesting constraints under which an HTML '
                  'parser repairs nothing) plus the taint rule: a token component that contains a planted user datum '
                  'may only be character data or an attribute value, and must contain the datum intact after '
                  'unescaping. Every rendered document becomes one trace; TLC accepts it or names the first event it '
                  'cannot match. Presence of every key and string leaf and pg.to_json(value) before/after rendering '
                  'are compared by the driver.',
    'level_note': 'The thinnest use of TLA+ among the properties: TLC contributes the document automaton and the '
                  'enumeration of the option/shape universes; the escaping judgement rests on the strict tokenizer '
                  'and the sentinel bookkeeping of pgverif/htmldoc.py (trusted, ~200 lines, stdlib only). Sampled: '
                  '1152 option combinations x 129/777 shapes x 9 metacharacter classes are drawn deterministically '
                  '(300 documents quick, 5000 thorough), not exhausted. Keys and names containing path syntax '
                  '([ ] .) are not generated (pg.Dict parses them as paths: C10/C02 territory).',
}


def _case(i, seed, opts, shapes):
  from pgverif import htmldoc   # pylint: disable=import-outside-toplevel
  o = opts[(i * 37 + seed) % len(opts)]
  sh = shapes[(i * 11 + seed * 7) % len(shapes)]
  c = (i + seed) % len(htmldoc.CLASSES)
  # every other document keeps keys / names / class names free of metacharacters, so that the positions
  # of string values, tooltips and documentation are validated to the end of the document even while
  # the key-escaping findings are open (a rejected trace is not examined past the rejected event)
  return o, sh, c, _TCN[(i // 2) % 4], _PLAIN[(i // 2) % 4], (_HIST[(i // 3) % len(_HIST)] if _HIST and i % 3 == 0 else ())


_HIST = []     # filled from HtmlGen.Histories by run()
_PLAIN = [(), ('key', 'name', 'classname'), ('key',), ('key', 'name', 'classname')]
_TCN = [True, False, True, False]      # whether the class of 'obj' shapes gets a tainted __name__


def _in_thread(fn):
  """Runs fn on a fresh thread (fresh thread-local option stacks) and returns its result / re-raises."""
  import threading   # pylint: disable=import-outside-toplevel
  box = {}

  def run():
    try:
      box['r'] = fn()
    except BaseException as e:   # pylint: disable=broad-except
      box['e'] = e
  th = threading.Thread(target=run)
  th.start()
  th.join()
  if 'e' in box:
    raise box['e']
  return box['r']


def _render(i, o, sh, c, tcn, plain=(), history=()):
  import pyglove as pg          # pylint: disable=import-outside-toplevel
  from pgverif import htmldoc   # pylint: disable=import-outside-toplevel
  b = htmldoc.Builder(c, taint_class_name=tcn, plain_roles=plain)
  v = b.build(sh)
  _, excl = htmldoc.render_kwargs(o, v, b)
  before = htmldoc.snapshot(v)

  def with_history():
    ends = [htmldoc.run_fault(f, v) for f in history]
    kw, _ = htmldoc.render_kwargs(o, v, b)        # fresh one-shot iterables for every rendering
    return ends, kw, pg.to_html_str(v, **kw)
  fault_ends, kw, doc = _in_thread(with_history)
  after = htmldoc.snapshot(v)
  fresh = None
  if history:
    fresh = _in_thread(lambda: pg.to_html_str(v, **htmldoc.render_kwargs(o, v, b)[0]))
  evs, texts = htmldoc.events(doc, b.data)
  return dict(i=i, b=b, v=v, kw=kw, excl=excl, doc=doc, evs=evs, texts=texts, modified=before != after,
              shape=sh, opts=o, history=list(history), fault_ends=fault_ends,
              history_differs=(fresh is not None and fresh != doc))


def _render_control(i, rec, c):
  import pyglove as pg          # pylint: disable=import-outside-toplevel
  from pgverif import htmldoc   # pylint: disable=import-outside-toplevel
  b = htmldoc.Builder(c, taint_class_name=False)
  d = htmldoc.control_desc(rec, b)
  ctl = htmldoc.construct_control(d)
  v = htmldoc.wrap_control(ctl, rec['wrap'])
  upd = rec.get('upd', 0)
  first = None
  if upd == 2:
    first = pg.to_html_str(v)                      # rendered once before it is updated
  if upd:
    htmldoc.update_control(ctl, d)
  before = htmldoc.snapshot(v)
  doc = pg.to_html_str(v)
  after = htmldoc.snapshot(v)
  stale = None
  if upd:
    # the control constructed directly with the fields the updated control now holds
    fresh = pg.to_html_str(htmldoc.wrap_control(htmldoc.construct_control(d['final']), rec['wrap']))
    if htmldoc.normalize_ids(fresh) != htmldoc.normalize_ids(doc):
      stale = {'after_update': htmldoc.normalize_ids(doc)[-1500:], 'constructed': htmldoc.normalize_ids(fresh)[-1500:]}
  evs, texts = htmldoc.events(doc, b.data)
  return dict(i=i, b=b, v=v, kw={}, excl=None, doc=doc, evs=evs, texts=texts, modified=before != after,
              shape=rec, opts={'control': rec['ctl'], 'upd': upd}, expect=htmldoc.expected_texts(d['final']),
              stale=stale, first_rendered=first is not None)


def _judge(chk, cases, r):
  """Turns TLC's verdicts on a batch into violations."""
  from pgverif import htmldoc   # pylint: disable=import-outside-toplevel
  rejected = {}
  for p in r.prints or []:
    if p and p[0] == 'REJECT':
      rejected[p[1]] = p[3]
  for cs in cases:
    i, b, evs = cs['i'], cs['b'], cs['evs']
    chk.traces += 1
    chk.evaluations += len(evs)
    chk.distinct_case((cs['shape'], sorted(cs['opts'].items()), b.cls_name))
    detail = {'history': cs.get('history', []), 'case': i, 'shape': cs['shape'], 'options': cs['opts'], 'class': b.cls_name, 'seed': chk.seed,
              'kwargs': {k: repr(v) for k, v in cs['kw'].items()}}
    if cs['modified']:
      chk.violation({'clause': 'mutation'}, dict(detail, what='the value was changed by rendering'))
    if cs['opts'].get('upd'):
      chk.count('control_documents_after_update_api')
      if cs.get('stale'):
        chk.violation({'clause': 'update_history', 'control': cs['shape']['ctl'], 'upd': cs['shape']['upd']},
                      dict(detail, what='the rendering after the update API differs from the rendering of a control '
                                        'constructed with the same fields', **cs['stale']))
    if cs.get('history'):
      chk.count('documents_rendered_after_a_failed_rendering')
      for f, e in zip(cs['history'], cs['fault_ends']):
        chk.count(f'fault:{f}:{"raised" if e != "completed" else "completed"}')
      if cs['history_differs']:
        chk.violation({'clause': 'history', 'after': '+'.join(sorted(set(cs['history'])))},
                      dict(detail, history=cs['history'], fault_ends=cs['fault_ends'],
                           what='the document differs from its rendering on a fresh thread'))
    if i in rejected:
      k = rejected[i]
      ev = evs[k]
      role = htmldoc.culprit_role(evs, k, b.roles, b.data, cs['doc'])
      chk.count('rejected_traces')
      sig = ({'clause': 'breakout', 'role': role} if role != 'none' else
             {'clause': 'wellformed', 'role': 'none', 'event': ev['k'], 'tag': ev['tag']})
      chk.violation(sig, dict(detail, rejected_at_event=k,
                              event={x: y for x, y in ev.items() if x != '_near'},
                              previous_events=[e.get('_src', '')[-80:] for e in evs[max(0, k - 3):k]],
                              data={s: b.data[s] for s in list(b.data)[:6]}))
      continue
    chk.count('accepted_traces')
    if b.cls_name != 'plain':
      chk.count('accepted_traces_with_metacharacters')
      chk.count('tainted_text_tokens_validated', sum(1 for e in evs if 'text_ok' in e['taint']))
    alltext = '\n'.join(cs['texts'])
    for t in cs.get('expect', ()):
      chk.count('presence_checks')
      if t not in alltext:
        chk.violation({'clause': 'presence', 'role': 'control', 'control': cs['shape']['ctl']},
                      dict(detail, missing=t))
    for s in ([] if 'expect' in cs else htmldoc.visible_sentinels(cs['v'], cs['excl'], b)):
      chk.count('presence_checks')
      if b.data[s] not in alltext:
        how = 'other'
        if (b.roles[s] == 'key' and htmldoc.KEY_VALUE_KIND.get(s) == 'str' and cs['opts']['key_style'] == 'summary'
            and not cs['opts']['enable_summary_for_str']):
          how = 'summary_style_key_of_str_value_with_summary_disabled'
        chk.violation({'clause': 'presence', 'role': b.roles[s], 'case': how},
                      dict(detail, missing=b.data[s]))
    if len(chk.samples) < 4 and b.cls_name != 'plain' and len(evs) > 40:
      chk.sample({'shape': cs['shape'], 'options': cs['opts'], 'class': b.cls_name, 'events': len(evs),
                  'tainted_text_tokens': sum(1 for e in evs if 'text_ok' in e['taint']),
                  'first_events': [[e['k'], e['tag']] for e in evs[:8]]})


def run(chk):
  from pgverif import htmldoc   # pylint: disable=import-outside-toplevel
  thorough = chk.tier == 'thorough'
  chk.rule = ('one trace = one rendered document (option combination, value shape, metacharacter class); evaluations '
              '= token events validated by TLC; distinct = distinct (shape, options, class); all traces carry user data')
  chk.assumptions += ['the strict tokenizer and the sentinel/intactness bookkeeping are trusted',
                      'cases are a deterministic sample of options x shapes x classes, not the full product',
                      'keys / names with path syntax characters are not generated']
  gen, rg = tlc.export_json('HtmlGen', 'C20_gen_thorough.cfg' if thorough else 'C20_gen_quick.cfg', timeout=600)
  chk.add_tlc(rg)
  opts, shapes = gen['options'], gen['shapes']
  _HIST[:] = [tuple(h) for h in sorted(gen['histories']) if h]
  chk.notes['universe'] = {'option_combinations': len(opts), 'shapes': len(shapes), 'classes': len(htmldoc.CLASSES)}
  n = 10000 if thorough else 3900
  batch = 1000
  seen_opts = set()
  for start in range(0, n, batch):
    cases = []
    for i in range(start, min(n, start + batch)):
      o, sh, c, tcn, plain, hist = _case(i, chk.seed, opts, shapes)
      seen_opts.add(json.dumps(o, sort_keys=True))
      try:
        cases.append(_render(i, o, sh, c, tcn, plain, hist))
      except Exception as e:   # pylint: disable=broad-except
        chk.violation({'clause': 'render_raises', 'error': type(e).__name__},
                      {'case': i, 'shape': sh, 'options': o, 'error': str(e)[:300]})
    traces = [{'id': cs['i'], 'ev': htmldoc.for_tlc(cs['evs'])} for cs in cases]
    r = tlc.check_with_json('HtmlDoc', 'C20_trace.cfg', traces, var='TRACE_FILE', ndjson=True, workers=1,
                            name=f'C20-trace-{start}', timeout=1800)
    chk.add_tlc(r)
    if not r.ok:
      raise tlc.TLCError(f'HtmlDoc trace validation failed: {r.violated}\n' + r.out[-2000:])
    _judge(chk, cases, r)
  chk.notes['option_combinations_used'] = len(seen_opts)
  # the shipped controls, every option combination, rendered on their own / inside a pg.Dict / in a plain list
  ctls = gen['controls']
  cases = []
  for j, rec in enumerate(ctls):
    try:
      cases.append(_render_control(100000 + j, rec, (j + chk.seed) % len(htmldoc.CLASSES)))
    except Exception as e:   # pylint: disable=broad-except
      chk.violation({'clause': 'render_raises', 'error': type(e).__name__, 'control': rec['ctl']},
                    {'control': rec, 'error': str(e)[:300]})
  traces = [{'id': cs['i'], 'ev': htmldoc.for_tlc(cs['evs'])} for cs in cases]
  r = tlc.check_with_json('HtmlDoc', 'C20_trace.cfg', traces, var='TRACE_FILE', ndjson=True, workers=1,
                          name='C20-trace-controls', timeout=1800)
  chk.add_tlc(r)
  if not r.ok:
    raise tlc.TLCError(f'HtmlDoc trace validation (controls) failed: {r.violated}\n' + r.out[-2000:])
  _judge(chk, cases, r)
  chk.count('control_documents', len(cases))
  chk.require(chk.counters.get('control_documents_after_update_api', 0) > 50, 'vacuous: no control update histories')
  chk.notes['controls'] = {'records': len(ctls), 'kinds': sorted({c['ctl'] for c in ctls})}
  chk.require(len(cases) == len(ctls) or chk.violations or chk.known_hits, 'controls could not be rendered')
  # self-test of the automaton + tokenizer: hand-made bad documents must be rejected, a good one accepted
  bad = {
      'unclosed': '<html><body><div></body></html>',
      'stray_lt': '<html><body>a < b</body></html>',
      'bare_amp': '<html><body>a & b</body></html>',
      'p_div': '<html><body><p><div></div></p></body></html>',
      'tr_outside': '<html><body><tr></tr></body></html>',
      'text_in_table': '<html><body><table>x<tr><td></td></tr></table></body></html>',
      'dup_attr': '<html><body><div class="a" class="b"></div></body></html>',
      'void_close': '<html><body><br></br></body></html>',
      'selfclose': '<html><body><div/></body></html>',
      'two_roots': '<html></html><html></html>',
      'good': '<html><head><style>a<b</style></head><body><details open><summary>x &amp; y</summary>'
              '<table><tr><td class="k">1</td></tr></table><br></details></body></html>',
  }
  traces = [{'id': k, 'ev': htmldoc.for_tlc(htmldoc.events(d, {})[0])} for k, d in bad.items()]
  r = tlc.check_with_json('HtmlDoc', 'C20_trace.cfg', traces, var='TRACE_FILE', ndjson=True, workers=1,
                          name='C20-selftest', timeout=300)
  chk.add_tlc(r, count_states=False)
  rej = {p[1] for p in (r.prints or []) if p and p[0] == 'REJECT'}
  chk.require(rej == set(bad) - {'good'}, f'automaton self-test: rejected {sorted(rej)}')
  chk.require(chk.counters.get('accepted_traces', 0) > 50, 'vacuous: almost no accepted trace')
  chk.require(chk.counters.get('presence_checks', 0) > 100, 'vacuous: no presence checks')
  chk.require(chk.counters.get('documents_rendered_after_a_failed_rendering', 0) > 100, 'vacuous: no histories')
  for f in ('fail_repr', 'fail_view_id', 'fail_in_scope', 'fail_extension'):
    chk.require(chk.counters.get(f'fault:{f}:raised', 0) > 0, f'vacuous: fault {f} never raised')
  chk.require(chk.counters.get('accepted_traces_with_metacharacters', 0) > 100,
              'vacuous: hardly any document with metacharacters was validated to its end')
  chk.require(chk.counters.get('tainted_text_tokens_validated', 0) > 500, 'vacuous: no tainted text validated')


def replay(chk, path):
  from pgverif import htmldoc   # pylint: disable=import-outside-toplevel
  data = json.loads(open(path).read())
  d = data['detail']
  c = [n for n, _ in htmldoc.CLASSES].index(d['class'])
  if isinstance(d['shape'], dict):        # a control record
    cs = _render_control(d['case'], d['shape'], c)
  else:
    cs = _render(d['case'], d['options'], d['shape'], c, _TCN[(d['case'] // 2) % 4], _PLAIN[(d['case'] // 2) % 4],
                 tuple(d.get('history', ())))
  traces = [{'id': cs['i'], 'ev': htmldoc.for_tlc(cs['evs'])}]
  r = tlc.check_with_json('HtmlDoc', 'C20_trace.cfg', traces, var='TRACE_FILE', ndjson=True, workers=1,
                          name='C20-replay', timeout=300)
  chk.add_tlc(r)
  _judge(chk, [cs], r)
  chk.sample({'replayed': path, 'events': len(cs['evs'])})
