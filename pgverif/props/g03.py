"""G03 (spec growth) - trial / feedback life cycle of pg.sample with the in-memory backend, one sequential worker."""
import time
from concurrent.futures import ThreadPoolExecutor

from pgverif import tlc, triallife

META = {
    'level': 'model_checking',
    'technique': 'TLA+ spec TrialLife.tla (one worker driving next / add_measurement / done / skip / skip_on_exceptions / '
                 'ignore_race_condition / set_metadata / get_metadata / add_link / should_stop_early / end_loop / a second '
                 'pg.sample on the same name, with a sweeping algorithm, a budget, an early stopping policy and optional '
                 'controller-side rewards) checked exhaustively with TLC: 12 invariants (dense ids, one pending trial, final '
                 'measurement shape, best trial = first argmax over feasible completed trials, algorithm fed exactly the done '
                 'trials, counters) and 15 action properties (append-only measurements, COMPLETED is frozen, end_loop is final, '
                 'failed calls change nothing, metadata read-your-writes and isolation, best only improves ...); six negative '
                 'controls (as-coded or plausible-wrong rules) must be refuted by TLC; S->C replay of TLC-simulated behaviours '
                 'and of transition tours that cover every transition of two small models on the real pg.sample generator, '
                 'comparing after every call its outcome and the full projection of pg.poll_result and of the algorithm',
    'level_text': 'The protocol of pyglove/core/tuning as one worker sees it is an explicit state machine in TrialLife.tla; TLC '
                  'enumerates every call sequence within the bounds (<= 3 trials, <= 2 measurements, rewards {-0.5, 0, 1}) and '
                  'checks the invariants and action properties on it.  The same machine then serves as the oracle of a replay: '
                  'every call of a TLC behaviour is made on a real generator / feedback object of a fresh study and the outcome '
                  '(value, StopIteration, exception class) and the whole observable state (trials, status, measurements, final '
                  'measurement, infeasible, metadata, links, study metadata, is_active, best trial, summary counters, proposals '
                  'and feedback seen by the algorithm) are compared with the TLC state after every step.',
    'level_note': 'Bounded: exhaustive for <= 3 trials / <= 2 measurements (3 rewards) and smaller bounds with steps, metrics, '
                  'metadata, links, controller rewards; 4-6 trials / 3 measurements by simulation with sampled arguments.  One '
                  'worker, one group, single objective, pg.geno.Sweeping (subclassed only to log feedback and attach controller '
                  'rewards), in-memory backend.  Non-decreasing steps only (the two documented final-measurement rules agree '
                  'there); set_metadata / add_link / should_stop_early on a COMPLETED trial, the exception raised by done()/skip() '
                  'on a COMPLETED trial, metrics None vs {} and the timestamp fields are don\'t-cares.  Trusted: TLC, the TLA+ '
                  'value parser, the driver\'s projection and int -> float concretisation.',
    'design_ref': 'DESIGN.md §6 (specification growth: pg.tuning trial life cycle)',
}

# cfg -> the property TLC must refute (negative controls: the laws have teeth)
EXPECTED_REFUTATIONS = {
    'G03_neg_links.cfg': 'DoneRecordsExtras',     # as coded: done(related_links=...) discards the links  (finding G03-F1)
    'G03_neg_final.cfg': 'FinalIsLargestStep',    # as coded rule "last" vs the docstring rule when steps decrease (don't-care zone)
    'G03_neg_maxstep.cfg': 'FinalShape',          # the docstring rule "largest step" vs "last" when steps decrease
    'G03_neg_best_tie.cfg': 'BestIsArgmax',       # plausible-wrong: incumbent replaced on an equal reward
    'G03_neg_best_skip.cfg': 'BestIsArgmax',      # plausible-wrong: a skipped trial competes with its placeholder reward 0
    'G03_neg_refeed.cfg': 'FedIsHistory',         # plausible-wrong: done() on a COMPLETED trial feeds the algorithm again
}
# counter-examples that are executed on the real code against the INTENDED rules (the code must not have the wrong rule)
REPLAY_COUNTEREXAMPLES = ['G03_neg_links.cfg', 'G03_neg_best_tie.cfg', 'G03_neg_best_skip.cfg', 'G03_neg_refeed.cfg']

QUICK_MODELS = [['G03_core.cfg', 'G03_meas2.cfg', 'G03_space.cfg', 'G03_steps.cfg', 'G03_neg_links.cfg', 'G03_neg_final.cfg',
                 'G03_neg_maxstep.cfg'],
                ['G03_meta.cfg', 'G03_acc.cfg', 'G03_ctrl.cfg', 'G03_ctrl2.cfg', 'G03_neg_best_tie.cfg', 'G03_neg_best_skip.cfg',
                 'G03_neg_refeed.cfg']]
THOROUGH_MODELS = [['G03_core_big.cfg', 'G03_steps_big.cfg'], ['G03_meta_big.cfg', 'G03_all3.cfg']]


def _model_runs(cfgs, workers):
  res = {}
  for cfg in cfgs:
    res[cfg] = tlc.run(triallife.SPEC, cfg, timeout=3000, workers=workers, allow_violation=cfg in EXPECTED_REFUTATIONS)
  return res


def run(chk):
  thorough = chk.tier == 'thorough'
  chk.rule = ('behaviours = TLC simulation walks of TrialLife.tla (arguments sampled by RandomSubset) + transition tours that '
              'cover every (state, call) pair of G03_dump.cfg / G03_dump_ctrl.cfg + counter-examples of the negative controls; '
              'evaluations = calls executed on the real generator / feedback objects, each followed by a full comparison of '
              'pg.poll_result and the algorithm with the TLC state; distinct = distinct call sequences')
  chk.assumptions += ['one worker, one group, in-memory backend, single objective', 'steps never decrease within a trial',
                      'the early stopping policy and the controller rewards are fixtures mirrored from the spec '
                      '(PolicyStop, CtrlReward)', 'rewards are k/2 for small ints k']
  groups = [list(g) for g in QUICK_MODELS]
  if thorough:
    for g, extra in zip(groups, THOROUGH_MODELS):
      g += extra
  w = max(2, tlc.DEFAULT_WORKERS // 2)
  hits = {}
  with ThreadPoolExecutor(max_workers=2) as ex:
    futs = [ex.submit(_model_runs, g, w) for g in groups]
    # ---- S->C: one implementation test per transition of two small models
    tours = {}
    t0 = time.time()
    for cfg in ('G03_dump.cfg', 'G03_dump_ctrl.cfg'):
      tours[cfg] = triallife.replay_transitions(chk, cfg, hits, chk.seed)
    chk.notes['transition_tours'] = tours
    chk.notes['wall_tours_s'] = round(time.time() - t0, 1)
    t0 = time.time()
    # ---- S->C: simulated behaviours
    plan = ([('G03_sim.cfg', 150, 40, 1), ('G03_sim_ctrl.cfg', 60, 40, 1), ('G03_sim_acc.cfg', 60, 40, 1)] if not thorough else
            [('G03_sim.cfg', 1800, 60, 4), ('G03_sim_ctrl.cfg', 600, 60, 2), ('G03_sim_acc.cfg', 600, 60, 2)])
    for cfg, num, depth, batches in plan:
      triallife.replay_simulated(chk, cfg, num, depth, chk.seed, hits, batches=batches)
    chk.notes['wall_simulated_s'] = round(time.time() - t0, 1)
    results = {}
    for f in futs:
      results.update(f.result())

  # ---- the model: the intended rules satisfy every law, every negative control is refuted
  for cfg, r in results.items():
    chk.add_tlc(r)
    chk.notes.setdefault('tlc_runs', []).append(dict(r.summary(), cfg=cfg))
    want = EXPECTED_REFUTATIONS.get(cfg)
    if want is None:
      if not r.ok:
        raise tlc.TLCError(f'{cfg}: {r.violated} violated in the model:\n' + r.out[-3000:])
      chk.require(r.distinct > 100, f'{cfg}: suspiciously small state space ({r.distinct})')
    else:
      chk.require(not r.ok and r.violated == want,
                  f'vacuous: negative control {cfg} should be refuted on {want}, TLC says ok={r.ok} violated={r.violated}')
      chk.count('negative_controls_refuted')
  chk.exhaustive = False

  # ---- the counter-examples TLC found for the wrong rules are executed on the real code under the intended rules
  ce = {}
  for cfg in REPLAY_COUNTEREXAMPLES:
    hist = triallife.counterexample_history(results[cfg])
    chk.require(len(hist) > 1, f'cannot read the counter-example of {cfg}')
    ce[cfg] = {'history': hist, 'diverged_on_code': triallife.replay_history(chk, cfg, hist, 'g03-ce-' + cfg[4:-4], hits)}
  chk.notes['negative_control_counterexamples'] = ce

  chk.notes['replay_hits'] = dict(sorted(hits.items()))
  need = ['Next', 'Reopen', 'AddMeas', 'Done', 'Call', 'Skip', 'SkipOnExc', 'SetMeta', 'GetMeta', 'AddLink', 'StopEarly', 'EndLoop',
          'out:ok', 'out:noop', 'out:stop', 'out:yield', 'out:val', 'out:quiet', 'out:ValueError', 'out:RaceConditionError',
          'next:new', 'next:same_pending', 'next:controller_evaluated', 'stop:end_loop', 'stop:budget_or_space',
          'stop:exhausted_generator', 'Done:on_completed', 'Skip:on_completed', 'AddMeas:on_completed', 'Done:after_end_loop',
          'best:changed', 'best:kept', 'best:tie_kept', 'skip:with_measurements', 'skip:without_measurements',
          'stop_early:0', 'stop_early:1', 'get_meta:absent', 'get_meta:value', 'done:with_links', 'done:with_metadata',
          'done:several_measurements', 'race:ignored', 'summary_parsed']
  for k in need:
    chk.require(hits.get(k, 0) > 0, f'vacuous: no replayed step exercised {k}')
  for cfg, t in tours.items():
    chk.require(t['steps_executed'] >= t['selected'] or bool(chk.violations) or bool(chk.known_hits),
                f'{cfg}: only {t["steps_executed"]} steps executed for {t["selected"]} transitions')


def replay(chk, path):
  triallife.replay_file(chk, path)
