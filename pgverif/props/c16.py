"""C16 - concurrent sampling with the in-memory backend hands out each trial once and loses no feedback."""
from pgverif import sampling_check

META = {
    'level': 'model_checking',
    'technique': 'TLA+ spec Sampling.tla (workers as processes; one action per linearisation point of '
                 'local_backend.py / sample.py / dna_generator.py / evolution/base.py) model-checked exhaustively '
                 'with TLC (16 invariants, 3 action properties, termination under weak fairness; as-coded variants '
                 'exhibit the races as counter-examples); bound to the code by (S->C) forcing TLC behaviours and '
                 'counter-examples onto real threads with a deterministic scheduler incl. negative probes at '
                 'lock-disabled states, and (C->S) TLC validation (SamplingTrace.tla) of hook-level and line-level '
                 'scheduled executions, every invariant evaluated at every event, final state compared with '
                 'pg.poll_result and the algorithm counters',
    'level_text': 'The sampling loop, the study lock, the algorithm lock, the named-study registry and the '
                  'per-group pending trial are explicit state in Sampling.tla; TLC enumerates every interleaving of '
                  '2-3 workers (bounded trials, all group assignments and user-step mixes, with/without feedback) '
                  'and checks ids 1..N, one group per trial, feedback exactly once, consistent counters/best at '
                  'quiescence and termination.  The real threads are driven one linearisation point at a time: TLC '
                  'behaviours are forced onto them (a worker the spec says is waiting for a lock must produce no '
                  'event), and every recorded execution - random, PCT, round-robin schedules at hook and at '
                  'statement granularity - must be a behaviour of the spec with equal logged values.',
    'level_note': 'Exhaustive for <= 3 workers and <= 3 trials; larger crews (4-8) are simulated/scheduled, schedules '
                  'sampled.  Trusted: TLC, the add-only hooks (guard PYGLOVE_VERIF=1) placed right after each '
                  'linearising statement, the scheduler (one Python line = one atomic step).  The check exits 2 on a '
                  'tree without the hooks.',
}


def run(chk):
  sampling_check.run(chk)


def replay(chk, path):
  sampling_check.replay(chk, path)
