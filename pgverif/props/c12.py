"""C12 - DNA views are lossless and stay aligned with the specification."""
import json

from pgverif import geno, geno_views, tlc

META = {
    'level': 'model_checking',
    'technique': 'TLA+ spec GenoViews.tla (extends Geno.tla): decision ids, decision points in declaration order, the '
                 'intended binding of every DNA node (ATree), lookups (LookupRef) and the DnaOps transition system '
                 '(fresh / lookup / clone / in-place mutation / swap, with the lazily built lookup table as state) whose '
                 'invariants OpsAligned, OpsLookup, MemoFresh TLC checks exhaustively (intended semantics holds; the as-coded '
                 'Swap and a clone that inherits the lookup table yield counter-examples); then TLC (GenoViewsLaws.tla) evaluates on observations '
                 'of the real code: round trips of every view under every option tuple, lookups by decision point / id / '
                 'name against LookupRef, alignment of every node after every step of random chains of library '
                 'operations (trace validation against DnaOps), equality of the views with those of the rebuilt DNA',
    'level_text': 'Which decision point owns which DNA node is an explicit TLA+ function of the specification and the raw '
                  'numbers (ATree); TLC proves that the modelled library operations preserve it and exhibits the sibling '
                  'swap that does not. The real pg.DNA objects are bound to the model by projection (value, bound spec '
                  'id, sub-choice index, identity of the spec node): for every spec of a universe with names, literal '
                  'values, floats, custom points and conditional multi-choices, every exported view is rebuilt under all '
                  '90 to_dict option tuples, both number forms and three JSON forms, lookups are compared with the '
                  'model, and chains of iter/random/parse/clone/mutate/recombine operations are validated step by step.',
    'level_note': 'Bounded: ~100 (quick) / ~700 (thorough) specs, <= 3 (6) DNAs per spec, chains of <= 3 (4) operations; '
                  'a name shared by several decision points and literal values that look like "i/n" are outside the '
                  'compared domain; chains run on enumerable spaces only; after the first failing step a chain is cut.',
}

QUICK = dict(export='C12_export_quick.cfg', full_dicts=1, sample_dicts=10, chains=6, chain_len=3, law_chunks=6)
THOROUGH = dict(export='C12_export_thorough.cfg', full_dicts=1, sample_dicts=16, chains=10, chain_len=4, law_chunks=12)


def _sig(f):
  return {'law': f['law'], 'op': f['op']}


def evaluate(chk, entries, cfg, name):
  with geno.phase(chk, 'observe_real_code'):
    obs = geno.observe_parallel('pgverif.geno_views:observe_c12', entries, chk.seed, cfg,
                              weight=lambda e: 1 + len(e['trees']) + (cfg['chains'] if e['size'] != -1 else 0))
  with geno.phase(chk, 'tlc_laws'):
    fails, results = geno.laws_parallel('GenoViewsLaws', 'C12_laws.cfg', obs, cfg['law_chunks'], name,
                                      weight=lambda o: 1 + len(o['dnas']) * 5 + len(o['chains']))
  for r in results:
    chk.add_tlc(r, count_states=False)
  seen = {}
  for f in fails:
    o = obs[f['i']]
    sig = _sig(f)
    key = json.dumps(sig, sort_keys=True)
    chk.count('law_failure:' + sig['law'] + '/' + sig['op'])
    if key in seen:
      seen[key]['occurrences'] += 1
      continue
    w = f['w']
    detail = {'spec': geno.spec_str(o['spec']), 'spec_json': o['spec'], 'entry_index': o.get('index'),
              'witness': w, 'occurrences': 1}
    if f['law'] in ('aligned', 'result_not_valid', 'views_differ_from_rebuilt', 'op_result', 'input_modified') \
        and isinstance(w, list) and len(w) == 3 and isinstance(w[0], list) and w[0] and isinstance(w[0][0], str):
      detail['ops'] = w[0]
      detail['input'] = geno.tree_str(w[1])
      detail['result'] = geno.tree_str(geno_views.plain(w[2]))
    seen[key] = detail
  for key, detail in seen.items():
    chk.violation(json.loads(key), detail)
  return obs, fails


def account(chk, obs):
  for o in obs:
    s = geno.spec_str(o['spec'])
    for x in o['dnas']:
      t = geno.tree_str(x['tree'])
      chk.evaluations += len(x['rts']) + len(x['anns']) + 3 * len(x['lookups']) + len(x['multis']) + len(x['names'])
      chk.count('roundtrips', len(x['rts']))
      chk.count('roundtrips_dict', sum(1 for r in x['rts'] if r[0].startswith('dict:')))
      chk.count('bindings_compared', len(x['anns']))
      chk.count('lookups', 3 * len(x['lookups']))
      chk.count('lookups_inactive', sum(1 for l in x['lookups'] if l[0][0] == 'x'))
      chk.count('lookups_multi', len(x['multis']))
      chk.count('lookups_by_name', len(x['names']))
      for r in x['rts']:
        chk.distinct_case((s, t, r[0]))
    for ch in o['chains']:
      chk.traces += 1
      chk.evaluations += len(ch['steps'])
      chk.distinct_case((s, [st[0] for st in ch['steps']], ch['start']))
      for st in ch['steps']:
        chk.count('op:' + st[0])
        chk.count('lookups_after_operation', 3 * len(st[6]['lookups']) + len(st[6]['multis']) + len(st[6]['names']))
        if geno_views.plain(st[2]) != st[1]:
          chk.count('op_changed_dna:' + st[0])


def run(chk):
  cfg = THOROUGH if chk.tier == 'thorough' else QUICK
  chk.rule = ('cases = (spec, DNA, view) round trips [every to_dict option tuple: 3 key types x 5 value types x 3 '
              'multi-choice modes x inactive on/off; flat / nested numbers; compact, verbose and untyped JSON; clone, '
              'deep clone, deepcopy], lookups per decision point, and chains of library operations drawn (seeded) from '
              'next, clone, from_numbers, parse, from_dict, from_json, random, mutators.Uniform/Swap, recombinators '
              'Uniform/KPoint/PartiallyMapped/Order/Cycle; distinct = distinct (spec, DNA, view) and (spec, start, op '
              'sequence) tuples')
  chk.assumptions += [
      'a name carried by several decision points (named point inside a multi-choice candidate) is not looked up by name',
      'literal values that parse as "i/n" are not generated',
      'float decisions are multiples of 0.1']
  # 1./2. TLC: DnaOps keeps every handed-out DNA aligned (intended); the as-coded sibling swap does not; export of
  # the universe -- independent runs, started together
  with geno.phase(chk, 'tlc_model_and_export'):
    res = geno.tlc_jobs({
        'intended': lambda: tlc.run('GenoViews', 'C12_ops.cfg', timeout=900, workers=4),
        'ascoded': lambda: tlc.run('GenoViews', 'C12_ops_ascoded.cfg', timeout=900, workers=4, allow_violation=True),
        'sharememo': lambda: tlc.run('GenoViews', 'C12_ops_sharememo.cfg', timeout=900, workers=4,
                                     allow_violation=True),
        'export': lambda: tlc.export_json('GenoViewsExport', cfg['export'], env={'SALT': str(chk.seed)}, timeout=900),
    })
  r = res['intended']
  chk.add_tlc(r)
  chk.notes['model_intended'] = r.summary()
  if not r.ok:
    raise tlc.TLCError(f'C12_ops.cfg: {r.violated} violated in the intended model:\n' + r.out[-3000:])
  chk.require(r.distinct > 100, f'vacuous: DnaOps explored only {r.distinct} states')
  r2 = res['ascoded']
  chk.add_tlc(r2, count_states=False)
  chk.notes['model_as_coded'] = dict(r2.summary(), note='Mirror = TRUE: Swap exchanges children without re-binding (the '
                                     'code before fix 0a65530); TLC is expected to violate OpsAligned (design-level '
                                     'counter-example; the chains below run the real mutators.Swap)')
  chk.require((not r2.ok) and r2.violated == 'OpsAligned',
              'the as-coded Swap model no longer violates OpsAligned: the model lost its sensitivity')
  r4 = res['sharememo']
  chk.add_tlc(r4, count_states=False)
  chk.notes['model_shared_lookup_tables'] = dict(r4.summary(), note='ShareMemo = TRUE: a clone inherits the lazily built '
                                                 'lookup tables; TLC is expected to violate MemoFresh (lookup, clone + '
                                                 'in-place mutation, stale table)')
  chk.require((not r4.ok) and r4.violated == 'MemoFresh',
              'the ShareMemo model no longer violates MemoFresh: the model lost its sensitivity')
  entries, r3 = res['export']
  chk.add_tlc(r3, count_states=False)
  chk.require(len(entries) >= 60, f'vacuous: only {len(entries)} specs exported')
  # 3. observe + laws
  obs, fails = evaluate(chk, entries, cfg, 'c12')
  account(chk, obs)
  chk.notes['specs'] = len(obs)
  for o in obs:
    if o['chains'] and len(chk.samples) < 3:
      ch = o['chains'][0]
      chk.sample({'spec': geno.spec_str(o['spec']), 'chain_start': geno.tree_str(ch['start']),
                  'steps(op, result)': [[st[0], geno.tree_str(geno_views.plain(st[2]))] for st in ch['steps']]})
  for o in obs:
    if o['dnas'] and len(chk.samples) < 6:
      x = o['dnas'][0]
      chk.sample({'spec': geno.spec_str(o['spec']), 'dna': geno.tree_str(x['tree']),
                  'round_trips(view, rebuilt, equal)': [[r[0], geno.tree_str(r[1]), r[2]] for r in x['rts'][:14]],
                  'lookups(d[dp], d[id], d[str id])': [[geno.tree_str(t) for t in row] for row in x['lookups'][:6]]})
  # vacuity guards
  c = chk.counters
  for need in ['roundtrips_dict', 'bindings_compared', 'lookups', 'lookups_inactive', 'lookups_multi', 'lookups_by_name',
               'lookups_after_operation'] + \
      ['op:' + op for op in geno_views.OPS] + \
      ['op_changed_dna:' + op for op in ('next', 'random', 'uniform', 'swap', 'rc_uniform', 'kpoint')]:
    chk.require(c.get(need, 0) > 0, f'vacuous: counter {need} is zero')
  chk.require(c.get('roundtrips_dict', 0) >= 90 * len([o for o in obs if o['dnas']]) * cfg['full_dicts'] // 2,
              'vacuous: the full to_dict option matrix was not exercised')


def replay(chk, path):
  v = json.load(open(path))
  d = v['detail']
  cfg = THOROUGH if v.get('tier') == 'thorough' else QUICK
  entries, r3 = tlc.export_json('GenoViewsExport', cfg['export'], env={'SALT': str(v.get('seed', 0))}, timeout=900)
  chk.add_tlc(r3, count_states=False)
  chk.seed = v.get('seed', 0)
  sel = [e for e in entries if e['spec'] == d['spec_json']]
  chk.require(len(sel) == 1, 'replay: spec not found in the exported universe')
  obs, fails = evaluate(chk, sel, dict(cfg, law_chunks=1), 'c12-replay')
  account(chk, obs)
  chk.sample({'replayed': d['spec'], 'failures': [[f['law'], f['op']] for f in fails]})
  chk.states = max(chk.states, 1)
  chk.transitions = max(chk.transitions, 1)
