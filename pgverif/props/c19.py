"""C19 - permission-gated code execution never runs a forbidden construct."""
from __future__ import annotations

import concurrent.futures as cf
import json
import multiprocessing as mp
import os
import warnings

from pgverif import tlc

META = {
    'level': 'model_checking',
    'technique': 'TLA+ spec Perm.tla (AST skeletons = chains of node kinds over syntactic positions; MUST / MAY '
                 'permission table; Verdict; the evaluate mechanism - outermost-wins scopes, validate every node, then '
                 'execute - as a state machine) model-checked with TLC (NoForbiddenRuns, Narrowing, ValidateBeforeRun, '
                 'OutcomeInVerdict, ...) + TLC-exported verdict table (every chain x all 256 permission subsets) replayed '
                 'S->C through pg.coding.evaluate/run with a sentinel recorder and compared with plain exec',
    'level_text': 'Perm.tla fixes, per node class of the Python grammar, the permission the property demands and the '
                  'positions in which a construct can hide inside another (body, decorator, default, annotation, '
                  'base, comprehension element, f-string, lambda body, handler ...). TLC checks on the mechanism '
                  'model that nothing of a program with a forbidden construct ever runs and that inner scopes never '
                  'widen the outermost one, proves the verdict laws (monotone, ALL allows everything, each forbidden '
                  'kind is refused in every position) and exports the verdict of every skeleton of <= 2 nodes (and a '
                  'sample of 3-node ones) for all 256 permission subsets. Each skeleton is rendered to source whose '
                  'leaves are sentinel subscripts, run under the permission (argument, scope, nested scopes) and '
                  'compared: REJECT => CodeError and empty sentinel log; ALLOW => log, result, stdout, intermediates '
                  'and error (cause class, line) equal to plain execution.',
    'level_note': 'Bounded: chains of <= 3 nodes (one child per node), 54 node kinds x 100+ slots; ambiguous kinds '
                  '(IfExp, BoolOp, comprehensions, With, Delete, Return/Yield/Await, Global, bare decorators, '
                  'TypeAlias) accept either verdict unless all their MAY flags are granted. Trusted: TLC, the '
                  'templates of pgverif/perm.py (checked against the ast module and against the exported kind table '
                  'on every run), CPython as the reference executor. evaluate(permission=...) given explicitly inside '
                  'a permission() scope is not generated (documented ambiguity).',
}

_DATA = {}


def _bits(mask):
  return [b for b in (1, 2, 4, 8, 16, 32, 64, 128) if mask & b]


def _work(args):
  """(chain, src, row, tasks) -> list of (mask, mode, api, divergence|None), counters."""
  from pgverif import perm   # pylint: disable=import-outside-toplevel
  warnings.simplefilter('ignore')
  out = []
  for chain, src, row, tasks, extras in args:
    ref = perm.plain_run(src)
    res = []
    for mask, mode, api in tasks:
      if mode.startswith('arg_in_scope:'):
        # the permission in force = scope combined with the argument, as exported by TLC (CombineTab)
        code = row[_DATA['combine'][mask][int(mode.split(':')[1])]]
      else:
        code = row[255] if mode == 'outer_all' else row[mask]
      got = perm.pg_run(src, mask, mode, api)
      d = perm.compare(ref, got, code)
      if d is None and mode != 'param' and not mode.startswith('arg_in_scope:'):
        want_eff = 255 if mode == 'outer_all' else mask
        if got.get('effective') != want_eff:
          d = ('narrowing', 'effective permission inside nested scopes', want_eff, got.get('effective'))
      res.append((mask, mode, api, code, got['outcome'], d))
    ex = None
    if extras:
      ex = perm.other_modes_agree(src, 255)
    out.append((chain, src, ref['error'], res, ex))
  return out


def _masks_of(row):
  """Interesting permission sets of a chain, derived from TLC's verdict row: everything, BASIC, nothing,
  exactly the MUST flags, MUST+MAY flags, and everything but one needed flag."""
  must = 255
  mustmay = 255
  for m in range(256):
    if row[m] != 1:
      must &= m
    if row[m] == 0:
      mustmay &= m
  ms = {255, 9, 0, must, mustmay}
  for b in _bits(mustmay):
    ms.add(255 ^ b)
  return sorted(ms), must, mustmay


def _tasks(chain, row, all_masks: bool):
  masks, must, mustmay = _masks_of(row)
  tasks = []
  for m in (range(256) if all_masks else masks):
    tasks.append((m, 'param', 'evaluate'))
  needed = _bits(mustmay)
  scoped = {mustmay, must} | ({255 ^ needed[0]} if needed else set()) | {0}
  for m in sorted(scoped):
    for mode in ('scope', 'nested_all', 'nested_none', 'outer_all'):
      tasks.append((m, mode, 'evaluate'))
  # an explicit permission argument Q inside an open scope P: Q = ALL, nothing, P itself, a proper subset
  # of P, a set that is not a subset of P
  for pm in sorted({mustmay, 255} | ({255 ^ needed[0]} if needed else set())):
    sub = pm & ~_bits(pm)[0] if pm else 0
    qs = {255, 0, pm, sub, (255 ^ pm) | must}
    for q in sorted(qs):
      tasks.append((pm, f'arg_in_scope:{q}', 'evaluate'))
    tasks.append((pm, f'arg_in_scope:{(255 ^ pm) | must}', 'run'))
  tasks.append((255, 'param', 'run'))
  if needed:
    tasks.append((255 ^ needed[-1], 'param', 'run'))
  return tasks


def _kinds_of(chain):
  return chain[1:] if chain[0].startswith('#') else chain[0::2]


def _work_hist(args):
  """Scope histories: (chain, src, row, mask, histories) -> divergences."""
  from pgverif import perm   # pylint: disable=import-outside-toplevel
  warnings.simplefilter('ignore')
  out = []
  for chain, src, row, mask, hists in args:
    ref = perm.plain_run(src)
    res = []
    for h, eff in hists:
      want_mask = {0: None, 1: mask, 2: 255, 3: 0}[eff]
      code = 0 if want_mask is None else row[want_mask]
      got = perm.run_history(src, mask, h)
      d = perm.compare(ref, got, code)
      if d is None and got.get('effective') != want_mask:
        d = ('narrowing', 'get_permission() after the history', want_mask, got.get('effective'))
      res.append((h, eff, code, got['outcome'], d))
    out.append((chain, src, mask, res))
  return out


def _signature(kinds_tab, chain, mask, mode, d, src=None):
  clause, what = d[0], d[1]
  sig = {'clause': clause, 'mode': 'param' if mode == 'param' else 'arg_in_scope' if mode.startswith('arg_in_scope') else 'scoped'}
  if clause == 'containment':
    eff = mask
    if mode.startswith('arg_in_scope:'):
      q = int(mode.split(':')[1])
      eff = _DATA['combine'][mask][q]
      sig['argument_wider_than_scope'] = bool(q & ~mask)
    missing = sorted({k for k in _kinds_of(chain)
                      if kinds_tab[k]['must'] != 'none' and not (eff & _FLAG_BIT[kinds_tab[k]['must']])})
    sig['kind'] = '+'.join(missing)
    sig['empty_permission_argument'] = (mode == 'param' and mask == 0)
  else:
    sig['kind'] = chain[0]
    sig['what'] = what
    if chain[0] == 'Assign' and src:
      # the target shapes of the final assignment, e.g. Name, Name+Name (chained), Subscript, Name+Attribute
      import ast   # pylint: disable=import-outside-toplevel
      last = ast.parse(src).body[-1]
      if isinstance(last, ast.Assign):
        sig['last_targets'] = '+'.join(type(t).__name__ for t in last.targets)
  return sig


_FLAG_BIT = {'ASSIGN': 1, 'CONDITION': 2, 'LOOP': 4, 'CALL': 8, 'EXCEPTION': 16, 'CLASS_DEFINITION': 32,
             'FUNCTION_DEFINITION': 64, 'IMPORT': 128}


def run(chk):
  from pgverif import perm   # pylint: disable=import-outside-toplevel
  warnings.simplefilter('ignore')
  thorough = chk.tier == 'thorough'
  tag = 'thorough' if thorough else 'quick'
  chk.rule = ('cases = (skeleton chain, permission mask, how the permission is given: argument / scope / nested '
              'scopes, API) with the verdict exported by TLC; distinct = distinct (chain, mask, mode); non-trivial = '
              'chains of >= 2 nodes or masks other than ALL')
  chk.assumptions += [
      'one child per node (chains); bodies of defined functions are compiled, not called',
      'ambiguous kinds accept either verdict unless all their MAY flags are granted',
      'a text that does not compile must give CodeError(SyntaxError); whether earlier statements ran is not compared',
      'position of a run-time error = any line of the traceback inside the evaluated text',
  ]
  # 1. the mechanism model
  with cf.ThreadPoolExecutor(max_workers=2) as ex:
    fm = ex.submit(tlc.run, 'Perm', f'C19_model_{tag}.cfg', timeout=2400, workers=max(2, tlc.DEFAULT_WORKERS - 2))
    fe = ex.submit(tlc.export_json, 'PermExport', f'C19_export_{tag}.cfg', timeout=2400,
                   env={'SAMPLE_OFFSET': str(chk.seed)})
    r = fm.result()
    data, re_ = fe.result()
  chk.add_tlc(r)
  chk.notes['model_run'] = r.summary()
  if not r.ok:
    raise tlc.TLCError(f'Perm model: {r.violated} violated:\n' + r.out[-3000:])
  chk.require(r.distinct > 1000, 'Perm model: suspiciously small state space')
  chk.add_tlc(re_, count_states=False)
  chk.notes['export_run'] = re_.summary()
  chk.exhaustive = True

  # 2. machinery: my tables against the interpreter and the spec
  kinds_tab = {k['kind']: k for k in data['kinds']}
  _DATA['combine'] = data['combine']
  names, problems = perm.interpreter_kinds()
  chk.require(not problems, f'ast module has unknown base classes: {problems}')
  chk.require(names <= set(kinds_tab), f'node classes of this interpreter missing in Perm.tla: {sorted(names - set(kinds_tab))}')
  chk.require(set(kinds_tab) <= names, f'Perm.tla kinds unknown to this interpreter: {sorted(set(kinds_tab) - names)}')
  chk.require(set(data['stmt_slots']) == perm.STMT_SLOTS, 'statement slots differ between spec and templates')
  chk.require(set(data['store_slots']) == perm.STORE_SLOTS, 'store slots differ between spec and templates')
  gated = {k for k, rec in kinds_tab.items() if rec['must'] != 'none' or rec['amb']}
  generated_kinds = set()
  used_slots = set()
  items = []
  for rec in data['full'] + data['deeper']:
    chain = rec['c']
    src = perm.render(chain)
    present = perm.ast_kinds(src)       # raises SyntaxError if a template is wrong -> machinery failure
    nodes = set(chain[0::2])
    chk.require(nodes <= present and not ((present & gated) - nodes),
                f'template/spec mismatch for {chain}: {src!r} has {sorted(present & gated)}')
    generated_kinds |= nodes
    used_slots |= {(chain[i - 1], chain[i]) for i in range(1, len(chain), 2)}
    items.append((chain, src, rec['v']))
  for rec in data['errprogs']:
    src = perm.ERR_PROGRAMS[rec['name']]
    present = perm.ast_kinds(src)
    chk.require(set(rec['kinds']) <= present and not ((present & gated) - set(rec['kinds'])),
                f'error program {rec["name"]}: kinds {sorted(present & gated)} vs spec {rec["kinds"]}')
    items.append((['#' + rec['name']] + sorted(rec['kinds']), src, rec['v']))
  chk.require(set(perm.ERR_PROGRAMS) == {r['name'] for r in data['errprogs']}, 'error programs differ from Perm.tla')
  not_gen = {k for k, rec in kinds_tab.items() if rec['ctx'] != 'nested' and k != 'Expr'} - generated_kinds
  chk.require(not not_gen, f'kinds never generated: {sorted(not_gen)}')
  all_slots = {(k, s) for k, rec in kinds_tab.items() for s in rec['slots'] if k != 'Expr'}
  chk.require(all_slots <= used_slots, f'slots never used: {sorted(all_slots - used_slots)[:8]}')
  chk.notes['chains'] = {'full_depth2': len(data['full']), 'deeper_sample': len(data['deeper']),
                         'kinds': len(kinds_tab), 'kind_slot_positions': len(all_slots)}

  # 3. the cases
  work = []
  for i, (chain, src, row) in enumerate(items):
    all_masks = len(chain) == 1 or chain[0].startswith('#') or (thorough and len(chain) <= 3)
    work.append((chain, src, row, _tasks(chain, row, all_masks), i % 3 == 0))
  nproc = min(8, max(2, (os.cpu_count() or 4) // 2))
  size = max(1, len(work) // (nproc * 6))
  chunks = [work[i:i + size] for i in range(0, len(work), size)]
  with cf.ProcessPoolExecutor(max_workers=nproc, mp_context=mp.get_context('fork')) as ex:
    results = [x for chunk in ex.map(_work, chunks) for x in chunk]

  # 3b. scope histories (enter / leave to depth 3, then evaluate): the outermost OPEN scope decides, also after
  # inner scopes have been entered and left again
  hists = [(x['h'], x['eff']) for x in data['histories']]
  cand = [(c, s_, r_) for c, s_, r_ in items if len(c) <= 3 and _masks_of(r_)[2] and not c[0].startswith('#')]
  step = max(1, len(cand) // (160 if thorough else 36))
  hwork = []
  for c, s_, r_ in cand[(chk.seed % step)::step] + [it for it in items if it[0][0].startswith('#')]:
    needed = _bits(_masks_of(r_)[2])
    hwork.append((c, s_, r_, 255 ^ needed[0], hists))
  hsize = max(1, len(hwork) // (nproc * 3))
  hchunks = [hwork[i:i + hsize] for i in range(0, len(hwork), hsize)]
  with cf.ProcessPoolExecutor(max_workers=nproc, mp_context=mp.get_context('fork')) as ex:
    hresults = [x for chunk in ex.map(_work_hist, hchunks) for x in chunk]
  for chain, src, mask, res in hresults:
    for h, eff, code, outcome, d in res:
      chk.evaluations += 1
      chk.count('scope_history_cases')
      if 0 in h and eff != 0:
        chk.count('scope_history_evaluated_after_an_inner_exit')
      chk.distinct_case((chain, mask, tuple(h)))
      if d is not None:
        sig = _signature(kinds_tab, chain, {0: 255, 1: mask, 2: 255, 3: 0}[eff], 'history', d, src)
        sig['mode'] = 'history'
        chk.violation(sig, {'chain': chain, 'source': src, 'mask': mask, 'permission': _perm_str(mask),
                            'history': h, 'history_legend': '1 enter P, 2 enter ALL, 3 enter NOTHING, 0 leave',
                            'effective_expected': eff, 'mode': 'history', 'api': 'evaluate',
                            'verdict': ('ALLOW', 'REJECT', 'EITHER')[code], 'outcome': outcome,
                            'what': d[1], 'expected': d[2], 'observed': d[3]})
  chk.notes['scope_histories'] = {'histories': len(hists), 'programs': len(hwork)}
  chk.require(chk.counters.get('scope_history_evaluated_after_an_inner_exit', 0) > 100,
              'vacuous: no evaluation after an inner scope was left')

  n_err = n_rej = n_ran = 0
  for chain, src, ref_error, res, extra in results:
    chk.traces += 1
    if ref_error:
      chk.count('programs_ending_in_runtime_error')
    for mask, mode, api, code, outcome, d in res:
      chk.evaluations += 1
      chk.count(f'verdict_{("ALLOW", "REJECT", "EITHER")[code]}')
      chk.count(f'outcome_{outcome}')
      chk.count(f'mode_{mode}_{api}')
      if len(chain) > 1 or mask != 255:
        chk.distinct_case((chain, mask, mode, api))
      if outcome == 'rejected':
        n_rej += 1
      elif outcome == 'error':
        n_err += 1
      else:
        n_ran += 1
      if d is not None:
        sig = _signature(kinds_tab, chain, mask, mode, d, src)
        chk.violation(sig, {'chain': chain, 'source': src, 'mask': mask, 'permission': str(_perm_str(mask)),
                            'mode': mode, 'api': api, 'verdict': ('ALLOW', 'REJECT', 'EITHER')[code],
                            'outcome': outcome, 'what': d[1], 'expected': d[2], 'observed': d[3]})
      elif len(chk.samples) < 5 and len(chain) >= 3 and mask not in (0, 255) and code == 1:
        chk.sample({'chain': chain, 'source': src, 'permission': _perm_str(mask), 'mode': mode,
                    'verdict': 'REJECT', 'outcome': outcome})
    if extra is not None:
      chk.violation({'clause': 'faithful', 'mode': 'param', 'kind': chain[0], 'what': 'return modes: ' + extra[0]},
                    {'chain': chain, 'source': src, 'expected': extra[1], 'observed': extra[2]})
  # vacuity guards
  chk.require(n_rej > 100 and n_ran > 100 and n_err > 50, f'vacuous: rejected={n_rej} ran={n_ran} errors={n_err}')
  for k in ('verdict_ALLOW', 'verdict_REJECT', 'verdict_EITHER', 'mode_scope_evaluate', 'mode_nested_all_evaluate',
            'mode_outer_all_evaluate', 'mode_param_run'):
    chk.require(chk.counters.get(k, 0) > 0, f'vacuous: {k}')


def _perm_str(mask):
  return '|'.join(n for n, b in _FLAG_BIT.items() if mask & b) or 'NONE'


def replay(chk, path):
  from pgverif import perm   # pylint: disable=import-outside-toplevel
  warnings.simplefilter('ignore')
  data = json.loads(open(path).read())
  d = data['detail']
  src, mask, mode, api = d['source'], d['mask'], d['mode'], d.get('api', 'evaluate')
  code = {'ALLOW': 0, 'REJECT': 1, 'EITHER': 2}[d['verdict']]
  ref = perm.plain_run(src)
  if mode == 'history':
    got = perm.run_history(src, mask, d['history'])
  else:
    got = perm.pg_run(src, mask, mode, api)
  div = perm.compare(ref, got, code)
  chk.traces += 1
  chk.evaluations += 1
  chk.states = chk.states or 1
  chk.transitions = chk.transitions or 1
  chk.sample({'replayed': path, 'source': src, 'permission': _perm_str(mask), 'outcome': got['outcome'],
              'divergence': div})
  if div is not None:
    chk.violation(data['signature'], dict(d, observed=div[3]))
