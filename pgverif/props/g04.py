"""G04 (spec growth) - traversal-driven bulk update: patch_on_*, rebind(callable), traverse / query / sym_descendants."""
import json
import time
import warnings
from concurrent.futures import ThreadPoolExecutor

from pgverif import patchspec, tlc

META = {
    'level': 'model_checking',
    'technique': 'TLA+ spec Patch.tla: symbolic trees by grammar (Dict / List / A(a) / B(a, x1), int / str leaves), key paths, '
                 'path strings and a regex engine with the meaning of re.match; every operation defined twice - the walk the '
                 'code performs (traverse with ENTER / CONTINUE / STOP, get_rebind_dict, entry-by-entry rebind, recursive '
                 'sym_descendants) and the documented meaning as a set comprehension over locations - and TLC checks Op = Ref, '
                 'the relational laws (query(".*") = traverse = descendants; LEAF / IMMEDIATE = innermost / outermost of ALL; '
                 'a patch writes where the query with the same condition selects; constant patches are idempotent) on ALL '
                 'trees with <= 3 (thorough: 4) locations and the action property RebindExact (value_fn at exactly the '
                 'outermost changed locations, nothing else changes, in place, ValueError / KeyError leave the tree alone, '
                 'one notification per container above a written location) on every patch / rebind of every tree; three '
                 'plausible-wrong walks (descends into replaced values / stops at the first match / enters the old value) must '
                 'be refuted; the expected result of every (tree, call) is exported from TLC and compared with the real API '
                 '(tree by structure, identity of untouched nodes, order of selected paths, error class, _on_change calls, '
                 'value_fn calls, returned object); the observed relations go back to TLC (PatchObs.tla); TLC-simulated '
                 'histories of patches / rebinds on one object are replayed with a comparison after every call',
    'level_text': 'Patch.tla gives every operation an operational and a declarative definition over the same trees and TLC '
                  'proves them equal on every tree of the bounded universe, so the declarative reading - exactly the selected '
                  'locations, outermost only, document order - is what the exported expectations contain. The real '
                  'patch_on_key/_path/_value/_type/_member, rebind(callable), get_rebind_dict, pg.query, pg.traverse and '
                  'sym_descendants are run on every tree x every call of the table and compared field by field; the relations '
                  'between the observed results of different APIs are evaluated by TLC itself.',
    'level_note': 'Bounded: all trees with <= 3 locations (thorough: <= 4) over keys a, b, x1 and leaves 1, 2, "s", plus 18 '
                  'deeper shapes (6 of them with the dict key "q]"); 24 patch conditions x 4 value functions, 4 notification modes on 3 conditions, 11 rebinder '
                  'conditions, 59 selectors, 6 where-predicates x 3 options, 65 visitor pairs (506 calls per tree). Regex semantics (re.match) and '
                  'the KeyError for a selected root are taken from the code (explicit guard / unit tests). Postorder calls '
                  'after a STOP are only required not to visit anything new. Not generated: MISSING_VALUE / Insertion as new '
                  'values, value functions that raise, typed (schema) containers, sealed objects, notify_parents=False, keys '
                  'with dots. Trusted: TLC, the Json module, the concretisation / projection in pgverif/patchspec.py.',
    'design_ref': 'DESIGN.md §6 (specification growth: bulk update by traversal)',
}

NEG = {   # negative controls: cfg -> the law TLC must refute
    'G04_neg_deep.cfg': 'RebindExact',
    'G04_neg_first.cfg': 'WalkLaw',
    'G04_neg_enter.cfg': 'RebindLaw',
}


def _model_runs(cfgs, workers):
  out = {}
  for cfg in cfgs:
    # a refuted control stops at the first counter-example: one worker keeps its state counts reproducible
    out[cfg] = tlc.run('Patch', cfg, timeout=2400, workers=1 if cfg in NEG else workers, allow_violation=cfg in NEG)
  return out


def _export(tier, k, nslices):
  return tlc.export_json('PatchExport', f'G04_export_{tier}.cfg', name=f'export-PatchExport-{tier}-{k}',
                         env={'SLICE': str(k), 'NSLICES': str(nslices)}, timeout=2400)


def run(chk):
  warnings.filterwarnings('ignore', category=DeprecationWarning)
  tier = chk.tier
  thorough = tier == 'thorough'
  w = tlc.DEFAULT_WORKERS
  chk.rule = ('cases = every call of the table PatchCases!Ops (patch_on_* x value function x notification mode, '
              'rebind(callable) x raise_on_no_change, get_rebind_dict, query x enter_selected, sym_descendants x option x '
              'include_self, traverse x visitor pair) on every tree of the universe exported by TLC, compared with the '
              'exported expectation; distinct = (tree, call) pairs whose expected result is non-trivial (something '
              'written / selected / an early stop / an error); traces = simulated histories replayed + trees whose '
              'observed relations TLC checked')
  chk.assumptions += [
      'universe: all trees with <= 3 (thorough: 4) locations, keys a / b / x1, leaves 1 / 2 / "s", classes A(a), B(a, x1), plus 18 deeper shapes (6 with the key "q]")',
      'regexes are matched with re.match (anchored at the start only), as the code does and object_test.QueryTest pins',
      'a rebinder that returns a new value for the root raises KeyError (explicit guard in _set_item_of_current_tree)',
      'equal leaves are the same value (small ints / interned strings): "returns the same value" is decided by == on leaves',
      'after a STOP only "nothing new is visited" is required of the remaining postorder calls',
  ]
  nslices = (12 if w >= 16 else 8) if thorough else 4
  t0 = time.time()
  with ThreadPoolExecutor(max_workers=nslices + 2) as ex:
    exports = [ex.submit(_export, tier, k, nslices) for k in range(nslices)]
    mw = max(2, w // 2)
    fa = ex.submit(_model_runs, [f'G04_laws_{tier}.cfg'] + list(NEG), mw)
    fb = ex.submit(_model_runs, [f'G04_step_{tier}.cfg'], mw)

    # 1. expectations exported by TLC, compared with the real API slice by slice
    procs = max(2, w // 2)
    bad_all, total, stats = [], 0, {}
    data0 = None
    for k, f in enumerate(exports):
      data, r = f.result()
      chk.add_tlc(r, count_states=False)
      if not r.ok:
        raise tlc.TLCError(f'export slice {k}: {r.violated}:\n' + r.out[-3000:])
      if k == 0:
        data0 = {kk: data[kk] for kk in ('n', 'nops', 'trees', 'ops', 'regexes', 'strings', 'retable')}
        rbad, rn = patchspec.check_regex_engine(data)
        chk.evaluations += rn
        chk.notes['regex_engine_checks'] = rn
        chk.require(rn > 100, 'vacuous: regex engine not compared with `re`')
        if rbad:
          raise tlc.TLCError(f'the regex engine of Patch.tla disagrees with Python re on {len(rbad)} cases: {rbad[:3]}')
      bad, n, st = patchspec.compare_slice(data, procs)
      total += n
      for kk, vv in st.items():
        stats[kk] = stats.get(kk, 0) + vv
      for ti, j, form, diff, obs, flags in bad:
        bad_all.append((ti, j, form, diff, obs, flags, data['exp'][data['slice'].index(ti)][j]))
      for kk, ti in enumerate(data['slice']):
        for j, op in enumerate(data['ops']):
          e = data['exp'][kk][j]
          nontrivial = (e[0] != 'ok' or e[1] != data['trees'][ti - 1]) if op[0] in ('patch', 'rebind') else \
              (not e[1] if op[0] == 'trav' else bool(e))
          if nontrivial:
            chk.distinct_case(ti * 1000 + j)
      del data
    chk.notes['wall_export_compare_s'] = round(time.time() - t0, 1)
    chk.evaluations += total
    chk.notes['cases'] = stats
    chk.notes['universe_size'] = data0['n']
    chk.notes['calls_per_tree'] = data0['nops']
    chk.require(total >= data0['n'] * data0['nops'], 'vacuous: not every (tree, call) was executed')
    for need in ('mut:ok:changed', 'mut:ok:same', 'mut:KeyError:same', 'mut:ValueError:same', 'notified', 'container_replaced',
                 'trav:stopped', 'query:nonempty', 'desc:nonempty', 'rbdict:nonempty'):
      chk.require(stats.get(need, 0) > 0, f'vacuous: no case of class {need}')
    trees, ops = data0['trees'], data0['ops']
    for ti, j in ((len(trees), 2), (len(trees) - 3, 130), (len(trees) - 5, len(ops) - 7)):
      obs, _ = patchspec.run_op(trees[ti - 1], ops[j])
      chk.sample(dict(patchspec.describe(trees[ti - 1], ops[j]), observed=obs))
    seen = {}
    for ti, j, form, diff, obs, flags, exp in sorted(bad_all, key=lambda b: (len(json.dumps(trees[b[0] - 1])), b[0], b[1])):
      op = ops[j]
      zone = patchspec.zone_of(trees[ti - 1], exp[5], exp[0], obs, flags) if op[0] in ('patch', 'rebind') else '-'
      sig = {'call': patchspec.op_name(op), 'field': diff[0], 'args': patchspec.arg_class(op), 'zone': zone}
      key = json.dumps(sig, sort_keys=True)
      seen[key] = seen.get(key, 0) + 1
      if seen[key] > 3:
        continue
      chk.violation(sig, dict(patchspec.describe(trees[ti - 1], op), form=form, fields=diff, expected=exp, observed=obs,
                              flags=flags, tree_index=ti, op_index=j + 1))
    chk.notes['nonconforming_cases'] = len(bad_all)

    # 2. the relations between observed results, evaluated by TLC
    t1 = time.time()
    obs = patchspec.observe_relation(data0, procs)
    chk.evaluations += len(obs['rows']) * len(obs['opix'])
    r = tlc.check_with_json('PatchObs', f'G04_obs_{tier}.cfg', obs, timeout=2400, workers=mw)
    chk.add_tlc(r)
    chk.traces += len(obs['rows'])
    chk.notes['wall_observed_laws_s'] = round(time.time() - t1, 1)
    if not r.ok:
      if r.violated in (None, 'ASSUME'):
        raise tlc.TLCError('PatchObs: the observation does not fit the universe:\n' + r.out[-3000:])
      st = (r.error_trace or [{}])[-1].get('state', {})
      idx = st.get('act', [None, None])[1]
      chk.violation({'call': 'observed-relation', 'field': r.violated, 'args': '-', 'zone': '-'},
                    {'law': r.violated, 'tree_index': idx,
                     'tree': patchspec.source(trees[idx - 1]) if isinstance(idx, int) else None,
                     'observed_calls': [patchspec.describe(trees[idx - 1], ops[j - 1]) for j in obs['opix'][:0]]})
    else:
      chk.count('observed_relation_laws_hold', 6)

    # 3. histories: simulated sequences of patches / rebinds on one object
    t2 = time.time()
    hits = {}
    batches = 4 if thorough else 2
    for b in range(batches):
      behaviours, rs = tlc.simulate('Patch', 'G04_sim.cfg', num=250 if thorough else 150, depth=10,
                                    seed=chk.seed * 100 + b + 1, name=f'g04-sim-{b}', timeout=1200)
      chk.add_tlc(rs, count_states=False)
      chk.transitions += rs.generated
      if not rs.ok:
        raise tlc.TLCError(f'G04_sim.cfg: {rs.violated} violated during simulation:\n' + rs.out[-3000:])
      for beh in behaviours:
        v, n, h = patchspec.replay_history(beh)
        chk.traces += 1
        chk.evaluations += n
        for kk, vv in h.items():
          hits[kk] = hits.get(kk, 0) + vv
        if v:
          op = v['op']
          chk.violation({'call': 'history:' + patchspec.op_name(op), 'field': v['fields'][0], 'args': patchspec.arg_class(op),
                         'zone': v['zone']}, v)
    chk.notes['history_hits'] = dict(sorted(hits.items()))
    chk.notes['wall_histories_s'] = round(time.time() - t2, 1)
    for need in ('patch', 'rebind', 'rebind_nr', 'changed', 'notified', 'err:ValueError', 'err:KeyError', 'mode:skip',
                 'mode:ctx_off', 'mode:ctx_off_explicit'):
      chk.require(hits.get(need, 0) > 0, f'vacuous: no replayed history step of class {need}')

    # 4. the model: laws on the universe, the action property on every call, the negative controls
    results = {}
    results.update(fa.result())
    results.update(fb.result())
  for cfg, r in results.items():
    chk.add_tlc(r)
    chk.notes.setdefault('tlc_runs', []).append(dict(r.summary(), cfg=cfg))
    want = NEG.get(cfg)
    if want is None:
      if not r.ok:
        raise tlc.TLCError(f'{cfg}: {r.violated} violated in the model:\n' + r.out[-3000:])
      chk.require(r.distinct > data0['n'], f'{cfg}: suspiciously small state space ({r.distinct})')
    else:
      chk.require(not r.ok and r.violated == want,
                  f'vacuous: negative control {cfg} should be refuted on {want}, TLC says ok={r.ok} violated={r.violated}')
      chk.count('negative_controls_refuted')
  chk.exhaustive = True


def replay(chk, path):
  """Re-runs the (deterministic) check with the tier and seed recorded in the replay file."""
  rec = json.loads(open(path).read())
  chk.tier = rec.get('tier', chk.tier)
  chk.seed = rec.get('seed', chk.seed)
  print(f'replaying {rec.get("signature")} at tier={chk.tier} seed={chk.seed}')
  run(chk)
