"""G02 (spec growth) - inferred / contextual attributes resolve, at read time, from the nearest defining ancestor."""
from concurrent.futures import ThreadPoolExecutor

from pgverif import inferred, tlc

META = {
    'level': 'model_checking',
    'technique': 'TLA+ spec Inferred.tla (tree of ContextualObject/Dict/List nodes whose fields are leaves, nodes or '
                 'parent-chain placeholders; contextual_override scopes) checked exhaustively with TLC: the operational walk '
                 'equals the nearest-defining-ancestor law (ResolveIsNearestAncestor), ReadDoesNotWrite, NoCacheStaleness, '
                 'MoveChangesResolution, DetachCutsContext, AncestorWriteVisible, CloneIsIsolated, override laws; negative '
                 'controls (walk as coded, naive cache) must be refuted by TLC; S->C replay of TLC-simulated behaviours '
                 'through real pg.ContextualObject / pg.Dict / pg.List trees with ValueFromParentChain / '
                 'contextual_attribute placeholders, comparing after every step, for every node and key, every accessor '
                 'read with the spec\'s observation table and sym_getattr / sym_items with the stored field',
    'level_text': 'Resolution of a placeholder is modelled twice in Inferred.tla - as the ancestor walk the code performs '
                  'and as the declarative nearest-definer law - and TLC proves them equal on every reachable tree within '
                  'the bounds, together with the action properties about re-parenting, detaching, ancestor writes, clones '
                  'and override scopes. Simulated behaviours are then executed on the real classes and after EVERY step '
                  'every accessor form of every key of every live node is compared with the value TLC computed for that '
                  'state, so a stale cache, a walk that stops early or starts at the root, or a read that writes is seen '
                  'at the first state where it matters.',
    'level_note': 'Bounded: 4 nodes exhaustively (all 27 three-level chains for 1 step, 7 of them for 2 steps, an empty object for 3 steps; '
                  'the thorough tier: 5 nodes, all 27 chains for 2 steps, the empty object for 4 steps), 6 nodes / '
                  'depth 30-40 by simulation with sampled arguments. Keys x (ValueFromParentChain), y (contextual_attribute) '
                  'and z never mix placeholder flavours under one name; cascade overrides, ContextualObject.override(), '
                  'contextual defaults, pg.Ref and keys that collide with container method names are not generated. '
                  'Dict.items()/values()/get() (which return the stored placeholder) are not compared. Trusted: TLC, the '
                  'TLA+ value parser, the driver\'s projection (sym_getattr, sym_items, sym_parent).',
    'design_ref': 'DESIGN.md §6 (specification growth: pg.Inferential / ContextualObject)',
}

EXPECTED_REFUTATIONS = {
    # cfg -> the property TLC must refute (negative controls: the law has teeth)
    'G02_mirror.cfg': 'ResolveIsNearestAncestor',
    'G02_cache_naive.cfg': 'NoCacheStaleness',
    'G02_acyclic.cfg': 'ResolutionIsAcyclic',    # the rule itself allows a value to resolve to a node containing its holder
}


def _model_runs(cfgs):
  """Exhaustive TLC runs (in worker threads, while the main thread replays simulations)."""
  w = max(2, tlc.DEFAULT_WORKERS // 2)
  res = {}
  for cfg in cfgs:
    res[cfg] = tlc.run('Inferred', cfg, timeout=1500, workers=w, allow_violation=cfg in EXPECTED_REFUTATIONS)
  return res


def run(chk):
  thorough = chk.tier == 'thorough'
  chk.rule = ('behaviours = TLC simulation walks of Inferred.tla (New/Set/Insert/Del/Clone/Forget/EnterOv/ExitOv/Read, '
              'arguments sampled by RandomSubset) from 27 three-level chains and from an empty object; evaluations = accessor '
              'reads compared with the TLC observation table; distinct = distinct action sequences with >= 1 replayed step')
  chk.assumptions += ['leaf values are small ints', 'one name never holds both placeholder flavours',
                      'only detached roots are attached (relocate-or-copy of attached nodes is C01/C07 territory)']
  group_a = ['G02_quick.cfg', 'G02_diag.cfg', 'G02_root.cfg', 'G02_mirror.cfg', 'G02_acyclic.cfg'] + \
      (['G02_root_thorough.cfg'] if thorough else [])
  group_b = ['G02_cache_flush.cfg', 'G02_cache_naive.cfg'] + (['G02_thorough.cfg'] if thorough else [])
  with ThreadPoolExecutor(max_workers=2) as ex:
    futs = [ex.submit(_model_runs, group_a), ex.submit(_model_runs, group_b)]
    hits = {}
    plan = ([('G02_sim.cfg', 200, 30, 1), ('G02_sim_root.cfg', 100, 30, 1)] if not thorough else
            [('G02_sim.cfg', 1600, 40, 4), ('G02_sim_root.cfg', 800, 40, 2)])
    for cfg, num, depth, batches in plan:
      for k, v in inferred.replay_simulated(chk, cfg, num, depth, chk.seed, batches=batches).items():
        hits[k] = hits.get(k, 0) + v
    results = {}
    for f in futs:
      results.update(f.result())

  # the model: the intended semantics satisfies every law; the two negative controls are refuted
  for cfg, r in results.items():
    chk.add_tlc(r)
    chk.notes.setdefault('tlc_runs', []).append(dict(r.summary(), cfg=cfg))
    want = EXPECTED_REFUTATIONS.get(cfg)
    if want is None:
      if not r.ok:
        raise tlc.TLCError(f'{cfg}: {r.violated} violated in the model:\n' + r.out[-3000:])
      chk.require(r.distinct > 100, f'{cfg}: suspiciously small state space ({r.distinct})')
    else:
      chk.require(not r.ok and r.violated == want,
                  f'vacuous: negative control {cfg} should be refuted on {want}, TLC says ok={r.ok} violated={r.violated}')
      chk.count('negative_controls_refuted')
  # the counter-example TLC found in the design AS CODED is replayed on the real code before it is believed
  hist = inferred.counterexample_history(results['G02_mirror.cfg'])
  chk.require(bool(hist), 'cannot read the counter-example of G02_mirror.cfg')
  inferred.replay_counterexample(chk, 'G02_sim.cfg', hist)

  chk.notes['replay_hits'] = dict(sorted(hits.items()))
  for need in ('Set', 'Insert', 'Del', 'Clone', 'New', 'EnterOv', 'ExitOv', 'Read', 'attach', 'placeholder_reads',
               'read:err', 'read:node', 'read:value', 'read:iter', 'resolution_changed', 'resolution_changed:attach',
               'resolution_changed:detach', 'resolution_changed:scope', 'repr:ok', 'repr:cyclic', 'EnterOv:attrs',
               'EnterOv:plain', 'Clone:deep', 'Clone:shallow'):
    chk.require(hits.get(need, 0) > 0, f'vacuous: no replayed step exercised {need}')


def replay(chk, path):
  inferred.replay_file(chk, path)
