"""C06 - symbolic equality, hashing and ordering obey their algebraic laws."""
import json

from pgverif import order, tlc

META = {
    'level': 'model_checking',
    'technique': 'TLA+ spec Order.tla: value universe by grammar, documented eq/lt/hash rules as reference operators, '
                 'the algebraic laws as invariants of a pair-walking state machine plus an abstract insertion sort; '
                 'TLC model-checks the documented and the repaired design (OrderDesign) and then evaluates the same '
                 'invariants on the relation tables observed on the real pg.eq/ne/lt/gt/hash, ==, !=, hash(), sorted() '
                 '(OrderObs, observed-relation law checking)',
    'level_text': 'Order.tla defines a universe of a few hundred symbolic values (atoms, lists, dicts in both key '
                  'orders, tuples, objects of three classes, nestings, plain and pg containers) and states reflexivity, '
                  'symmetry, transitivity, ne = not eq, eq => same hash, operator agreement, trichotomy, gt = swapped lt, '
                  'transitivity of lt, totality (nothing raises) and sortedness as TLC invariants over all pairs and '
                  'triples. TLC first model-checks the documented rules (finding the dict-key-order inconsistency as a '
                  'design counter-example and proving the laws for the canonical-key-order design), then checks the same '
                  'invariants on the tables computed by the real functions on every pair of the universe.',
    'level_note': 'Bounded universe (171 values quick / ~420 thorough, depth <= 2); no cell of the observed lt is compared '
                  'with the documented order (only the laws), eq is compared with structural equality only where that '
                  'notion is unambiguous; pg.hash of plain unhashable containers and NaN are outside the universe / '
                  'don\'t-care. Trusted: TLC, the Json module, the descriptor->value builder in pgverif/order.py.',
}


def _tier_cfg(kind, tier):
  return f'C06_{kind}_{tier}.cfg'


def run(chk):
  tier = chk.tier
  chk.rule = ('cases = ordered pairs (and triples) of the universe exported by Order.tla on which the real operations were '
              'evaluated; distinct = distinct ordered pairs of universe values plus sort samples; every pair is '
              'non-trivial (two independently built values)')
  chk.assumptions += [
      'universe bounded by the grammar of Order.tla (depth <= 2, lists <= 2, dict keys a/b, classes A, B(A), C(A,y))',
      'NaN and pg.hash of plain list/dict are don\'t-cares (not generated / excluded by HashDef)',
      'the documented type order is not required: only the order laws are evaluated on the observed lt',
  ]
  # 1. design level: documented rules (laws hold outside the zones, TLC exhibits the counter-examples inside)
  data, r = tlc.export_json('OrderDesign', _tier_cfg('design', tier), timeout=1500, workers=tlc.DEFAULT_WORKERS)
  chk.add_tlc(r)
  if not r.ok:
    raise tlc.TLCError(f'design model: {r.violated} violated:\n' + r.out[-3000:])
  # 2. design level: canonical key order (the proposed repair) satisfies every law on the whole universe
  _, r2 = tlc.export_json('OrderDesign', _tier_cfg('fixed', tier), name='export-OrderDesign-fixed', timeout=1500,
                          workers=tlc.DEFAULT_WORKERS)
  chk.add_tlc(r2)
  if not r2.ok:
    raise tlc.TLCError(f'repaired design model: {r2.violated} violated:\n' + r2.out[-3000:])
  universe, strs, n = data['universe'], data['strs'], data['n']
  chk.require(n == len(universe) and n > 100, f'vacuous: universe of {n} values')
  chk.notes['universe_size'] = n

  # 3. observe the real code
  n_sorts = 300 if tier == 'quick' else 2000
  obs = order.observe(universe, strs, chk.seed, n_sorts)
  pairs = n * n
  chk.evaluations += pairs * 6 + 3 * n + len(obs['sorts'])
  chk.traces += len(obs['sorts'])
  counts = {
      'pairs': pairs,
      'eq_true_offdiag': sum(1 for a in range(n) for b in range(n) if a != b and obs['eq'][a][b] == 1),
      'lt_true': sum(row.count(1) for row in obs['lt']),
      'raised_cells': sum(row.count(2) for f in ('eq', 'ne', 'lt', 'gt') for row in obs[f]),
      'hash_defined': sum(obs['hashok']),
      'hash_classes': obs.pop('hash_classes'),
      'symobj_values': sum(data['symobj']),
      'sort_samples': len(obs['sorts']),
      'sort_raised': sum(s['raised'] for s in obs['sorts']),
  }
  chk.notes['observed'] = counts
  chk.require(counts['eq_true_offdiag'] > 0, 'vacuous: no two distinct universe values are eq')
  chk.require(counts['lt_true'] > pairs // 4, 'vacuous: lt is almost empty')
  chk.require(counts['hash_defined'] > n // 2, 'vacuous: pg.hash raised on most values')
  chk.require(counts['symobj_values'] > 0, 'vacuous: no object of a class with symbolic comparison')
  chk.require(counts['sort_samples'] - counts['sort_raised'] > 10, 'vacuous: (almost) every sort raised')
  for a in range(n):
    for b in range(n):
      chk.distinct_case((a, b))
  for s in obs['sorts'][:3]:
    chk.sample({'sorted_input': [order.describe(universe, strs, k) for k in s['in']],
                'sorted_output': [order.describe(universe, strs, k) for k in s['out']], 'raised': s['raised']})
  for a, b in ((n // 3, n // 2), (n // 2, n - 1), (n - 1, n - 2)):
    chk.sample({'left': order.describe(universe, strs, a + 1), 'right': order.describe(universe, strs, b + 1),
                **{f: obs[f][a][b] for f in ('eq', 'ne', 'lt', 'gt', 'opeq', 'opne')}})

  # 4. the laws, evaluated by TLC on the observed tables
  r3 = tlc.check_with_json('OrderObs', _tier_cfg('laws', tier), obs, timeout=1500)
  chk.add_tlc(r3)
  if r3.ok:
    chk.exhaustive = True
    return
  if r3.violated in (None, 'ASSUME'):
    raise tlc.TLCError('OrderObs: observation does not fit the universe:\n' + r3.out[-3000:])
  chk.notes['first_violated_invariant'] = r3.violated
  # 5. diagnosis: TLC lists one witness per (law, pair, zone)
  r4 = tlc.check_with_json('OrderObs', _tier_cfg('diag', tier), obs, name='diag-OrderObs-' + tier, timeout=1500)
  chk.add_tlc(r4, count_states=False)
  if not r4.ok:
    raise tlc.TLCError('OrderObs diagnosis run failed:\n' + r4.out[-3000:])
  viols = [p for p in (r4.prints or []) if isinstance(p, (list, tuple)) and len(p) == 6 and p[0] == 'VIOL']
  chk.require(len(viols) > 0, f'invariant {r3.violated} violated but the diagnosis run lists no witness')
  by_sig = {}
  for _, law, a, b, c, zone in viols:
    by_sig.setdefault((law, zone), []).append((a, b, c))
  chk.notes['violation_classes'] = {f'{law}/{zone}': len(w) for (law, zone), w in sorted(by_sig.items())}
  for (law, zone), wit in sorted(by_sig.items()):
    a, b, c = sorted(wit)[0]
    if law == 'SortTotal':
      s = obs['sorts'][a - 1]
      detail = {'law': law, 'zone': zone, 'instances': len(wit), 'sample': a,
                'input': [order.describe(universe, strs, k) for k in s['in']], 'raised': s['raised'],
                'output': [order.describe(universe, strs, k) for k in s['out']]}
    else:
      detail = {'law': law, 'zone': zone, 'instances': len(wit), 'indices': [a, b, c],
                'x': order.describe(universe, strs, a), 'y': order.describe(universe, strs, b),
                'z': order.describe(universe, strs, c),
                'cells_xy': {f: obs[f][a - 1][b - 1] for f in ('eq', 'ne', 'lt', 'gt', 'opeq', 'opne')},
                'cells_yx': {f: obs[f][b - 1][a - 1] for f in ('eq', 'ne', 'lt', 'gt')},
                'hash_x_y': [obs['hash'][a - 1], obs['hashr'][b - 1]],
                'descriptors': [universe[k - 1] for k in (a, b, c) if k]}
    chk.violation({'law': law, 'zone': zone}, detail)


def replay(chk, path):
  """Re-runs the (deterministic) check with the tier and seed recorded in the replay file."""
  rec = json.loads(open(path).read())
  chk.tier = rec.get('tier', chk.tier)
  chk.seed = rec.get('seed', chk.seed)
  print(f'replaying {rec.get("signature")} at tier={chk.tier} seed={chk.seed}')
  run(chk)
