"""G01 (spec growth) - pg.diff reports exactly the locations at which two symbolic values differ."""
import json
import time

from pgverif import diffspec, tlc

META = {
    'level': 'model_checking',
    'technique': 'TLA+ spec Diff.tla: value universe by grammar, the documented walk of pg.diff (equal / not collapsed / '
                 'member-wise with MISSING and `_type`, modes diff/same/both) as reference, the laws DiffEmptyIffEq, Symmetric, '
                 'Sound/KindOK/PrefixFree/Complete/Descent (locations exact), ModePartition, Purity, NestedAgreesFlat, '
                 'FlatIsFlat, NoRaise, AgreesWithRef as invariants of a cell-picking state machine, plus a patch machine '
                 'that applies the reported differences in every order and must end in the right value; TLC model-checks '
                 'the reference (DiffDesign, intended and as-coded rule of mode `same`) and then the same invariants on the '
                 'entries observed on the real pg.diff for every ordered pair x 24 option combinations (DiffObs)',
    'level_text': 'Diff.tla defines a universe of symbolic values (atoms incl. None and 1 / 1.0, lists <= 2, dicts over 2-3 '
                  'keys in several insertion orders, objects of A(x,y), B(A), C(z), nestings to depth 2, plain and pg '
                  'containers), the reference walk of pg.diff and eleven laws over entry sets (path, left, right). TLC checks '
                  'the laws and the order-independent patch machine on the reference, exhibits the design counter-example of '
                  'the coded mode-`same` rule, and then checks the same invariants on the relation observed on the real '
                  'pg.diff with flatten on/off, four collapse options and three modes for every ordered pair.',
    'level_note': 'Bounded universe (depth <= 2); numbers equal across types, dict versus pg.Dict under `same_type`, '
                  'collapse=False and `_type` entries of equal classes are don\'t-cares for the comparison with the reference '
                  '(the laws still apply). Trusted: TLC, the Json module, the builder / projection in pgverif/diffspec.py.',
}


def _cfg(kind, tier):
  return f'G01_{kind}_{tier}.cfg'


def run(chk):
  tier = chk.tier
  chk.rule = ('cases = pg.diff calls: ordered pairs of the universe exported by Diff.tla x 4 collapse options x 3 modes x '
              'flatten on/off, each projected to (path, left, right) entries; distinct = distinct (pair, collapse) cells '
              'whose result is non-empty; traces = patch behaviours TLC runs over the observed differences '
              '(pair x collapse x form)')
  chk.assumptions += [
      'universe bounded by the grammar of Diff.tla (depth <= 2, lists <= 2, dict keys a/b/c/x/y/z, classes A(x,y), B(A), C(z))',
      'not compared with the reference: pairs that differ by a number equal across types (1 / 1.0), dict versus pg.Dict '
      'under collapse=\'same_type\', collapse=False; `_type` entries reporting equal classes or dict versus pg.Dict',
      'partial objects, class objects as leaves, keys with dots and a key named _type are not generated',
  ]
  # 1. design level, intended rule: laws + patch machine hold on the whole universe; export of the universe
  data, r = tlc.export_json('DiffDesign', _cfg('design', tier), timeout=1500, workers=tlc.DEFAULT_WORKERS)
  chk.add_tlc(r)
  chk.notes['wall_tlc_s'] = [round(r.wall_s, 1)]
  chk.notes['tlc_distinct_states'] = [r.distinct]
  if not r.ok:
    raise tlc.TLCError(f'design model: {r.violated} violated:\n' + r.out[-3000:])
  # 2. design level, mode 'same' as coded: TLC exhibits the ModePartition counter-example, laws hold outside the zone
  _, r2 = tlc.export_json('DiffDesign', _cfg('coded', tier), name='export-DiffDesign-coded', timeout=1500,
                          workers=tlc.DEFAULT_WORKERS)
  chk.add_tlc(r2)
  chk.notes['wall_tlc_s'].append(round(r2.wall_s, 1))
  chk.notes['tlc_distinct_states'].append(r2.distinct)
  if not r2.ok:
    raise tlc.TLCError(f'as-coded design model: {r2.violated} violated:\n' + r2.out[-3000:])
  n = data['n']
  chk.require(n == len(data['universe']) and n > 50, f'vacuous: universe of {n} values')
  chk.notes['universe_size'] = n

  # 3. observe the real code
  t0 = time.time()
  obs, counters = diffspec.observe(data)
  chk.notes['wall_observe_s'] = round(time.time() - t0, 1)
  combos = len(data['collapses']) * len(data['modes']) * len(data['forms'])
  chk.evaluations += counters['calls'] + n * n          # pg.diff calls + pg.eq calls
  chk.traces += n * n * len(data['collapses']) * len(data['forms'])
  chk.notes['observed'] = counters
  chk.notes['determined_cells'] = sum(sum(sum(c) for c in row) for row in data['determined'])
  chk.require(counters['calls'] == n * n * combos, 'vacuous: not every option combination was called')
  chk.require(counters['nonempty_cells'] > counters['calls'] // 4, 'vacuous: most results are empty')
  chk.require(counters['raised'] < counters['calls'] // 4, 'vacuous: pg.diff raised on a quarter of the calls')
  chk.require(sum(row.count(1) for row in obs['eq']) > n, 'vacuous: no two distinct universe values are pg.eq')
  chk.require(chk.notes['determined_cells'] > n * n, 'vacuous: the reference is determined almost nowhere')
  for a in range(n):
    for b in range(n):
      ids = obs['cell'][a][b]
      for c in range(len(data['collapses'])):
        if any(obs['res'][k - 1]['e'] for k in ids[c * 6:(c + 1) * 6]):
          chk.distinct_case((a, b, c))
  for a, b, c, m, f in ((n // 3, n // 2, 'same_type', 'diff', 'flat'), (n - 1, n - 2, 'all', 'both', 'nest'),
                        (n // 2, n - 3, 'fn', 'same', 'flat')):
    chk.sample(diffspec.describe_call(data, a + 1, b + 1, c, m, f))

  # 4. the laws and the patch machine, evaluated by TLC on the observed entries
  r3 = tlc.check_with_json('DiffObs', _cfg('laws', tier), obs, timeout=1500)
  chk.add_tlc(r3)
  chk.notes['wall_tlc_s'].append(round(r3.wall_s, 1))
  chk.notes['tlc_distinct_states'].append(r3.distinct)
  if r3.ok:
    chk.exhaustive = True
    return
  if r3.violated in (None, 'ASSUME'):
    raise tlc.TLCError('DiffObs: observation does not fit the universe:\n' + r3.out[-3000:])
  chk.notes['first_violated_invariant'] = r3.violated
  # 5. diagnosis: TLC lists witnesses per (law, zone)
  r4 = tlc.check_with_json('DiffObs', _cfg('diag', tier), obs, name='diag-DiffObs-' + tier, timeout=1500)
  chk.add_tlc(r4)
  chk.notes['wall_tlc_s'].append(round(r4.wall_s, 1))
  chk.notes['tlc_distinct_states'].append(r4.distinct)
  if not r4.ok:
    raise tlc.TLCError('DiffObs diagnosis run failed:\n' + r4.out[-3000:])
  chk.exhaustive = True
  viols = [p for p in (r4.prints or []) if isinstance(p, (list, tuple)) and len(p) == 8 and p[0] == 'VIOL']
  chk.require(len(viols) > 0, f'invariant {r3.violated} violated but the diagnosis run lists no witness')
  by_sig = {}
  for _, law, a, b, c, m, f, zone in viols:
    by_sig.setdefault((law, zone), []).append((a, b, c, m, f))
  chk.notes['violation_classes'] = {f'{law}/{zone}': len(w) for (law, zone), w in sorted(by_sig.items())}
  for (law, zone), wit in sorted(by_sig.items()):
    for a, b, c, m, f in sorted(wit, key=lambda w: (w[0] + w[1], w))[:3]:
      detail = {'law': law, 'zone': zone, 'witnesses_printed': len(wit), 'indices': [a, b], 'collapse': c, 'mode': m,
                'form': f}
      mm = m if m in data['modes'] else 'diff'
      forms = data['forms'] if f not in data['forms'] else [f]
      for ff in forms:
        detail[ff] = diffspec.describe_call(data, a, b, c, mm, ff)
      if law == 'ModePartition':
        detail['mode_same'] = diffspec.describe_call(data, a, b, c, 'same', forms[0])
        detail['mode_both'] = diffspec.describe_call(data, a, b, c, 'both', forms[0])
      if law == 'Symmetric':
        detail['swapped'] = diffspec.describe_call(data, b, a, c, mm, forms[0])
      chk.violation({'law': law, 'zone': zone}, detail)


def replay(chk, path):
  """Re-runs the (deterministic) check with the tier and seed recorded in the replay file."""
  rec = json.loads(open(path).read())
  chk.tier = rec.get('tier', chk.tier)
  chk.seed = rec.get('seed', chk.seed)
  print(f'replaying {rec.get("signature")} at tier={chk.tier} seed={chk.seed}')
  run(chk)
