"""C14 - evolution operators are closed over valid DNA and never corrupt their inputs."""
from __future__ import annotations

import collections
import json
import multiprocessing as mp
import os
import time
from pathlib import Path

from pgverif import evo, tlc

META = {
    'level': 'model_checking',
    'technique': 'TLA+ specs Evo.tla / EvoAlg.tla (list semantics of the composition algebra over deterministic and '
                 'abstract random selectors; TLC checks MembersOnly, Count, DetUnique and the documented operator laws '
                 'for every expression of depth <= 1-2 on every population of <= 3 individuals) and EvoGeno.tla (the '
                 'valid-DNA sets of 9 small spaces, computed and exported by TLC); C->S batched trace validation with '
                 'EvoTrace.tla: every shipped mutator / recombinator / selector class (several parameterisations, '
                 'seeds) and generated operator expressions are applied to populations of TLC-generated valid DNAs, '
                 'every application is logged and TLC decides Closed (IsValid), Aligned, InputsUnchanged, MembersOnly, '
                 'Count, SubMultiset, SeedDeterministic and, for deterministic-selector expressions, '
                 'out = EvalSet(expr, in) computed by the specification',
    'level_text': 'The contracts of the property (closure over Valid(spec), alignment, purity, selector membership and '
                  'count, seed determinism) and the exact list semantics of the composition operators are TLA+ '
                  'definitions; TLC proves on the model that composition preserves the selector contract and decides '
                  'them on the recorded behaviour of every operator class over all valid DNAs of small conditional / '
                  'multi-choice spaces, where the unit tests pin one seed and one output per operator.',
    'level_note': 'Bounded: spaces of <= 14 DNAs (plus one with a float point), populations of 1-4 individuals (the same '
                  'object may occur twice), 2-5 seeds, expressions to depth 2 (3 thorough). Trusted: TLC, the JSON '
                  'bridge, the nested DNA encoding (checked against iter_dna for every space), the alignment probe '
                  '(node.spec identity + to_dict views against a rebuilt DNA). Not compared: results of the set '
                  'operators on operands that contain the same individual twice (documented and coded results differ in '
                  'whether repetitions are kept), Top/Bottom with cluster=True, tie order among equal fitness.',
}


def _record(chk, data, thorough):
  args = []
  for n, sp, v in zip(data['names'], data['specs'], data['valid']):
    n_pops = 6 if thorough else 3
    for part in list(range(n_pops)) + ['all']:
      args.append((n, sp, v, chk.seed, thorough, n_pops, 4 if thorough else 2, 60 if thorough else 12, part))
  procs = int(os.environ.get('VERIF_REPLAY_PROCS', '12'))
  with mp.get_context('fork').Pool(min(procs, len(args))) as pool:
    parts = pool.map(evo.record_space, args, chunksize=1)
  return [t for p in parts for t in p]


def _validate(chk, traces, stats):
  r = tlc.check_with_json('EvoTrace', 'C14_trace.cfg', traces, ndjson=True, var='TRACE_FILE', workers=1, timeout=1500,
                          name=f'trace-EvoTrace-{chk.seed}-{chk.tier}')
  chk.add_tlc(r)
  chk.notes.setdefault('tlc_runs', []).append(r.summary())
  if not r.ok:
    raise tlc.TLCError('EvoTrace: TLC reported ' + str(r.violated) + '\n' + r.out[-3000:])
  by_id = {t['id']: t for t in traces}
  rejected = 0
  for p in r.prints or []:
    if not p or p[0] not in ('REJECT', 'INCOMPLETE'):
      continue
    if p[0] == 'INCOMPLETE':
      raise tlc.TLCError(f'EvoTrace did not judge every event of trace {p[1]} (judged {p[2]})')
    tr = by_id[p[1]]
    for idx, clauses in sorted(p[2], key=lambda x: x[0]):
      ev = tr['ev'][idx - 1]
      rejected += 1
      for c in sorted(clauses):
        stats[f'rejected:{ev["cls"]}:{c}'] += 1
        sig = {'op': ev['cls'], 'clause': c, 'error': ' '.join(ev['raised'].split()[:3]) if c == 'NoRaise' else '',
               'space': tr['space']}
        known = chk.violation(sig, {'trace': tr['id'], 'space': tr['space'], 'event_index': idx, 'operator': ev['op'],
                                    'seed': ev['seed'], 'inputs': [x['dna'] for x in ev['in']],
                                    'outputs': [{k: o[k] for k in ('id', 'dna', 'valid', 'aligned')} for o in ev['out']],
                                    'inputs_after': ev['in_after'], 'raised': ev['raised'],
                                    'event': ev, 'spec': tr['spec']})
        if known and sum(1 for s in chk.samples if isinstance(s, dict) and s.get('known_finding')) < 1:
          chk.sample({'known_finding': True, 'signature': sig, 'space': tr['space'], 'operator': ev['op'],
                      'inputs': [x['dna'] for x in ev['in']], 'outputs': [o['dna'] for o in ev['out']],
                      'aligned': [o['aligned'] for o in ev['out']]})
  return rejected


def run(chk):
  thorough = chk.tier == 'thorough'
  chk.rule = ('one case = one application of one operator (class x parameterisation x seed) or operator expression to one '
              'population of valid DNAs of one space; distinct = distinct (operator, space, inputs, outputs); non-trivial = '
              'the application returned at least one individual')
  chk.assumptions += [
      'fitness values are distinct per individual (tie order of Top/Bottom is not compared)',
      'the exact result of | & - ^ ~ is compared only when no operand contains the same individual twice',
      'float decisions are compared in thousandths',
      'history independence is exact for operators without random state; for seeded operators two instances with the '
      'same seed must agree along the same call sequence',
  ]
  stats = collections.Counter()
  # 1. design level: the algebra preserves the selector contract
  t0 = time.time()
  r = tlc.run('Evo', 'C14_model_thorough.cfg' if thorough else 'C14_model.cfg', timeout=1500)
  chk.add_tlc(r)
  chk.notes.setdefault('tlc_runs', []).append(r.summary())
  if not r.ok:
    raise tlc.TLCError(f'Evo.tla: {r.violated} violated in the model:\n' + r.out[-3000:])
  chk.require(r.distinct > 10000, f'Evo.tla: suspiciously small state space ({r.distinct})')
  t1 = time.time()
  # 2. spaces and valid-DNA sets from TLC
  data, r = tlc.export_json('EvoExport', 'C14_export.cfg', name=f'export-EvoExport-{chk.seed}-{chk.tier}')
  chk.add_tlc(r)
  # the nested encoding must describe exactly the DNAs the real space enumerates
  for n, sp, v in zip(data['names'], data['specs'], data['valid']):
    if not v:
      continue
    space = evo.SpaceC(n, sp, v)
    real = sorted(repr(d.to_numbers()) for d in space.spec.iter_dna())
    mine = sorted(repr(evo.flatten(sp, x, [])) for x in v)
    chk.require(real == mine, f'space {n}: the valid set exported by TLC is not what iter_dna enumerates')
    stats['valid_dnas_from_tlc'] += len(v)
  # 3. record and validate
  traces = _record(chk, data, thorough)
  t2 = time.time()
  n_events = sum(len(t['ev']) for t in traces)
  rejected = _validate(chk, traces, stats)
  t3 = time.time()
  chk.notes['timing_s'] = dict(model=round(t1 - t0, 1), record=round(t2 - t1, 1), validate=round(t3 - t2, 1))
  chk.traces += len(traces)
  chk.evaluations += n_events
  for t in traces:
    for ev in t['ev']:
      stats['events:' + ev['kind']] += 1
      stats['class:' + ev['cls']] += 1
      if ev['det'] and ev['kind'] in ('selector', 'expr'):
        stats['exact_semantics_compared'] += 1
      if ev['out']:
        chk.distinct_case((ev['op'], ev['expr'], t['space'], [x['dna'] for x in ev['in']], [o['dna'] for o in ev['out']]))
      if any(o['id'] == 0 for o in ev['out']):
        stats['events_with_fresh_outputs'] += 1
      if ev['cls'] == 'mutators.Swap' and any(o['dna'] != i['dna'] for o, i in zip(ev['out'], ev['in'])):
        stats['swap_changed_dna'] += 1
      if ev['raised']:
        stats['raised:' + ev['cls']] += 1
      if ev['calls']:
        stats['instance_reuse_calls' + (':no_random_state' if ev['rngfree'] else ':seeded')] += len(ev['calls'])
        stats['instance_reused:' + ev['cls']] += 1
        if any(c['out'] != ev['calls'][1]['out'] for c in ev['calls'] if c['what'].startswith('value-equal')):
          stats['new_fitness_changed_result:' + ev['cls']] += 1
  chk.count('events_validated', n_events)
  chk.count('events_rejected', rejected)
  chk.notes['event_stats'] = dict(sorted(stats.items()))
  for t in traces[:2]:
    ev = [e for e in t['ev'] if e['kind'] in ('mutator', 'recombinator') and e['out']][:1] + \
         [e for e in t['ev'] if e['kind'] == 'expr' and e['det'] and len(e['out']) > 1][:1]
    for e in ev:
      chk.sample({'space': t['space'], 'operator': e['op'], 'expr': e['expr'] if e['det'] else None, 'seed': e['seed'],
                  'inputs': [x['dna'] for x in e['in']], 'outputs': [{'id': o['id'], 'dna': o['dna']} for o in e['out']]})
  # vacuity guards
  for kind in ('mutator', 'recombinator', 'selector', 'expr'):
    chk.require(stats['events:' + kind] > 0, f'vacuous: no {kind} event')
  for cls in ('mutators.Uniform', 'mutators.Swap', 'recombinators.Uniform', 'recombinators.Sample', 'recombinators.Average',
              'recombinators.WeightedAverage', 'recombinators.KPoint', 'recombinators.Segmented',
              'recombinators.PartiallyMapped', 'recombinators.Order', 'recombinators.Cycle', 'selectors.Random',
              'selectors.Sample', 'selectors.Proportional', 'selectors.First', 'selectors.Last', 'selectors.Top',
              'selectors.Bottom', 'expr[selectors]'):
    chk.require(stats['class:' + cls] > 0, f'vacuous: operator class {cls} never applied')
  chk.require(stats['events_with_fresh_outputs'] > 0, 'vacuous: no operator produced a new DNA')
  chk.require(stats['exact_semantics_compared'] > 100, 'vacuous: exact algebra semantics hardly compared')
  chk.require(stats['swap_changed_dna'] > 0, 'vacuous: Swap never swapped')
  chk.require(stats['instance_reuse_calls:no_random_state'] > 0 and stats['instance_reuse_calls:seeded'] > 0,
              'vacuous: operator instances never re-applied')
  for cls in ('recombinators.Average', 'recombinators.WeightedAverage', 'recombinators.Sample', 'recombinators.Uniform',
              'mutators.Uniform', 'selectors.Sample', 'selectors.Proportional', 'selectors.Top'):
    chk.require(stats['instance_reused:' + cls] > 0, f'vacuous: no instance of {cls} was applied repeatedly')
  chk.require(stats['new_fitness_changed_result:recombinators.WeightedAverage'] > 0,
              'vacuous: fitness-based weights never changed the result of WeightedAverage (no float space / equal floats)')
  chk.require(sum(v for k, v in stats.items() if k.startswith('raised:')) < n_events // 20,
              'more than 5% of the applications raised: the harness does not drive the operators properly')


def replay(chk, path):
  v = json.loads(Path(path).read_text())
  d = v['detail']
  traces = [dict(id=d['trace'], space=d['space'], spec=d['spec'], ev=[evo.rerecord(d['space'], d['spec'], d['event'])])]
  stats = collections.Counter()
  _validate(chk, traces, stats)
  chk.traces += 1
  chk.evaluations += 1
  chk.sample({'replayed_event': d['operator'], 'space': d['space']})
