"""C18 - symbolized callables keep Python call semantics."""
import json

from pgverif import callable_replay as cr
from pgverif import tlc

META = {
    'level': 'model_checking',
    'technique': 'TLA+ spec Callable.tla: Python argument binding (BindV) + the functor life cycle '
                 '(Construct / SetAttr / DelAttr / ordered multi-entry Rebind incl. nested paths / Clone / JsonRT / Call with '
                 'override_args and ignore_extra_args, each in several value modes: distinct, equal on both routes, as bound, boxed) '
                 'as a state machine; TLC checks that the effective call is well defined and that full / late binding '
                 'coincide with a direct call, exports the binding table, and simulates life cycles; the driver generates '
                 'the Python function of every signature (own defaults truthy / None / falsy; argument values concretised as distinct, '
                 'None or falsy), validates BindV against the interpreter, symbolizes with and without explicit value specs, and replays table and '
                 'behaviours through pg.functor, pg.symbolize(fn), a pg.Object subclass and pg.symbolize(cls) (also .partial)',
    'level_text': 'Callable.tla models Python\'s binding algorithm for every signature shape (0-3 positional with/without '
                  'defaults, *args, keyword-only with/without default, **kw) and the documented merge of construction-time, '
                  'attribute-time and call-time arguments of a functor. TLC proves on the model that binding everything at '
                  'construction or everything at call time equals the direct call and that calls never change the bound '
                  'state; the exported table (160 signatures x 320 call shapes) is first checked against the interpreter '
                  'itself and then against six ways of symbolic binding; simulated life cycles are stepped through real '
                  'functors comparing results, error kind, sym_init_args, clone and JSON round trips.',
    'level_note': 'Bounded: <= 3 positional, 2 keyword-only, 2 undeclared keyword names, <= 4 positional arguments; '
                  'positional-only parameters, call-time *args on top of prebound *args, MISSING_VALUE as an argument, a value equal to the default and '
                  'type-check-disabled mode are don\'t-cares (not generated). Error messages are never compared, only the '
                  'TypeError family. Trusted: TLC, the behaviour parser, the function generator in callable_replay.py '
                  '(itself cross-checked: interpreter vs BindV on every pair).',
}


def _report(chk, signature, detail):
  """At most 3 witnesses per signature reach chk.violation (core keeps 50 in all); the rest is only counted."""
  key = json.dumps(signature, sort_keys=True)
  seen = chk.notes.setdefault('divergences_by_signature', {})
  seen[key] = seen.get(key, 0) + 1
  if seen[key] <= 3:
    chk.violation(signature, detail)


def _model(chk, cfg, timeout=1500):
  r = tlc.run('Callable', cfg, timeout=timeout)
  chk.add_tlc(r)
  chk.notes.setdefault('tlc_runs', []).append(r.summary())
  if not r.ok:
    raise tlc.TLCError(f'{cfg}: {r.violated} violated in the model:\n' + r.out[-3000:])
  chk.require(r.distinct > 1000, f'{cfg}: suspiciously small state space ({r.distinct})')


def _mirror(chk):
  """TLC searches the as-coded merge rule for a disagreement with a direct call; the counter-example is replayed."""
  r = tlc.run('Callable', 'C18_mirror.cfg', timeout=600)
  chk.add_tlc(r, count_states=False)
  chk.require(not r.ok and r.violated == 'LateBindAgrees' and r.error_trace,
              'mirror model: TLC did not exhibit the same-call positional+keyword counter-example')
  last = r.error_trace[-1]['state']
  sig, act = last['sig'], last['act']
  gen = cr.generated(sig)
  pos, kws = cr.valued_args(act[1], act[2])
  direct = cr.outcome(lambda: gen.fn(*pos, **kws))
  late = cr.outcome(lambda: gen.functor()(*pos, **kws))
  chk.notes['mirror_counterexample'] = {'function': gen.src.splitlines()[0], 'call': [pos, kws],
                                        'direct': direct, 'functor_late': late,
                                        'reproduced_on_code': direct[0] != late[0]}


def _table(chk, thorough):
  data, r = tlc.export_json('CallableExport', 'C18_export_quick.cfg', timeout=900)
  chk.add_tlc(r, count_states=False)
  sigs, calls, res = data['sigs'], data['calls'], data['res']
  chk.require(len(sigs) >= 100 and len(calls) >= 100, 'vacuous: binding table too small')
  kinds = {}
  n_direct = 0
  sig_checked = 0
  npal = len(cr.PALETTES)
  for i, sig in enumerate(sigs):
    # generated signature of every symbolic class, for every variant of the function's own defaults
    for dv in cr.DEFAULT_VARIANTS:
      gen = cr.generated(sig, dv)
      want = cr.expected_signature(gen.fn)
      for binding, cls in (('functor', gen.functor), ('symbolize', gen.symbolized), ('object', gen.object_cls),
                           ('wrap', gen.wrapper)):
        got = cr.observed_signature(cls)
        sig_checked += 1
        if not cr.same_signature(want, got):
          _report(chk, {'mode': 'signature', 'binding': binding},
                  {'function': gen.src.splitlines()[0], 'expected': want, 'observed': got})
    for j, c in enumerate(calls):
      # value modes: "dist" = a keyword carries its own value (400+n), "eqv" = the value the positional route
      # would carry (300+n), so that a duplicated argument has EQUAL values on both routes
      modes = ('dist', 'eqv') if thorough else (('eqv',) if (i + j) % 2 else ('dist',))
      for mi, mode in enumerate(modes):
        # concretisation of the values (identity / None / falsy arguments x truthy / None / falsy defaults)
        pal = cr.PALETTES[(i + 5 * j + mi) % npal]
        gen = cr.generated(sig, pal.dv)
        cell = res[i][j][mode]
        kbase = 400 if mode == 'dist' else 300
        err, exp = cr.expected_of(cell, pal)
        perr, pexp = cr.expected_partial(cell, pal)
        cr.check_direct(gen, c['nargs'], c['kw'], err, exp, kbase, pal)      # MachineryFailure if BindV != interpreter
        n_direct += 1
        kinds[err] = kinds.get(err, 0) + 1
        if thorough:
          bindings = cr.BINDINGS
        else:        # quick: the call-time path on every cell, the seven other bindings in rotation
          rot = ('functor',) + cr.BINDINGS[2:]
          bindings = ('functor-late', rot[(i + j // 2) % len(rot)])
        for b in bindings:
          kind, val, rep = cr.run_binding(gen, b, c['nargs'], c['kw'], kbase, pal)
          chk.evaluations += 1
          chk.count('table:' + b)
          chk.count('table-mode:' + mode)
          chk.count('table-values:' + pal.name)
          want_err, want = (perr, pexp) if b.endswith('-partial') else (err, exp)
          clause = None
          if want_err == 'ok':
            if kind != 'ok':
              clause, observed = 'result', kind
            elif not cr.same(val, want):
              clause, observed = 'result', 'different-value'
            elif rep is not None and rep != cr.plain(want):
              clause, observed = 'sym_init_args', 'different-value'
          elif kind != 'TypeError':
            clause, observed = 'error-kind', kind
          if clause is None and err == 'ok' and not b.endswith('-partial') and (thorough or (i + 3 * j) % 5 == 0):
            for how, (ckind, cval) in cr.run_copies(gen, b, c['nargs'], c['kw'], kbase, pal).items():
              chk.count('copies:' + how)
              if ckind != 'ok' or not cr.same(cval, exp):
                _report(chk, {'mode': 'table', 'binding': b, 'clause': how, 'expected': 'ok',
                              'observed': ckind if ckind != 'ok' else 'different-value'},
                        {'function': gen.src.splitlines()[0], 'values': pal.name,
                         'call': cr.call_args(c['nargs'], c['kw'], 300, kbase, pal), 'expected': exp, 'observed': cval})
          if clause:
            _report(chk, {'mode': 'table', 'binding': b, 'clause': clause, 'expected': want_err, 'observed': observed},
                    {'function': gen.src.splitlines()[0], 'call': cr.call_args(c['nargs'], c['kw'], 300, kbase, pal),
                     'values': mode + ' ' + pal.name,
                     'expected': want if want_err == 'ok' else f'TypeError ({want_err})', 'observed_kind': kind,
                     'observed': val, 'sym_init_args': rep})
      if (i * 7 + j) % 9973 == 0:
        chk.sample({'function': cr.generated(sig).src.splitlines()[0], 'call': cr.call_args(c['nargs'], c['kw'], 300, 400),
                    'spec_outcome': res[i][j]['dist']['err'], 'spec_result': cr.expected_of(res[i][j]['dist'])[1]})
    chk.distinct_case(('sig', cr.sig_key(sig)))
  chk.notes['table'] = {'signatures': len(sigs), 'calls': len(calls), 'direct_calls_agreeing_with_BindV': n_direct,
                        'outcome_kinds': kinds, 'generated_signatures_checked': sig_checked}
  for k in ('ok', 'toomany', 'multiple', 'unexpected', 'missing'):
    chk.require(kinds.get(k, 0) > 0, f'vacuous: no table entry with outcome {k}')
  for k in (('copies:clone', 'copies:json', 'table-mode:dist', 'table-mode:eqv') + tuple('table:' + b for b in cr.BINDINGS)
            + tuple('table-values:' + p.name for p in cr.PALETTES)):
    chk.require(chk.counters.get(k, 0) > 0, f'vacuous: {k} never exercised')
  _annotated(chk, thorough, data)


def _annotated(chk, thorough, data):
  """Symbolization with an explicit value spec: refused (ValueError) exactly when the spec says so, otherwise the
  annotated callable has the callable's own signature and binds like it (sampled cells of the table)."""
  sigs, calls, res, annot = data['sigs'], data['calls'], data['res'], data['annot']
  npal = len(cr.PALETTES)
  nk = len(cr.ANNOTATE_KINDS)
  for i, sig in enumerate(sigs):
    dvs = cr.DEFAULT_VARIANTS if thorough else (cr.DEFAULT_VARIANTS[i % len(cr.DEFAULT_VARIANTS)],)
    for dv in dvs:
      for t, (p, mode, want) in enumerate(annot[i]):
        akinds = (cr.ANNOTATE_KINDS[(i + t + cr.DEFAULT_VARIANTS.index(dv)) % nk],)
        for akind in akinds:
          kind, cls, target = cr.annotate(sig, dv, p, mode, akind)
          chk.evaluations += 1
          chk.count(f'annotate:{mode}:{want}')
          chk.count('annotate-kind:' + akind)
          sigd = {'mode': 'annotate', 'binding': akind, 'spec': mode, 'expected': want}
          where = {'function': cr.generated(sig, dv).src.splitlines()[0], 'parameter': cr.NAME[p], 'spec': mode,
                   'defaults': dv}
          if want == 'either' and kind == 'ValueError':
            continue
          if want == 'refused':
            if kind != 'ValueError':
              _report(chk, dict(sigd, clause='refusal', observed='accepted' if kind == 'ok' else kind),
                      dict(where, observed=str(cls)[:200]))
            continue
          if kind != 'ok':
            _report(chk, dict(sigd, clause='acceptance', observed=kind), dict(where, observed=str(cls)[:200]))
            continue
          exp_sig, got_sig = cr.expected_signature(target.__init__ if akind == 'wrap' else target), cr.observed_signature(cls)
          if akind == 'wrap':
            exp_sig = exp_sig[1:]          # drop self
          if not cr.same_signature(exp_sig, got_sig):
            _report(chk, dict(sigd, clause='signature', observed='different'),
                    dict(where, expected=exp_sig, observed=got_sig))
          # the annotated callable binds exactly like the callable: a few cells of the table, both binding times
          for u in range(4 if not thorough else 8):
            j = (17 * i + 29 * t + 53 * u) % len(calls)
            pals = [q for q in cr.PALETTES if q.dv == dv]
            pal = pals[(i + u) % len(pals)]
            mode_v = 'eqv' if u % 2 else 'dist'
            kbase = 300 if u % 2 else 400
            err, exp = cr.expected_of(res[i][j][mode_v], pal)
            for late in ((False,) if akind == 'wrap' else (False, True)):
              ck, cv = cr.run_annotated(cls, akind, late, calls[j]['nargs'], calls[j]['kw'], kbase, pal)
              chk.evaluations += 1
              chk.count('annotate:calls')
              bad = None
              if err == 'ok':
                if ck != 'ok':
                  bad = ck
                elif not cr.same(cv, exp):
                  bad = 'different-value'
              elif ck != 'TypeError':
                bad = ck
              if bad:
                _report(chk, dict(sigd, clause='result' if err == 'ok' else 'error-kind', observed=bad, late=late),
                        dict(where, call=cr.call_args(calls[j]['nargs'], calls[j]['kw'], 300, kbase, pal),
                             values=pal.name, expected=exp if err == 'ok' else f'TypeError ({err})', observed=cv))
  for k in ('annotate:conflict:refused', 'annotate:conflict:either', 'annotate:same:accepted', 'annotate:nodefault:accepted',
            'annotate:noneable:accepted', 'annotate:calls') + tuple('annotate-kind:' + a for a in cr.ANNOTATE_KINDS):
    chk.require(chk.counters.get(k, 0) > 0, f'vacuous: {k} never exercised')


def _lifecycle(chk, thorough):
  workers = min(8, tlc.DEFAULT_WORKERS)
  total, depth = (9600, 12) if thorough else (640, 10)
  behaviours, r = tlc.simulate('Callable', 'C18_sim.cfg', num=max(1, total // workers), depth=depth,
                               seed=chk.seed * 1000 + 1, workers=workers, timeout=1500)
  chk.add_tlc(r, count_states=False)
  chk.transitions += r.generated
  if not r.ok:
    raise tlc.TLCError(f'C18_sim.cfg: {r.violated} violated during simulation:\n' + r.out[-3000:])
  hits = {}
  for k, beh in enumerate(behaviours):
    pal = cr.PALETTES[(k // 2) % len(cr.PALETTES)]
    rp = cr.Replayer(k % 2, pal, seq=k)
    chk.count('lifecycle-values:' + pal.name)
    divs = rp.replay(beh)
    chk.traces += 1
    chk.evaluations += rp.steps_done
    chk.count('steps_replayed', rp.steps_done)
    for h, v in rp.hits.items():
      hits[h] = hits.get(h, 0) + v
    acts = [s.state['act'] for s in beh[1:]]
    if rp.steps_done:
      chk.distinct_case((cr.sig_key(beh[0].state['sig']), acts))
    if not divs:
      chk.count('behaviours_conforming')
      if len(chk.samples) < 6 and len(beh) > 6:
        chk.sample({'function': cr.generated(beh[0].state['sig'], pal.dv).src.splitlines()[0], 'behaviour': acts[:10],
                    'values': pal.name, 'flavour': 'pg.functor' if k % 2 == 0 else 'pg.symbolize'})
    for d in divs:
      st = beh[d.step].state
      observed = str(d.observed).split(':')[0] if isinstance(d.observed, str) else 'different-value'
      _report(chk, {'mode': 'lifecycle', 'clause': d.clause, 'action': st['act'][0],
                    'expected': d.exp_kind or st['res']['err'],
                     'observed': observed, 'after_json': bool(d.after_json),
                     **({'diff': d.diff} if d.diff else {}), **({'slot': 'passive'} if d.slot == 'passive' else {})},
                    {'function': cr.generated(beh[0].state['sig'], pal.dv).src.splitlines()[0],
                     'values': pal.name, 'flavour': 'pg.functor' if k % 2 == 0 else 'pg.symbolize',
                     'history': acts[:d.step], 'expected': d.expected, 'observed': d.observed})
  chk.notes['lifecycle_hits'] = dict(sorted(hits.items()))
  for q in cr.PALETTES:
    chk.require(chk.counters.get('lifecycle-values:' + q.name, 0) > 0, f'vacuous: no behaviour with values {q.name}')
  for need in ('Construct:ok', 'SetAttr', 'DelAttr', 'Rebind', 'Clone', 'JsonRT', 'Call:ok', 'Call:rebound',
               'Call:multiple', 'Call:toomany', 'Call:unexpected', 'Call:missing',
               'Construct-mode:distinct', 'Construct-mode:equal', 'Construct-mode:boxed', 'Construct-mode:asdefault',
               'Rebind:equal-to-default', 'Fork:clone', 'Fork:copy.copy', 'Fork:copy.deepcopy', 'Fork:pg.clone', 'Swap',
               'two-live:Rebind', 'two-live:SetAttr', 'two-live:DelAttr', 'two-live:Call',
               'Call-mode:distinct', 'Call-mode:equal', 'Call-mode:asbound',
               'Rebind-entries:2', 'Rebind-entries:3', 'Rebind:nested-before-top'):
    chk.require(hits.get(need, 0) > 0, f'vacuous: no replayed step {need}')


def run(chk):
  thorough = chk.tier == 'thorough'
  chk.rule = ('cases = (signature, call shape, binding) triples of the exported BindV table plus replayed steps of '
              'simulated life cycles; distinct = signatures + distinct (signature, action sequence) behaviours')
  chk.assumptions += [
      'positional-only parameters are not generated (outside the property)',
      'call-time *args when *args were prebound, MISSING_VALUE as an argument, attribute writes to *args/**kw names '
      'and type-check-disabled mode are don\'t-cares (documentation silent)',
      'after a JSON round trip the two behaviour flags are passed with the call (they are not symbolic arguments)',
  ]
  _model(chk, 'C18_model_thorough.cfg' if thorough else 'C18_model_quick.cfg')
  _model(chk, 'C18_life_thorough.cfg' if thorough else 'C18_life_quick.cfg')
  _mirror(chk)
  _table(chk, thorough)
  _lifecycle(chk, thorough)


def replay(chk, path):
  """Re-runs the (deterministic) check with the tier and seed recorded in the replay file."""
  rec = json.loads(open(path).read())
  chk.tier = rec.get('tier', chk.tier)
  chk.seed = rec.get('seed', chk.seed)
  print(f'replaying {rec.get("signature")} at tier={chk.tier} seed={chk.seed}')
  run(chk)
