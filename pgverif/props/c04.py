"""C04 - value-spec algebra: idempotent apply, acceptable default, pure apply, sound is_compatible, narrowing extend."""
from pgverif import valuespec

META = {
    'level': 'model_checking',
    'technique': 'TLA+ spec ValueSpec.tla defines the finite universes of value specs and values by grammar and the '
                 'reference acceptance Acc/App with explicit don\'t-cares; TLC checks the laws on the reference and '
                 'exports the universe (ValueSpecExport); the harness builds every spec/value with the real pg.typing API '
                 'and tabulates apply / default / is_compatible / extend on the whole universe; TLC (ValueSpecLaws, one '
                 'state per law instance) evaluates Idempotent, DefaultOK, ApplyPure, CompatSound, ExtendNarrow and '
                 'acc = Acc on the determined cells over the observed tables',
    'level_text': 'The value-spec vocabulary is modelled as a finite algebra in ValueSpec.tla (specs and values as records, '
                  'reference acceptance with don\'t-care cells, completion by apply); the laws of the property are TLA+ '
                  'formulas which TLC evaluates exhaustively, first on the reference semantics and then on the relations '
                  'observed by running the real apply / is_compatible / extend on every spec, every spec pair and every '
                  'value of the universe, so soundness is decided as a containment over all pairs instead of sampled pairs.',
    'level_note': 'Bounded: universes of 112 (quick) and +374 (thorough: numeric, sequence, mapping chunks) specs with '
                  'nesting depth <= 2 and 26-91 values each; all pairs are evaluated inside a universe, not across '
                  'universes.  Don\'t-cares: values Python equates across types (True/1/1.0) under Int/Float/Enum/frozen, '
                  'regex-constrained Str in the containment laws, default completion (containments are evaluated on the '
                  'completed value apply returns), Dict extensions compared on the shared fields, the missing-value marker. '
                  'Trusted: TLC, the Json module, the record<->pg.typing construction in pgverif/valuespec.py.',
}


def run(chk):
  chk.rule = ('cases = every (spec, value) cell, every ordered spec pair (is_compatible, extend) of the universes '
              'defined by grammar in ValueSpec.tla; distinct non-trivial = accepted cells + compatible pairs (a != b) + '
              'successful extensions; traces_validated_against_impl = number of specs whose observed relation rows '
              '(apply, default, is_compatible, extend) TLC validated against the laws')
  chk.assumptions += [
      'values that Python equates across types (True == 1 == 1.0) are don\'t-care cells of the reference',
      'regular-expression constraints are excluded from CompatSound / ExtendNarrow (as the statement says)',
      'containment laws are evaluated on completed values (what apply returns), and for Dict extensions on the shared fields',
  ]
  chk.exhaustive = True
  universes = ['quick'] + (['num', 'seq', 'map'] if chk.tier == 'thorough' else [])
  per = {}
  for u in universes:
    per[u] = valuespec.run_universe(chk, u)
  chk.notes['universes'] = per


def replay(chk, path):
  """Re-evaluates the universe of a recorded violation and reports only the instances with its signature."""
  import json  # pylint: disable=import-outside-toplevel
  rec = json.load(open(path))
  u = rec['detail']['universe']
  chk.rule = f'replay of {path}: universe {u}, signature {rec["signature"]}'
  chk.exhaustive = True
  chk.notes['universes'] = {u: valuespec.run_universe(chk, u, only_sig=rec['signature'])}
