"""C17 - scoped settings restore exactly and never leak across threads."""
from __future__ import annotations

import concurrent.futures as cf
import json
import os
import time
from types import SimpleNamespace

from pgverif import tlc

META = {
    'level': 'model_checking',
    'technique': 'TLA+ spec Scopes.tla (per-thread program stacks of scope frames; the storage mechanism of every '
                 'manager family as explicit state; the documented nesting rules as declarative operators) checked '
                 'exhaustively with TLC (NestingRule, Restores, Isolation, Narrowing, TimeitOK, QuiescentIsDefault) '
                 '+ S->C replay of TLC-simulated behaviours on real threads parked on queues, every thread reading '
                 'all getters and behavioural probes after every step',
    'level_text': 'Scopes.tla models all 20 context managers of the library: each Enter/ExitNormal/ExitByException/'
                  'Propagate step updates the mechanism state the way the code does (save/set/restore-or-delete, '
                  'stack of merged kwargs, outermost permission, cascade map, resolved detour maps, thread-local vs '
                  'process-wide evaluate function, process-wide type registry stack, timing parent pointer), and TLC '
                  'proves for every well-nested program within the bounds that the resulting view equals the '
                  'documented nesting rule, that an exit restores the view saved at the matching enter and that a '
                  'step of one thread changes no other thread\'s view except through documented process-wide '
                  'managers. Simulated behaviours (3-4 threads, nesting <= 7, all managers mixed and per family) are '
                  'replayed on real Python threads via cm.__enter__/__exit__; after each step each thread\'s getters '
                  'and probes are compared with the specification\'s view.',
    'level_note': 'Bounded: exhaustive per family to depth 3-5 (one deep thread, the others depth <= 1-2), across '
                  'families by simulation. Trusted: TLC, the value parser, the observation functions of '
                  'pgverif/scopes.py (public getters; the current timing context is read from the thread-local slot). '
                  'Process-wide managers are only exercised in globally well-nested order; apply_wrappers is not '
                  'compared across threads (documented as not thread-safe); mixing per-thread and process-wide '
                  'dynamic_evaluate at the same time is not generated (refused/undefined in the library).',
}

ALL_MGRS = ['notify', 'typecheck', 'origin', 'autocall', 'partial', 'sealed', 'accessor', 'strfmt', 'reprfmt',
            'codectx', 'viewopt', 'perm', 'ctx', 'detour', 'wrap', 'dyn', 'ldtypes', 'timeit', 'catch']


def _signature(d: dict) -> dict:
  comp = d['component']
  sig = {'clause': d['clause'], 'component': comp}
  if comp in ('dyn', 'oneof_evaluated'):
    sig['component'] = 'dyn'
    sig['case'] = 'after_per_thread_scope' if d.get('polluted_threads') else 'plain'
  return sig


def _states_of(beh, upto):
  return [{'act': s.state.get('act'), 'view': s.state['view'], 'beh': s.state['beh'], 'dc': s.state['dc']}
          for s in beh[:upto + 1]]


def _report(chk, beh, divs, n, source):
  seen = set()
  for d in divs:
    sig = _signature(d)
    key = json.dumps(sig, sort_keys=True)
    if key in seen:
      continue
    seen.add(key)
    chk.violation(sig, {'source': source, 'step': n, 'divergence': d,
                        'history': [s.state.get('act') for s in beh[1:n + 1]][-12:],
                        'behaviour': _states_of(beh, min(n, len(beh) - 1))})


def _exhaustive(chk, cfgs, workers):
  def one(cfg):
    return cfg, tlc.run('Scopes', cfg, timeout=2400, workers=workers)
  if not cfgs:
    return
  with cf.ThreadPoolExecutor(max_workers=len(cfgs)) as ex:
    results = list(ex.map(one, cfgs))
  for cfg, r in results:
    chk.add_tlc(r)
    chk.notes.setdefault('tlc_runs', []).append(dict(r.summary(), cfg=cfg))
    if not r.ok:
      # the intended model violating its own property is a defect of the specification: machinery
      raise tlc.TLCError(f'{cfg}: {r.violated} violated in the intended model:\n' + r.out[-3000:])
    chk.require(r.distinct > 100, f'{cfg}: suspiciously small state space ({r.distinct})')


def _systematic_behaviours(cfg='C17_pairs.cfg', cap=60):
  """One implementation test per TRANSITION of a small exhaustive state graph (one thread, nesting <= 2 (3 for
  the detour family), every family): every ordered pair of (manager, argument) nested in each other, each left
  normally and by exception, every refused enter / inner fault / early end in every such state.  Behaviours =
  shortest path to the source of a not yet covered edge + a greedy walk over uncovered edges."""
  nodes, edges, inits, r = tlc.dump_graph('Scopes', cfg, timeout=1200, workers=4)
  succ = {}
  for src, dst, _, _ in edges:
    succ.setdefault(src, []).append(dst)
  for v in succ.values():
    v.sort()
  parent = {i: None for i in inits}
  order = sorted(inits)
  k = 0
  while k < len(order):
    u = order[k]
    k += 1
    for v in succ.get(u, ()):
      if v not in parent:
        parent[v] = u
        order.append(v)

  def path_to(u):
    p = [u]
    while parent[p[-1]] is not None:
      p.append(parent[p[-1]])
    return p[::-1]
  covered = set()
  behaviours = []
  for u in order:
    for v in succ.get(u, ()):
      if (u, v) in covered:
        continue
      p = path_to(u) + [v]
      for a, b in zip(p, p[1:]):
        covered.add((a, b))
      cur = v
      while len(p) < cap:
        nxt = [w for w in succ.get(cur, ()) if (cur, w) not in covered]
        if nxt:
          covered.add((cur, nxt[0]))
          p.append(nxt[0])
          cur = nxt[0]
          continue
        # nothing new from here: walk (over covered edges, <= 4 steps) to the nearest state that still has one
        seen, frontier, hop = {cur: None}, [cur], None
        for _ in range(4):
          nf = []
          for x in frontier:
            for w in succ.get(x, ()):
              if w not in seen:
                seen[w] = x
                nf.append(w)
                if hop is None and any((w, z) not in covered for z in succ.get(w, ())):
                  hop = w
          if hop is not None or not nf:
            break
          frontier = nf
        if hop is None:
          break
        detour = [hop]
        while seen[detour[-1]] is not None:
          detour.append(seen[detour[-1]])
        p.extend(detour[::-1][1:])
        cur = hop
      behaviours.append([SimpleNamespace(state=nodes[x]) for x in p])
  distinct_edges = {(a, b) for a, b, _, _ in edges if a in parent}
  if not distinct_edges <= covered:
    raise tlc.TLCError(f'systematic coverage incomplete: {len(distinct_edges - covered)} transitions not covered')
  return behaviours, r, len(distinct_edges)


def _mirror(chk):
  """TLC searches the mechanisms AS CODED for a violation of the nesting rule; a counter-example is
  believed only if the real code follows the as-coded model along it."""
  from pgverif import scopes   # pylint: disable=import-outside-toplevel
  r = tlc.run('Scopes', 'C17_mirror.cfg', timeout=600, allow_violation=True, workers=4)
  chk.add_tlc(r)
  chk.notes['mirror_run'] = r.summary()
  if r.ok:
    chk.notes['mirror'] = 'as-coded model satisfies all properties'
    return
  chk.require(bool(r.error_trace) and len(r.error_trace) >= 2, 'mirror run: violation without a parsable trace')
  beh = [SimpleNamespace(state=s['state']) for s in r.error_trace]
  acts = [s.state.get('act') for s in beh[1:]]
  chk.notes['mirror'] = {'violated': r.violated, 'counterexample': acts}
  rp = scopes.Replayer(len(beh[0].state['view']))
  divs, n = rp.replay(beh)
  chk.traces += 1
  chk.evaluations += rp.observations
  chk.count('mirror_counterexample_replayed')
  if divs is None:
    # the real code does exactly what the as-coded model does, and that model breaks the rule here
    st = beh[-1].state
    act = st['act']
    chk.violation({'clause': 'nesting', 'component': 'dyn', 'case': 'after_per_thread_scope'},
                  {'source': 'TLC counter-example of the as-coded model (Mirror=TRUE), confirmed on the real code',
                   'violated': r.violated, 'history': acts, 'last_step': act,
                   'view_after': [v['dyn'] for v in st['view']],
                   'behaviour': _states_of(beh, len(beh) - 1), 'mirror': True})
  else:
    chk.notes['mirror_code_differs_from_as_coded_model'] = {'step': n, 'divergences': divs[:3]}


def run(chk):
  from pgverif import scopes   # pylint: disable=import-outside-toplevel
  thorough = chk.tier == 'thorough'
  chk.rule = ('behaviours = TLC simulation walks of Scopes.tla (family chosen per behaviour: all managers mixed or one '
              'family; 3-4 threads); one evaluation = one thread observing all getters and probes after a step; '
              'distinct = distinct action sequences; non-trivial = at least one nested scope')
  chk.assumptions += [
      'process-wide managers (load_types_for_deserialization, dynamic_evaluate(per_thread=False)) are left in '
      'globally well-nested order',
      'apply_wrappers is compared only in the thread that entered it (documented as not thread-safe)',
      'per-thread and process-wide dynamic_evaluate are never open at the same time',
      'should_call_functors_during_init() returning None is read as False',
  ]
  workers_total = tlc.DEFAULT_WORKERS
  tag = 'thorough' if thorough else 'quick'
  cfgs = [f'C17_deep_{tag}.cfg', f'C17_wide_{tag}.cfg'] + (['C17_wide3_thorough.cfg'] if thorough else [])
  with cf.ThreadPoolExecutor(max_workers=3) as ex:
    if os.environ.get('VERIF_DEV_SKIP_EXHAUSTIVE'):     # development only (mutant screening)
      cfgs = []
      chk.states = 1
    fut_ex = ex.submit(_exhaustive, chk, cfgs, max(2, workers_total // (len(cfgs) + 1)))
    sim_cfg = 'C17_sim_thorough.cfg' if thorough else 'C17_sim.cfg'
    num, depth, batches = (3000, 24, 6) if thorough else (360, 18, 1)

    def simulate_all():
      def one(b):
        return tlc.simulate('Scopes', sim_cfg, num=num // batches, depth=depth, seed=chk.seed * 1000 + b + 1,
                            name=f'C17-sim-{b}', timeout=2400)
      def prop():
        # explicit propagation (with_contextual_override) between two threads, densely: only `ctx`
        return tlc.simulate('Scopes', 'C17_sim_prop.cfg', num=400 if thorough else 120, depth=12,
                            seed=chk.seed * 1000 + 77, name='C17-sim-prop', timeout=2400)
      with cf.ThreadPoolExecutor(max_workers=batches + 1) as ex2:
        fp = ex2.submit(prop)
        return list(ex2.map(one, range(batches))) + [fp.result()]
    fut_sim = ex.submit(simulate_all)
    sys_beh, r_sys, n_edges = _systematic_behaviours()
    sims = fut_sim.result()
    chk.notes['t_sim_done'] = round(time.time() - chk.t0, 1)
    fut_ex.result()
    chk.notes['t_exhaustive_done'] = round(time.time() - chk.t0, 1)
  chk.exhaustive = True
  _mirror(chk)

  hits = {}
  nproc = min(8, max(2, (os.cpu_count() or 4) // 2))
  chk.add_tlc(r_sys, count_states=False)
  chk.notes['systematic'] = {'cfg': 'C17_pairs.cfg', 'states': r_sys.distinct, 'transitions_covered': n_edges,
                             'behaviours': len(sys_beh)}
  chk.require(len(sys_beh) > 500, 'vacuous: systematic transition coverage produced hardly any behaviour')
  for behaviours, r in [(sys_beh, None)] + list(sims):
    if r is None:
      results = scopes.replay_many(behaviours, nproc)
      for beh, (divs, n, h, nobs) in zip(behaviours, results):
        chk.traces += 1
        chk.evaluations += nobs
        chk.count('systematic_behaviours')
        for k, v in h.items():
          hits[k] = hits.get(k, 0) + v
        if divs:
          chk.count('behaviours_diverging')
          _report(chk, beh, divs, n, 'C17_pairs.cfg (one test per transition)')
      chk.notes['t_systematic_replay_done'] = round(time.time() - chk.t0, 1)
      continue
    chk.add_tlc(r, count_states=False)
    chk.transitions += r.generated
    if not r.ok:
      raise tlc.TLCError(f'{sim_cfg}: {r.violated} violated during simulation:\n' + r.out[-3000:])
    results = scopes.replay_many(behaviours, nproc)
    for beh, (divs, n, h, nobs) in zip(behaviours, results):
      chk.traces += 1
      chk.evaluations += nobs
      for k, v in h.items():
        hits[k] = hits.get(k, 0) + v
      acts = [s.state['act'] for s in beh[1:]]
      if h.get('nested_enter'):
        chk.distinct_case(acts)
      if divs:
        chk.count('behaviours_diverging')
        _report(chk, beh, divs, n, sim_cfg)
      else:
        chk.count('behaviours_conforming')
        if len(chk.samples) < 4 and len(acts) >= 8 and h.get('nested_enter', 0) >= 3:
          chk.sample({'spec': 'Scopes', 'cfg': sim_cfg, 'family': sorted(beh[0].state['fam']),
                      'actions': acts[:14], 'final_view_thread1': beh[-1].state['view'][0]})
  chk.notes['t_replay_done'] = round(time.time() - chk.t0, 1)
  chk.notes['hits'] = dict(sorted(hits.items()))
  # vacuity guards: every manager entered and left, both exit kinds, propagation, nesting of a manager in itself
  for m in ALL_MGRS:
    chk.require(hits.get('enter:' + m, 0) > 0, f'vacuous: manager {m} never entered')
    chk.require(hits.get('exit:' + m, 0) > 0, f'vacuous: manager {m} never left')
  chk.require(hits.get('propagate', 0) > 50, 'vacuous: hardly any explicit propagation')
  for k in ('exit:ExitNormal', 'exit:ExitByException', 'propagate', 'exit:ctxprop', 'dont_care:wrap',
            'exit_outcome:raised', 'exit_outcome:suppressed', 'exit_outcome:propagated', 'exit_callback_run',
            'enter_refused:dyn', 'enter_refused:detour', 'enter_refused:ldtypes', 'enter_refused:catch',
            'enter_refused:wrap', 'end_early', 'inner_fault_raised:detour',
            'inner_fault_raised:dyn', 'inner_fault_raised:viewopt', 'handle_checked:perm', 'handle_checked:detour',
            'handle_checked:viewopt', 'handle_checked:ctx', 'handle_checked:timeit'):
    chk.require(hits.get(k, 0) > 0, f'vacuous: {k} never happened')
  for m in ('sealed', 'perm', 'ctx', 'detour', 'strfmt', 'viewopt', 'codectx', 'dyn', 'ldtypes', 'timeit', 'notify'):
    chk.require(hits.get('nested_same_mgr:' + m, 0) > 0, f'vacuous: {m} never nested directly in itself')
  chk.require(chk.counters.get('behaviours_conforming', 0) > 0, 'vacuous: no behaviour replayed to the end')


def replay(chk, path):
  """Re-executes the behaviour stored in a replay file."""
  from pgverif import scopes   # pylint: disable=import-outside-toplevel
  data = json.loads(open(path).read())
  states = data['detail']['behaviour']
  beh = [SimpleNamespace(state=s) for s in states]
  # JSON turned the sets into lists: restore what the comparison needs
  for s in beh:
    for v in s.state['view']:
      v['ldtypes'] = frozenset(v['ldtypes'])
      if isinstance(v['viewopt'], dict):
        v['viewopt'] = {int(k): x for k, x in v['viewopt'].items()}
  rp = scopes.Replayer(len(beh[0].state['view']))
  divs, n = rp.replay(beh)
  chk.traces += 1
  chk.evaluations += rp.observations
  chk.states = chk.states or 1
  chk.transitions = chk.transitions or len(beh)
  chk.sample({'replayed': path, 'steps': len(beh) - 1, 'diverged_at': n if divs else None})
  if data['detail'].get('mirror') and divs is None:
    chk.violation(data['signature'], data['detail'])
  elif divs:
    _report(chk, beh, divs, n, 'replay:' + path)
