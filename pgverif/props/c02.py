"""C02 - pg.List / pg.Dict behave as Python list / dict under every mutation history."""
from pgverif import pycontainers as pc
from pgverif import symtree_check, tlc

META = {
    'level': 'model_checking',
    'technique': 'TLA+ reference semantics of list/dict (PyContainers.tla + PySeq.tla: CPython index, slice.indices, '
                 'extended-slice, insertion-order rules) checked by TLC and exported case by case; three-way comparison '
                 'reference vs builtin list/dict (validates the spec) vs pg.List/pg.Dict for EVERY single operation on EVERY '
                 'small container; histories by S->C replay of SymTree.tla behaviours (content, outcome class, return value)',
    'level_text': 'The specification is the list/dict semantics itself: every API call (reads, writes, slices with all '
                  'signs of bounds and steps, in-place operators, update/setdefault/popitem, rebind extensions) is an operator '
                  'or action whose result TLC computes; exhaustive single operations over all lists of length <= 3 (<= 4 '
                  'thorough) and all dicts of <= 2 entries in both insertion orders, and simulated histories of depth 30-40 '
                  'over trees of lists/dicts are compared with the real containers after every call.',
    'level_note': 'The reference is validated against the builtin containers in the same run (a disagreement is a machinery '
                  'failure, exit 2).  MISSING written into a *list*, container methods under disabled accessors and int keys '
                  'in rebind paths are not generated.  Keys are concretised as plain str / str with dot / digits-only str / int; dict '
                  'values include None and 0.  The documented rebind extension is checked for every pair of index entries '
                  '(replace / delete / insert) on a 12-element list (one- and two-digit indices; RebindLaw).',
}

CLAUSES = {'content', 'outcome', 'ret'}


def single_ops(chk, cfg):
  data, r = tlc.export_json('PyContainers', cfg, timeout=1500)
  chk.add_tlc(r)
  chk.require(r.ok, 'PyContainers laws violated: ' + str(r.violated))
  n_l = n_d = 0
  cnt = {}
  for i, xs in enumerate(data['lists']):
    for j, op in enumerate(data['lops']):
      want = pc.expected(data['lres'][i][j])
      got_b = pc.list_apply(xs, op, symbolic=False)
      if op['o'] not in ('tojson',) and (got_b[0], got_b[1], got_b[2]) != (want[0], want[1], want[2]):
        chk.require(False, f'PyContainers.tla disagrees with builtin list: {xs} {op} spec={want} builtin={got_b[:3]}')
      got = pc.list_apply(xs, op, symbolic=True)
      n_l += 1
      chk.evaluations += 1
      key = op['o'] + ':' + want[0]
      cnt[key] = cnt.get(key, 0) + 1
      clause = None
      if got[0] != want[0]:
        clause = 'outcome'
      elif got[2] != want[2]:
        clause = 'content'
      elif got[1] != want[1]:
        clause = 'ret'
      else:
        bad = [k for k, v in got[3].items() if v is False]
        if bad:
          clause = bad[0]
      if clause:
        chk.violation({'container': 'list', 'op': op['o'], 'clause': clause,
                       'step_sign': ('neg' if op['c'] != 9999 and op['c'] < 0 else 'pos') if 'slice' in op['o'] else 'n/a'},
                      {'list': xs, 'op': op, 'spec': want, 'impl': got})
      elif len(chk.samples) < 2 and op['o'] == 'setslice' and want[0] == 'ok' and len(xs) == 3:
        chk.sample({'list': xs, 'op': op, 'result': want})
      chk.distinct_case(('l', i, j))
  for i, d in enumerate(data['dicts']):
    for j, op in enumerate(data['dops']):
      want = pc.expected(data['dres'][i][j])
      if op['o'] != 'set_missing':
        got_b = pc.dict_apply(d, op, symbolic=False)
        if (got_b[0], got_b[1], got_b[2]) != (want[0], want[1], want[2]):
          chk.require(False, f'PyContainers.tla disagrees with builtin dict: {d} {op} spec={want} builtin={got_b[:3]}')
      got = pc.dict_apply(d, op, symbolic=True)
      n_d += 1
      chk.evaluations += 1
      key = 'd.' + op['o'] + ':' + want[0]
      cnt[key] = cnt.get(key, 0) + 1
      clause = None
      if got[0] != want[0]:
        clause = 'outcome'
      elif got[2] != want[2]:
        clause = 'content'
      elif got[1] != want[1]:
        clause = 'ret'
      else:
        bad = [k for k, v in got[3].items() if v is False]
        if bad:
          clause = bad[0]
      if clause:
        chk.violation({'container': 'dict', 'op': op['o'], 'clause': clause}, {'dict': d, 'op': op, 'spec': want, 'impl': got})
      elif len(chk.samples) < 4 and op['o'] == 'update' and len(d) == 2:
        chk.sample({'dict': d, 'op': op, 'result': want})
      chk.distinct_case(('d', i, j))
  # batched rebind with two index entries on a 12-element list (indices of one and two digits)
  n_r = 0
  for j, op in enumerate(data['rbops']):
    want = ('ok', list(data['rbres'][j]))
    got_b = pc.rebind_apply(data['rblist'], op, symbolic=False)
    chk.require(got_b == want, f'PyContainers.tla disagrees with builtin list on rebind: {op} spec={want} builtin={got_b}')
    got = pc.rebind_apply(data['rblist'], op, symbolic=True)
    n_r += 1
    chk.evaluations += 1
    cnt['rebind2:ok'] = cnt.get('rebind2:ok', 0) + 1
    if got != want:
      chk.violation({'container': 'list', 'op': 'rebind', 'clause': 'outcome' if got[0] != want[0] else 'content',
                     'kinds': op['ki'] + '+' + op['kj'], 'digits': f"{len(str(op['i']))}+{len(str(op['j']))}"},
                    {'list': data['rblist'], 'op': op, 'spec': want, 'impl': got})
    chk.distinct_case(('r', j))
  chk.notes['single_op_cases'] = {'list': n_l, 'dict': n_d, 'rebind_two_entries': n_r}
  chk.notes['single_op_hits'] = dict(sorted(cnt.items()))
  for need in ('getslice:ok', 'setslice:ok', 'setslice:ValueError', 'delslice:ok', 'pop:IndexError', 'remove:ValueError',
               'd.getitem:KeyError', 'd.popitem:KeyError', 'd.set_missing:ok', 'd.update:ok', 'd.ior:ok', 'imul:ok', 'iadd:ok',
               'rebind2:ok', 'd.setdefault:ok'):
    chk.require(cnt.get(need, 0) > 0, f'vacuous: no single-op case {need}')


def run(chk):
  thorough = chk.tier == 'thorough'
  chk.exhaustive = True
  chk.rule = ('single operations: every (container, operation, argument) triple of the exported universe (exhaustive); '
              'histories: TLC simulation walks of SymTree.tla; distinct = distinct triples / action sequences')
  single_ops(chk, 'C02_export_thorough.cfg' if thorough else 'C02_export.cfg')
  hits = {}
  plan = [('C01_sim.cfg', 1200, 30)] if not thorough else [('C01_sim.cfg', 5000, 40), ('C01_sim_obj.cfg', 2000, 40)]
  for cfg, num, depth in plan:
    h = symtree_check.replay_simulated(chk, cfg, CLAUSES, num, depth, chk.seed + 17, name='C02-' + cfg,
                                       batches=1 if not thorough else 8)
    for k, v in h.items():
      hits[k] = hits.get(k, 0) + v
  chk.notes['history_action_outcome_hits'] = dict(sorted(hits.items()))
  for need in ('ListSetSlice:ok', 'ListDelSlice:ok', 'ListPop:ok', 'ListPop:IndexError', 'DictPop:KeyError', 'Rebind:ok',
               'ListIMul:ok', 'DictUpdate:ok', 'ListSetSlice:ValueError'):
    chk.require(hits.get(need, 0) > 0, f'vacuous: no replayed step {need}')


def replay(chk, path):
  """./check C02 --replay FILE: a recorded history is re-run through SymTree.tla; a recorded single operation is
  looked up again in the case table TLC exports from PyContainers.tla and re-run on the real container."""
  import json  # pylint: disable=import-outside-toplevel
  rec = json.loads(open(path).read())
  det = rec['detail']
  if 'history' in det:
    symtree_check.replay_file(chk, path, CLAUSES, None)
    return
  data, r = tlc.export_json('PyContainers', 'C02_export_thorough.cfg' if rec.get('tier') == 'thorough' else 'C02_export.cfg',
                            timeout=1500)
  chk.add_tlc(r)
  op = det['op']
  chk.traces += 1
  chk.evaluations += 1
  chk.distinct_case(('replay', json.dumps(det['op'], sort_keys=True)))
  if 'ki' in op:
    j = data['rbops'].index(op)
    want = ('ok', list(data['rbres'][j]))
    got = pc.rebind_apply(data['rblist'], op, symbolic=True)
    bad = got != want
    sig = rec['signature']
  elif 'list' in det:
    i, j = data['lists'].index(det['list']), data['lops'].index(op)
    want = pc.expected(data['lres'][i][j])
    got = pc.list_apply(det['list'], op, symbolic=True)
    bad = (got[0], got[1], got[2]) != (want[0], want[1], want[2]) or any(v is False for v in got[3].values())
    sig = rec['signature']
  else:
    i, j = data['dicts'].index(det['dict']), data['dops'].index(op)
    want = pc.expected(data['dres'][i][j])
    got = pc.dict_apply(det['dict'], op, symbolic=True)
    bad = (got[0], got[1], got[2]) != (want[0], want[1], want[2]) or any(v is False for v in got[3].values())
    sig = rec['signature']
  chk.sample({'replayed_case': det.get('list', det.get('dict')), 'op': op, 'spec': list(want), 'impl': list(got)[:3]})
  if bad:
    chk.violation(sig, {**{k: det[k] for k in det if k in ('list', 'dict', 'op')}, 'spec': want, 'impl': got})
  else:
    print('replay: the case conforms on this tree')
