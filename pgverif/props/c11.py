"""C11 - search-space enumeration is exact: every valid DNA once, nothing else."""
import json

from pgverif import geno, tlc

META = {
    'level': 'model_checking',
    'technique': 'TLA+ spec Geno.tla: declarative valid-DNA set, the space_size recurrences and the next_dna odometer as '
                 'a transition system, checked exhaustively by TLC for every spec of a grammar-generated universe '
                 '(Increasing, Exact: visited = Valid and |visited| = Size at termination, Faithful); a transcription of validate is '
                 'searched by TLC for accepted invalid inputs (GenoValidate.tla: intended rules have no gap, today\'s rules do); then '
                 'observed-relation law checking: iter_dna / space_size / validate / DNA(spec=) / random_dna / Sweeping '
                 'are run on the real pg.geno objects for every spec of the universe plus one-step corruptions generated '
                 'by TLC, and TLC (GenoLaws.tla) evaluates the set equalities and acceptance laws on the observations',
    'level_text': 'The search-space grammar, its valid-DNA set, the counting recurrences and the odometer are an explicit '
                  'TLA+ model; TLC proves on every specification of a bounded universe that the odometer visits exactly '
                  'the valid set in strictly increasing order and that the size formula counts it. The real pg.geno code '
                  'is then bound to the same model: for every specification of the universe the DNAs it iterates, its '
                  'size, its validate/bind verdicts on valid DNAs and on TLC-generated one-step corruptions, its random '
                  'DNAs and the Sweeping proposals are recorded and TLC evaluates the property\'s set equalities on them.',
    'level_note': 'Bounded: specs with <= 3 decision points per space, <= 3 (4) candidates, conditional nesting depth <= 2, '
                  'space size <= 200 in the model, <= 30 (quick) / 100 (thorough) when run on the real code; corruptions are one step away from a sample of valid DNAs '
                  'per spec; floats are judged on the atom classes {below, min, inside, max, above} with an RNG stub '
                  'answering min/middle/max; custom decision points accept any string. Trusted: TLC, the JSON bridge, '
                  'the projection DNA -> (value, children) tree.',
}

QUICK = dict(model='C11_quick.cfg', export='C11_export_quick.cfg', export_inf='C11_export_inf.cfg',
             sweep_max=16, resume_max=10, next_max=2, random=2, law_chunks=6)
THOROUGH = dict(model='C11_thorough.cfg', export='C11_export_thorough.cfg', export_inf='C11_export_inf.cfg',
                sweep_max=60, resume_max=40, next_max=4, random=6, law_chunks=12)


def _weight(e):
  return 10 + max(e['size'], 0) * 2 + len(e['probes'])


def _oweight(o):
  return 10 + len(o['iter']) * 3 + len(o['probes'])


def _snippet(js, tree, what):
  return (f'# spec {geno.spec_str(js)}; DNA {geno.tree_str(tree)}\n'
          f'from pgverif import geno; import json\n'
          f'spec = geno.build_space(json.loads({json.dumps(json.dumps(js))}))\n'
          f'dna = geno.mk_dna(json.loads({json.dumps(json.dumps(tree))}))\n'
          f'{what}')


def evaluate(chk, entries, opts, name):
  """observe -> TLC laws -> verdicts.  Returns (observations, failures)."""
  with geno.phase(chk, 'observe_real_code'):
    obs = geno.observe_parallel('observe_c11', entries, chk.seed, opts, weight=_weight)
  with geno.phase(chk, 'tlc_laws'):
    fails, results = geno.laws_parallel('GenoLaws', 'C11_laws.cfg', obs, opts['law_chunks'], name, weight=_oweight)
  for r in results:
    chk.add_tlc(r, count_states=False)
  seen = {}
  for f in fails:
    o = obs[f['i']]
    sig = {'law': f['law'], 'cause': f['cause']}
    w = f['w']
    if f['law'].startswith(('validate_', 'bind_')):
      sig['corruption'] = w[0]
    key = json.dumps(sig, sort_keys=True)
    chk.count('law_failure:' + '/'.join(sig.values()))
    if key in seen:                       # one report per signature (first witness); the rest is counted
      seen[key]['occurrences'] += 1
      continue
    detail = {'spec': geno.spec_str(o['spec']), 'spec_json': o['spec'], 'witness': w, 'occurrences': 1}
    seen[key] = detail
    if f['law'].startswith(('validate_', 'bind_')):
      detail['dna'] = geno.tree_str(w[1])
      detail['probe'] = [w[0], w[1]]
      detail['validate_ok'], detail['bind_ok'] = w[2], w[3]
      detail['reproduce'] = _snippet(o['spec'], w[1], 'spec.validate(dna); dna.use_spec(spec)   # must raise')
  for key, detail in seen.items():
    chk.violation(json.loads(key), detail)
  return obs, fails


def account(chk, obs):
  for o in obs:
    s = geno.spec_str(o['spec'])
    chk.traces += 1 if o['iter'] else 0
    chk.evaluations += len(o['iter']) + len(o['sweep']) + len(o['nexts']) + len(o['probes']) * 2 + len(o['random']) \
        + len(o['resume'][1]) + sum(len(r[3]) for r in o['recov'])
    if len(o['iter']) > 1 or o['probes']:
      chk.distinct_case(('spec', s))
    for p in o['probes']:
      chk.distinct_case((s, p[1]))
      chk.count('probe:' + p[0])
      chk.count('validate_accepts' if p[2] else 'validate_rejects')
      chk.count('bind_accepts' if p[3] else 'bind_rejects')
    chk.count('iterated_dnas', len(o['iter']))
    chk.count('sweeping_proposals', len(o['sweep']))
    chk.count('sweeping_recoveries', len(o['recov']))
    chk.count('sweeping_polled_past_the_end', (1 if o['sweep_end'][2] != -1 else 0) + len(o['recov']))
    chk.count('sweeping_recoveries_with_pending', sum(1 for r in o['recov'] if r[1] > 0))
    chk.count('next_of_rebuilt', len(o['nexts']))
    chk.count('resumed_iterations', 1 if o['resume'][0] else 0)
    chk.count('random_dnas', len(o['random']))
    chk.count('specs_finite' if o['size'] != -1 else 'specs_infinite')


def _modes(js, acc):
  if js['t'] == 'space':
    for e in js['elems']:
      _modes(e, acc)
  elif js['t'] == 'choices':
    if js['k'] > 1:
      acc.add(('multi', js['distinct'], js['sorted']))
    else:
      acc.add(('single',))
    for c in js['cands']:
      if c['elems']:
        acc.add(('conditional',))
        for e in c['elems']:
          if e['t'] == 'choices' and any(cc['elems'] for cc in e['cands']):
            acc.add(('conditional2',))
      _modes(c, acc)
  else:
    acc.add((js['t'],))


def run(chk):
  cfg = THOROUGH if chk.tier == 'thorough' else QUICK
  chk.rule = ('cases = (spec, DNA-shaped input) pairs: every spec of the TLA+ universe (grammar: spaces of <= 3 decision '
              'points; single / multi choices in every distinct x sorted mode; constant or nested conditional candidates) '
              'is iterated completely; validate/bind are probed with valid DNAs and with the one-step corruptions TLC '
              'generates (index -1/-len/+-1/len, dropped/added/duplicated child, swapped siblings, int<->float<->str<->None); '
              'distinct = distinct specs with > 1 DNA plus distinct (spec, probe tree) pairs')
  chk.assumptions += [
      'float decisions are represented by the atom classes below/min/inside/max/above; random floats come from an RNG '
      'stub whose uniform(a, b) answers a, the middle or b',
      'custom decision points use a user random_dna_fn returning one of two fixed strings (any string is valid)',
      'any exception raised by validate / DNA(spec=) counts as a rejection (messages and classes are not compared)']
  # 1./2. TLC: the model (odometer transition system, valid set, size recurrences), the design-level search on the
  # transcription of validate (intended rules: no gap to Valid on the one-step corruptions; today's rules must yield
  # TLC's counter-example), and the export of universe + probes -- independent runs, started together
  salt = {'SALT': str(chk.seed)}
  with geno.phase(chk, 'tlc_model_and_export'):
    res = geno.tlc_jobs({
        'model': lambda: tlc.run('Geno', cfg['model'], timeout=1500),
        'v_int': lambda: tlc.run('GenoValidate', 'C11_validate_intended.cfg', timeout=900, workers=4),
        'v_asc': lambda: tlc.run('GenoValidate', 'C11_validate_ascoded.cfg', timeout=900, workers=4,
                                 allow_violation=True),
        'export': lambda: tlc.export_json('GenoExport', cfg['export'], env=salt, timeout=900),
        'export_inf': lambda: tlc.export_json('GenoExport', cfg['export_inf'], env=salt, timeout=900),
    })
  r = res['model']
  chk.add_tlc(r)
  chk.notes['model'] = r.summary()
  if not r.ok:
    raise tlc.TLCError(f'{cfg["model"]}: {r.violated} violated in the model (specification defect):\n' + r.out[-3000:])
  chk.require(r.distinct > 1000, f'vacuous: odometer model explored only {r.distinct} states')
  rv, ra = res['v_int'], res['v_asc']
  chk.add_tlc(rv)
  if not rv.ok:
    raise tlc.TLCError(f'C11_validate_intended.cfg: {rv.violated} violated (specification defect):\n' + rv.out[-3000:])
  chk.add_tlc(ra, count_states=False)
  chk.notes['validate_as_coded_model'] = dict(ra.summary(), note='AsCoded = TRUE transcribes today\'s validate; TLC is '
                                              'expected to violate NoGap (an invalid one-step corruption is accepted); '
                                              'the observed-relation check below meets the same inputs on the real code')
  chk.require((not ra.ok) and ra.violated == 'NoGap',
              'the as-coded validate model no longer violates NoGap: the model lost its sensitivity')
  (entries, r1), (inf_entries, r2) = res['export'], res['export_inf']
  chk.add_tlc(r1, count_states=False)
  chk.add_tlc(r2, count_states=False)
  chk.require(len(entries) >= 500, f'vacuous: only {len(entries)} finite specs exported')
  chk.require(len(inf_entries) >= 20, f'vacuous: only {len(inf_entries)} float/custom specs exported')
  # 3.-5. observe, evaluate the laws in TLC, report
  obs, fails = evaluate(chk, entries + inf_entries, cfg, 'c11')
  account(chk, obs)
  chk.notes['specs'] = len(obs)
  chk.notes['law_failures_by_kind'] = {}
  for f in fails:
    k = f'{f["law"]}/{f["cause"]}'
    chk.notes['law_failures_by_kind'][k] = chk.notes['law_failures_by_kind'].get(k, 0) + 1
  for o in obs:
    if 3 <= len(o['iter']) <= 8 and len(chk.samples) < 4:
      chk.sample({'spec': geno.spec_str(o['spec']), 'space_size': o['size'],
                  'iter_dna': [geno.tree_str(t) for t in o['iter']],
                  'probes(label, dna, validate_ok, bind_ok)': [[p[0], geno.tree_str(p[1]), p[2], p[3]]
                                                              for p in o['probes'][:10]],
                  'random': [geno.tree_str(t) for t in o['random'][:3]]})
  for o in obs:
    if o['size'] == -1 and len(chk.samples) < 6 and o['probes']:
      chk.sample({'spec': geno.spec_str(o['spec']), 'space_size': o['size'],
                  'probes(label, dna, validate_ok, bind_ok)': [[p[0], geno.tree_str(p[1]), p[2], p[3]]
                                                              for p in o['probes'][:10]],
                  'random': [geno.tree_str(t) for t in o['random'][:3]]})
  # vacuity guards
  modes = set()
  for o in obs:
    _modes(o['spec'], modes)
  for need in [('single',), ('conditional',), ('conditional2',), ('float',), ('custom',)] + \
      [('multi', d, s) for d in (True, False) for s in (True, False)]:
    chk.require(need in modes, f'vacuous: no spec with {need}')
  c = chk.counters
  for need in ('probe:v', 'probe:neg', 'probe:inc', 'probe:dec', 'probe:drop', 'probe:add', 'probe:dup', 'probe:swap',
               'probe:i2f', 'probe:f2i', 'probe:finc', 'probe:fdec', 'probe:n2i', 'validate_accepts', 'validate_rejects',
               'bind_accepts', 'bind_rejects', 'iterated_dnas', 'sweeping_proposals', 'sweeping_recoveries_with_pending', 'sweeping_polled_past_the_end', 'next_of_rebuilt',
               'resumed_iterations', 'random_dnas', 'specs_finite', 'specs_infinite'):
    chk.require(c.get(need, 0) > 0, f'vacuous: counter {need} is zero')
  chk.exhaustive = False


def replay(chk, path):
  v = json.load(open(path))
  d = v['detail']
  modes = set()
  _modes(d['spec_json'], modes)
  infinite = ('float',) in modes or ('custom',) in modes
  # `size` is only the harness' loop bound (and -1 = do not iterate)
  entry = {'spec': d['spec_json'], 'size': -1 if infinite else 400, 'probes': [d['probe']] if 'probe' in d else []}
  cfg = dict(QUICK, law_chunks=1)
  obs, fails = evaluate(chk, [entry], cfg, 'c11-replay')
  account(chk, obs)
  chk.sample({'replayed': d['spec'], 'failures': [f['law'] for f in fails]})
  chk.states = max(chk.states, 1)
  chk.transitions = max(chk.transitions, 1)
