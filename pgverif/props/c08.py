"""C08 - write protection: sealed or accessor-protected values cannot be changed."""
from pgverif import symtree_check

META = {
    'level': 'model_checking',
    'technique': 'TLA+ spec SymTree.tla (sealed / accessor-writable flags, as_sealed and allow_writable_accessors '
                 'scope stacks, guard-first actions) checked exhaustively with TLC (WPEMeansUnchanged, SealedFrozen, '
                 'DeepSeal, ErrorMeansUnchanged) + S->C replay of simulated behaviours comparing outcome class, '
                 'content and flags after every call',
    'level_text': 'Every mutating API call is an action whose first conjunct is the protection guard evaluated from the '
                  'per-object flags and the innermost scoped override; TLC proves on the model that a refused call changes '
                  'nothing inside protected nodes and that seal() is deep; replay of simulated histories (flags, nested '
                  'scopes with True/False/None, every mutator family incl. in-place operators, slices and rebind) checks '
                  'that the real containers refuse exactly the calls the model refuses and stay unchanged.',
    'level_note': 'Bounded: 3 nodes / depth 4 exhaustively, 6 nodes / depth 40 by simulation; container *methods* (remove, '
                  'setdefault) under disabled accessors are a documented don\'t-care and are not generated; the whole '
                  'projected tree (content, parent, path, flags of every live node) is compared after every step, so an '
                  'unrefused write shows as an outcome or content divergence.',
}

CLAUSES = {'outcome', 'content', 'flags'}


def in_scope(d):
  return d['clause'] == 'flags' or 'WPE' in (d.get('spec_out'), d.get('impl_out'))


NEED = ('DictSet:WPE', 'DictDel:WPE', 'DictPop:WPE', 'DictClear:WPE', 'DictUpdate:WPE', 'ListSet:WPE', 'ListAppend:WPE',
        'ListInsert:WPE', 'ListExtend:WPE', 'ListPop:WPE', 'ListClear:WPE', 'ListReverse:WPE', 'ListIMul:WPE',
        'ListSetSlice:WPE', 'ListDelSlice:WPE', 'Rebind:WPE', 'Seal:ok', 'SetAccW:ok', 'EnterSealed:ok', 'EnterAccW:ok',
        'DictSet:ok', 'ListAppend:ok', 'Rebind:ok')


def run(chk):
  thorough = chk.tier == 'thorough'
  chk.rule = ('behaviours = TLC simulation walks of SymTree.tla with flags and scope families enabled; distinct = distinct '
              'action sequences; non-trivial = at least one step replayed')
  symtree_check.model_check(chk, ['C08_quick.cfg'])
  hits = {}
  plan = [('C08_sim.cfg', 500, 30), ('C08_sim_obj.cfg', 250, 30)] if not thorough else \
         [('C08_sim.cfg', 6000, 40), ('C08_sim_obj.cfg', 3000, 40)]
  for cfg, num, depth in plan:
    h = symtree_check.replay_simulated(chk, cfg, CLAUSES, num, depth, chk.seed, in_scope=in_scope,
                                       batches=1 if not thorough else 8)
    for k, v in h.items():
      hits[k] = hits.get(k, 0) + v
  h = symtree_check.replay_transitions(chk, 'C08_states.cfg', 'C08_step.cfg', CLAUSES, in_scope=in_scope,
                                       max_states=12 if not thorough else 200, seed=chk.seed)
  for kk, v in h.items():
    hits[kk] = hits.get(kk, 0) + v
  chk.notes['action_outcome_hits'] = dict(sorted(hits.items()))
  for need in NEED:
    chk.require(hits.get(need, 0) > 0, f'vacuous: no replayed step {need}')


def replay(chk, path):
  symtree_check.replay_file(chk, path, CLAUSES, in_scope)
