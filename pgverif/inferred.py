"""S->C replay of Inferred.tla behaviours through real pg.ContextualObject / pg.Dict / pg.List trees.

The spec is the oracle.  TLC's simulated behaviours carry, in every state, the stored content of
every node (`kind`, `fld`, `seq`, `parent`) and the observation table `obs` (what every accessor read
returns: a leaf, a node, or ERR).  The driver performs the call named by `act` through the public
API, and then, for EVERY live node and EVERY key:

  stored : sym_hasattr / sym_getattr / sym_items give what the spec stores (a placeholder stays a
           placeholder of the right class; a node is the *same object* that is bound to the spec node);
  repr   : repr() / str() of a ContextualObject (which print inferred values) return;
  read   : every accessor form (`o.k`, `o[k]`, `l[i]`, iteration, `sym_inferred`, `sym_inferred` with a
           default, `sym_inferrable`) returns obs[n][k] -- value, identical node, or AttributeError
           (KeyError for `d[k]`, as Dict.__getitem__ documents);
  purity : the stored projection taken before the reads equals the one taken after them;
  tree   : sym_parent of every bound node is the object bound to the spec's parent.

No expected value is computed here: everything compared comes out of the TLC state.
"""
from __future__ import annotations

import json
import re
import signal
import threading
from typing import Any, Dict, List, Optional

import pyglove as pg

from . import tlc
from .core import Check

ERR, ABSENT, PNONE, INFER, CTX, PHV = 97, 98, 99, 300, 301, 310
KEYS = {1: 'x', 2: 'y', 3: 'z'}
_SENTINEL = object()


class CO(pg.ContextualObject):
  """The ContextualObject node of the model: three untyped fields, default None."""
  x: Any = None
  y: Any = None
  z: Any = None


def new_root(kind: str):
  if kind == 'dict':
    return pg.Dict()
  if kind == 'list':
    return pg.List()
  if kind == 'obj':
    return CO()
  raise ValueError(kind)


def pykey(k: int):
  return k - 1000 if k >= 1000 else KEYS[k]


def fresh_placeholder(code: int):
  if code == INFER:
    return pg.symbolic.ValueFromParentChain()
  if code == CTX:
    return pg.contextual_attribute()
  raise ValueError(code)


def spec_get(st: dict, n: int, k: int) -> int:
  """Get(St, n, k) read off a parsed TLC state (a lookup, not a computation)."""
  kind = st['kind'][n - 1]
  if kind in ('dict', 'obj'):
    return st['fld'][n - 1][k - 1] if k < 1000 else ABSENT
  if kind == 'list':
    i = k - 1000
    return st['seq'][n - 1][i] if 0 <= i < len(st['seq'][n - 1]) else ABSENT
  return ABSENT


def all_keys(st: dict) -> List[int]:
  return sorted(st['obs'][0].keys())


class Divergence(Exception):

  def __init__(self, clause: str, sig: dict, detail: str):
    super().__init__(clause + ': ' + detail)
    self.clause = clause
    self.sig = sig
    self.detail = detail


def _exc_name(e: BaseException) -> str:
  for c in (IndexError, KeyError, AttributeError, TypeError, ValueError, RecursionError):
    if isinstance(e, c):
      return c.__name__
  return type(e).__name__


_CYCLIC_REPR_BUDGET = 6      # FAILING repr calls on cyclic resolutions per process (each may run into the timer)


class _Timeout(BaseException):
  """Raised by the alarm; a BaseException so that `except Exception` inside PyGlove does not swallow it."""


def _can_time_out() -> bool:
  return threading.current_thread() is threading.main_thread() and hasattr(signal, 'setitimer')


def _nesting(s: str) -> int:
  depth = best = 0
  for ch in s:
    if ch in '([{':
      depth += 1
      best = max(best, depth)
    elif ch in ')]}':
      depth -= 1
  return best


def _call_with_timeout(f, seconds: float, max_nesting: int) -> str:
  """'ok', the exception class name, 'hang' (did not return within `seconds`) or 'runaway' (the text nests
  deeper than any print-out that visits each node at most once could)."""
  timed = _can_time_out()
  def on_alarm(signum, frame):
    raise _Timeout()
  if timed:
    old = signal.signal(signal.SIGALRM, on_alarm)
    signal.setitimer(signal.ITIMER_REAL, seconds)
  try:
    return 'ok' if _nesting(f()) <= max_nesting else 'runaway'
  except _Timeout:
    return 'hang'
  except Exception as e:  # pylint: disable=broad-except
    return _exc_name(e)
  finally:
    if timed:
      signal.setitimer(signal.ITIMER_REAL, 0)
      signal.signal(signal.SIGALRM, old)


def _safe(v) -> str:
  """repr without formatting symbolic values (the repr of a ContextualObject infers its attributes)."""
  if isinstance(v, pg.Symbolic):
    return f'<{type(v).__name__} at {v.sym_path}>'
  if isinstance(v, (list, tuple)):
    return '[' + ', '.join(_safe(x) for x in v) + ']'
  if v is _SENTINEL:
    return '<default>'
  try:
    return repr(v)[:120]
  except Exception as e:  # pylint: disable=broad-except
    return f'<unprintable {type(v).__name__}: {type(e).__name__}>'


class Replayer:
  """Replays one behaviour of Inferred.tla."""

  def __init__(self):
    self.obj: Dict[int, Any] = {}
    self.scopes: List[Any] = []
    self.hits: Dict[str, int] = {}
    self.divergences: List[dict] = []   # read divergences do not corrupt the state: the behaviour goes on
    self.step = 0
    self.reads = 0

  def hit(self, k, n=1):
    self.hits[k] = self.hits.get(k, 0) + n

  # ---- construction of the initial tree from the spec state --------------------------------
  def build(self, st: dict):
    def make(n):
      kind = st['kind'][n - 1]
      def val(k):
        v = spec_get(st, n, k)
        if v in (INFER, CTX):
          return fresh_placeholder(v)
        if v == PNONE:
          return None
        if 1 <= v <= len(st['kind']):
          return make(v)
        return v
      if kind == 'list':
        o = pg.List([val(1000 + i) for i in range(len(st['seq'][n - 1]))])
      elif kind == 'dict':
        o = pg.Dict({KEYS[k]: val(k) for k in KEYS if spec_get(st, n, k) != ABSENT})
      else:
        o = CO(**{KEYS[k]: val(k) for k in KEYS})
      self.obj[n] = o
      return o
    for n, kind in enumerate(st['kind'], 1):
      if kind != 'free' and st['parent'][n - 1] == 0:
        make(n)

  # ---- value conversion -------------------------------------------------------------------
  def vd(self, v: int, k: int):
    if v == PHV:
      return fresh_placeholder(CTX if k == 2 else INFER)
    if v == PNONE:
      return None
    if v in self.obj:
      return self.obj[v]
    if v >= 100:
      return v
    raise KeyError(f'unbound node {v}')

  # ---- one call ---------------------------------------------------------------------------
  def execute(self, act: List[Any], st: dict):
    name, args = act[0], act[1:]
    return getattr(self, 'do_' + name)(st, *args)

  def do_New(self, st, kind):
    r = st['out']
    self.obj[r] = new_root(kind)

  def do_Set(self, st, n, k, vd):
    o = self.obj[n]
    v = self.vd(vd, k)
    if isinstance(o, CO):
      o.rebind({pykey(k): v}, raise_on_no_change=False)
    else:
      o[pykey(k)] = v

  def do_Insert(self, st, n, i, vd):
    self.obj[n].insert(i, self.vd(vd, 1000 + i))

  def do_Del(self, st, n, k):
    del self.obj[n][pykey(k)]

  def do_Clone(self, st, n, deep):
    c = self.obj[n].clone(deep=deep)
    # identity binding: the nodes of the copy are bound by the position the spec assigns to them
    def bind(m, o):
      if m in self.obj and self.obj[m] is not o:
        raise Divergence('bind', {'clause': 'bind'}, f'clone node {m} already bound to another object')
      self.obj[m] = o
      for k in all_keys(st):
        v = spec_get(st, m, k)
        if 1 <= v <= len(st['kind']):
          try:
            child = o.sym_getattr(pykey(k))
          except Exception as e:  # pylint: disable=broad-except
            raise Divergence('stored', {'clause': 'stored'}, f'clone lacks {pykey(k)!r}: {e!r}') from e
          bind(v, child)
    bind(st['out'], c)

  def do_Forget(self, st, m):
    for x in [x for x in self.obj if st['kind'][x - 1] == 'free']:
      del self.obj[x]

  def do_EnterOv(self, st, k, v, attrs):
    cm = pg.contextual_override(**{KEYS[k]: v}, override_attrs=bool(attrs))
    cm.__enter__()
    self.scopes.append(cm)

  def do_ExitOv(self, st):
    self.scopes.pop().__exit__(None, None, None)

  def do_Read(self, st, n, k):
    form, got = self._read_forms(self.obj[n], k)[0]
    self._cmp_read(st, n, k, st['out'], form, got)

  def close(self):
    while self.scopes:
      try:
        self.scopes.pop().__exit__(None, None, None)
      except Exception:  # pylint: disable=broad-except
        pass

  # ---- projection -------------------------------------------------------------------------
  def _stored_code(self, o, key) -> Any:
    """What o stores under key, as a comparable token (no inference)."""
    if not o.sym_hasattr(key):
      return ('absent',)
    v = o.sym_getattr(key)
    return self._token(v)

  def _token(self, v) -> Any:
    if isinstance(v, pg.symbolic.ContextualAttribute):
      return ('ph', CTX, id(v))
    if isinstance(v, pg.symbolic.ValueFromParentChain):
      return ('ph', INFER, id(v))
    if isinstance(v, pg.Symbolic):
      return ('node', id(v))
    return ('leaf', v)

  def snapshot(self, st: dict) -> dict:
    snap = {}
    for n, o in self.obj.items():
      snap[n] = (tuple(self._stored_code(o, pykey(k)) for k in all_keys(st)
                       if (k >= 1000) == isinstance(o, list)),
                 tuple((key, self._token(v)) for key, v in o.sym_items()),
                 id(o.sym_parent) if o.sym_parent is not None else None)
    return snap

  def _want_token(self, code: int):
    if code == ABSENT:
      return ('absent',)
    if code in (INFER, CTX):
      return ('ph', code)
    if code == PNONE:
      return ('leaf', None)
    if code in self.obj:
      return ('node', id(self.obj[code]))
    if code >= 100:
      return ('leaf', code)
    return ('unbound', code)

  def check_stored(self, actname: str, st: dict):
    for n, o in self.obj.items():
      kind = st['kind'][n - 1]
      if kind == 'free':
        continue
      want_kind = {'dict': pg.Dict, 'list': pg.List, 'obj': CO}[kind]
      if not isinstance(o, want_kind):
        raise Divergence('stored', {'action': actname, 'clause': 'stored'}, f'node {n} is {type(o).__name__}, spec says {kind}')
      for k in all_keys(st):
        if (k >= 1000) != (kind == 'list'):
          continue
        want = self._want_token(spec_get(st, n, k))
        got = self._stored_code(o, pykey(k))
        if got[:2] != want[:2]:
          raise Divergence('stored', {'action': actname, 'clause': 'stored'},
                           f'node {n} key {pykey(k)!r}: sym_getattr gives {got}, spec stores {want}')
      items = list(o.sym_items())
      n_spec = sum(1 for k in all_keys(st) if spec_get(st, n, k) != ABSENT)
      if len(items) != n_spec:
        raise Divergence('stored', {'action': actname, 'clause': 'stored'},
                         f'node {n}: sym_items has {len(items)} entries, spec {n_spec}')
      for key, v in items:
        if self._token(v) != self._stored_code(o, key):
          raise Divergence('stored', {'action': actname, 'clause': 'stored'},
                           f'node {n} key {key!r}: sym_items and sym_getattr disagree')
      p = st['parent'][n - 1]
      got_p = o.sym_parent
      if (p == 0 and got_p is not None) or (p != 0 and got_p is not self.obj.get(p)):
        raise Divergence('tree', {'action': actname, 'clause': 'tree'},
                         f'node {n}: sym_parent is {type(got_p).__name__}, spec parent {p}')

  def _read_forms(self, o, k: int):
    """All accessor forms for key k of o: list of (form, ('ok', value) | (exception class name, message))."""
    key = pykey(k)
    def attempt(f):
      try:
        return ('ok', f())
      except Exception as e:  # pylint: disable=broad-except
        return (_exc_name(e), str(e)[:120])
    forms = []
    if isinstance(o, pg.List):
      forms.append(('getitem', attempt(lambda: o[key])))
      forms.append(('sym_inferred', attempt(lambda: o.sym_inferred(key))))
    elif isinstance(o, pg.Dict):
      forms.append(('getitem', attempt(lambda: o[key])))
      forms.append(('getattr', attempt(lambda: getattr(o, key))))
      forms.append(('sym_inferred', attempt(lambda: o.sym_inferred(key))))
    else:
      forms.append(('getattr', attempt(lambda: getattr(o, key))))
      forms.append(('sym_inferred', attempt(lambda: o.sym_inferred(key))))
    forms.append(('sym_inferred_default', attempt(lambda: o.sym_inferred(key, _SENTINEL))))
    return forms

  def _read_sig(self, st: dict, n: int, k: int, wclass: str, gclass: str) -> dict:
    # `coded_idxerr` comes out of the TLC state: the walk as coded (Mirror) aborts with IndexError on this read
    return {'clause': 'read', 'want': wclass, 'got': gclass, 'keykind': 'index' if k >= 1000 else 'name',
            'coded_idxerr': bool(st['coded'][n - 1][k])}

  def _cmp_read(self, st: dict, n: int, k: int, want: int, form: str, got):
    """Compares one read outcome with the spec's observation; records (does not raise) a divergence."""
    self.reads += 1
    status, val = got
    ok_err = ('AttributeError', 'KeyError') if form in ('getitem',) and not isinstance(self.obj[n], pg.List) \
        else ('AttributeError',)
    if form == 'sym_inferred_default':
      # sym_inferred(key, default) swallows the failure and returns the default
      if want == ERR:
        good = status == 'ok' and val is _SENTINEL
      else:
        good = status == 'ok' and self._same(val, want)
    elif want == ERR:
      good = status in ok_err
    else:
      good = status == 'ok' and self._same(val, want)
    if good:
      self.hit('read:' + ('err' if want == ERR else 'node' if want in self.obj else 'value'))
      return
    wclass = 'ERR' if want == ERR else 'node' if want in self.obj else 'value'
    gclass = status if status != 'ok' else ('placeholder' if isinstance(val, pg.symbolic.ValueFromParentChain) else
                                            'default' if val is _SENTINEL else
                                            'node' if isinstance(val, pg.Symbolic) else 'value')
    self.divergences.append({'step': self.step, 
        'clause': 'read',
        'sig': self._read_sig(st, n, k, wclass, gclass),
        'detail': f'node {n} key {pykey(k)!r} via {form}: spec says {want}, code gives {status}: {_safe(val)}'})

  def _same(self, val, want: int) -> bool:
    if want == PNONE:
      return val is None
    if want in self.obj:
      return val is self.obj[want]
    return type(val) is int and val == want

  def check_reads(self, actname: str, st: dict):
    for n, o in self.obj.items():
      if st['kind'][n - 1] == 'free':
        continue
      obs = st['obs'][n - 1]
      present = [k for k in all_keys(st) if obs[k] != ABSENT]
      for k in present:
        if isinstance(st['obs'][n - 1][k], int) and spec_get(st, n, k) in (INFER, CTX):
          self.hit('placeholder_reads')
        for form, got in self._read_forms(o, k):
          self._cmp_read(st, n, k, obs[k], form, got)
        # sym_inferrable(key) <=> the read succeeds
        try:
          inf = o.sym_inferrable(pykey(k))
        except Exception as e:  # pylint: disable=broad-except
          inf = _exc_name(e)
        if inf is not (obs[k] != ERR):
          self.divergences.append({'step': self.step, 'clause': 'read',
                                   'sig': self._read_sig(st, n, k, 'ERR' if obs[k] == ERR else 'value', f'inferrable={inf}'),
                                   'detail': f'node {n} key {pykey(k)!r}: sym_inferrable gives {inf}, spec read is {obs[k]}'})
      if isinstance(o, pg.List) and present:
        # iteration yields the inferred values (or fails as the first failing element does)
        try:
          got = ('ok', list(iter(o)))
        except Exception as e:  # pylint: disable=broad-except
          got = (_exc_name(e), str(e)[:120])
        want = [obs[k] for k in present]
        if ERR in want:
          good = got[0] == 'AttributeError'
        else:
          good = got[0] == 'ok' and len(got[1]) == len(want) and all(self._same(v, w) for v, w in zip(got[1], want))
        self.reads += 1
        if not good:
          self.divergences.append({'step': self.step, 'clause': 'read',
                                   'sig': {'clause': 'read', 'want': 'ERR' if ERR in want else 'value',
                                           'got': got[0] if got[0] != 'ok' else 'value', 'keykind': 'iteration',
                                           'coded_idxerr': any(st['coded'][n - 1][k] for k in present)},
                                   'detail': f'node {n}: iteration gives {got[0]}: {_safe(got[1])}, spec says {want}'})
        else:
          self.hit('read:iter')

  def check_repr(self, st: dict, step: int = 0):
    """repr / str of a ContextualObject print inferred values: they must return (clause `repr`).

    Where TLC says that resolved values lead back to a node being printed (cyc) the call is made under a
    timer and only a few times per run: on the unchanged tree it does not terminate in any useful time
    (finding G02-F2), so it cannot be made at every state."""
    global _CYCLIC_REPR_BUDGET
    for n, o in self.obj.items():
      if not isinstance(o, CO) or st['kind'][n - 1] == 'free':
        continue
      cyclic = bool(st['cyc'][n - 1])
      if not cyclic and step % 4:
        continue
      if cyclic:
        self.hit('repr:cyclic')
        if _CYCLIC_REPR_BUDGET <= 0 or not _can_time_out():
          continue
      for fn in (repr, str):
        status = _call_with_timeout(lambda: fn(o), 0.5 if cyclic else 20.0,   # pylint: disable=cell-var-from-loop
                                    max_nesting=3 * len(st['kind']) + 3)
        if status == 'ok':
          self.hit('repr:ok')
          continue
        self.divergences.append({'step': self.step, 
            'clause': 'repr',
            'sig': {'clause': 'repr', 'got': status, 'cyclic': cyclic},
            'detail': f'node {n}: {fn.__name__}() gives {status}; TLC says resolved values '
                      f'{"can" if cyclic else "cannot"} lead back to a node being printed'})
        if cyclic:
          _CYCLIC_REPR_BUDGET -= 1
          break

  # ---- the behaviour ------------------------------------------------------------------------
  def compare(self, actname: str, st: dict, step: int = 0):
    self.check_stored(actname, st)
    before = self.snapshot(st)
    self.check_reads(actname, st)
    self.check_repr(st, step)
    after = self.snapshot(st)
    if before != after:
      bad = [n for n in before if before[n] != after.get(n)]
      raise Divergence('purity', {'action': actname, 'clause': 'purity'},
                       f'reading changed the stored state of nodes {bad}')
    self.check_stored(actname, st)

  def _count_resolution_changes(self, prev: dict, st: dict):
    """Vacuity counters (diff of two TLC observation tables): a placeholder that stayed in place reads differently."""
    act = st['act']
    changed = 0
    for n in range(1, len(st['kind']) + 1):
      if prev['kind'][n - 1] == 'free' or st['kind'][n - 1] == 'free':
        continue
      for k in all_keys(st):
        a, b = spec_get(prev, n, k), spec_get(st, n, k)
        if a in (INFER, CTX) and a == b and prev['obs'][n - 1][k] != st['obs'][n - 1][k]:
          changed += 1
    if not changed:
      return
    self.hit('resolution_changed', changed)
    if act[0] in ('EnterOv', 'ExitOv'):
      self.hit('resolution_changed:scope', changed)
    elif act[0] in ('Set', 'Insert') and 1 <= act[-1] <= len(st['kind']):
      self.hit('resolution_changed:attach', changed)
    elif act[0] in ('Set', 'Del') and 1 <= spec_get(prev, act[1], act[2]) <= len(st['kind']):
      self.hit('resolution_changed:detach', changed)
    else:
      self.hit('resolution_changed:write', changed)

  def replay(self, beh: List[tlc.Step]) -> Optional[dict]:
    """Returns None if the behaviour conforms, else the first state-corrupting divergence.

    Read divergences are collected in self.divergences (the implementation state still equals the
    spec state after a wrong read, so the behaviour continues)."""
    step = 0
    try:
      st0 = beh[0].state
      self.build(st0)
      self.compare('Init', st0)
      for step in range(1, len(beh)):
        self.step = step
        st = beh[step].state
        act = st['act']
        try:
          self.execute(act, st)
        except Divergence:
          raise
        except Exception as e:  # pylint: disable=broad-except
          raise Divergence('call', {'action': act[0], 'clause': 'call', 'got': _exc_name(e)},
                           f'{act} raised {e!r:.200}') from e
        self.hit(act[0])
        if act[0] == 'EnterOv':
          self.hit('EnterOv:attrs' if act[3] else 'EnterOv:plain')
        if act[0] == 'Clone':
          self.hit('Clone:deep' if act[2] else 'Clone:shallow')
        if act[0] in ('Set', 'Insert') and act[-1] in self.obj and act[-1] < 100:
          self.hit('attach')
        self._count_resolution_changes(beh[step - 1].state, st)
        self.compare(act[0], st, step)
      return None
    except Divergence as d:
      return {'step': step, 'clause': d.clause, 'sig': d.sig, 'detail': d.detail,
              'act': beh[step].state['act'] if step < len(beh) else None}
    finally:
      self.close()


def history(beh: List[tlc.Step], upto: int) -> List[Any]:
  return [s.state['act'] for s in beh[:upto + 1]]


def replay_behaviours(chk: Check, cfg: str, behaviours: List[List[tlc.Step]]) -> Dict[str, int]:
  hits: Dict[str, int] = {}
  for beh in behaviours:
    rp = Replayer()
    d = rp.replay(beh)
    chk.traces += 1
    done = d['step'] if d else len(beh) - 1
    chk.evaluations += rp.reads
    chk.count('steps_replayed', done)
    chk.count('reads_compared', rp.reads)
    for k, v in rp.hits.items():
      hits[k] = hits.get(k, 0) + v
    acts = history(beh, done)
    if done >= 1:
      chk.distinct_case(acts)
    if len(chk.samples) < 3 and d is None and not rp.divergences and len(beh) > 8:
      chk.sample({'spec': 'Inferred', 'cfg': cfg, 'behaviour': acts[:12],
                  'reads_compared': rp.reads})
    if d is None and not rp.divergences:
      chk.count('behaviours_conforming')
    for rd in rp.divergences:
      chk.violation(rd['sig'], {'cfg': cfg, 'step': rd['step'], 'what': rd['detail'],
                                'history': history(beh, rd['step'])})
    if d is not None:
      chk.violation(d['sig'], {'cfg': cfg, 'step': d['step'], 'act': d['act'], 'what': d['detail'],
                               'history': history(beh, d['step'])})
  return hits


def replay_simulated(chk: Check, cfg: str, num: int, depth: int, seed: int, batches: int = 1) -> Dict[str, int]:
  hits: Dict[str, int] = {}
  for b in range(batches):
    behaviours, r = tlc.simulate('Inferred', cfg, num=max(1, num // batches), depth=depth, seed=seed * 1000 + b + 1,
                                 name=f'g02-{cfg}-{b}', timeout=1800)
    chk.add_tlc(r, count_states=False)
    chk.transitions += r.generated
    if not r.ok:
      raise tlc.TLCError(f'{cfg}: {r.violated} violated during simulation:\n' + r.out[-3000:])
    for k, v in replay_behaviours(chk, cfg, behaviours).items():
      hits[k] = hits.get(k, 0) + v
  return hits


def _script_behaviour(cfg: str, hist: List[Any], name: str):
  """TLC recomputes the states of a given history (intended semantics of `cfg`, all arguments enumerated)."""
  cfg_text = (tlc.SPECS / cfg).read_text()
  cfg_text = re.sub(r'SPECIFICATION\s+\w+', 'SPECIFICATION SpecScript', cfg_text)
  cfg_text = re.sub(r'SimK = \d+', 'SimK = 0', cfg_text)
  cfg_text = re.sub(r'^(INVARIANT|PROPERTY|CONSTRAINT|VIEW).*$', '', cfg_text, flags=re.M)
  d = tlc.workdir(name)
  (d / 'script.json').write_text(json.dumps(hist))
  (d / 'replay.cfg').write_text(cfg_text)
  behaviours, r = tlc.simulate('Inferred', str(d / 'replay.cfg'), num=1, depth=max(1, len(hist)), seed=1,
                               name=name + '-run', env={'SCRIPT_FILE': str(d / 'script.json')}, timeout=3000)
  return behaviours, r


def counterexample_history(r: 'tlc.TLCResult') -> List[Any]:
  """The calls of a TLC counter-example (the `act` history variable of its states)."""
  if r.error_trace:
    return [s['state']['act'] for s in r.error_trace]
  m = re.search(r'is violated by the initial state:\n(.*?)\n\n', r.out, flags=re.S)
  if m:
    from . import tlaval  # pylint: disable=import-outside-toplevel
    return [tlaval.parse_state(m.group(1).strip())['act']]
  return []


def replay_counterexample(chk: Check, cfg: str, hist: List[Any]) -> None:
  """A counter-example TLC found in the design as coded (Mirror) is executed on the real code: the intended
  states of the same history are recomputed by TLC and the history is replayed like any other behaviour."""
  behaviours, r = _script_behaviour(cfg, hist, 'g02-mirror-ce')
  chk.add_tlc(r, count_states=False)
  chk.transitions += max(1, r.generated)
  chk.require(len(behaviours) == 1 and len(behaviours[0]) == len(hist),
              'the intended specification does not admit the history of the as-coded counter-example')
  before = (len(chk.violations), sum(chk.known_hits.values()))
  replay_behaviours(chk, cfg, behaviours)
  reproduced = (len(chk.violations), sum(chk.known_hits.values())) != before
  chk.notes['as_coded_counterexample'] = {'history': hist, 'reproduced_on_code': reproduced}
  chk.count('as_coded_counterexample_reproduced' if reproduced else 'as_coded_counterexample_not_reproduced')


def replay_file(chk: Check, path: str) -> None:
  """./check G02 --replay FILE: TLC recomputes the states of the recorded history, the driver replays them."""
  rec = json.loads(open(path).read())
  det = rec['detail']
  hist = det['history']
  behaviours, r = _script_behaviour(det['cfg'], hist, 'g02-replay-script')
  chk.add_tlc(r, count_states=False)
  chk.states += 1
  chk.transitions += max(1, r.generated)
  chk.require(len(behaviours) == 1 and len(behaviours[0]) == len(hist),
              f'the specification does not admit the recorded history (got {len(behaviours[0]) if behaviours else 0} '
              f'of {len(hist)} states)')
  chk.sample({'replayed_history': hist})
  replay_behaviours(chk, det['cfg'], behaviours)
  if not chk.violations and not chk.known_hits:
    print('replay: the history conforms on this tree')
