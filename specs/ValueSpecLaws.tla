---------------------------- MODULE ValueSpecLaws ----------------------------
(***************************************************************************)
(* Step 3 of the observed-relation check of C04.  `Obs` holds what the     *)
(* real pg.typing code answered on the universe of ValueSpec.tla:          *)
(*   values  universe values followed by the extra values apply returned   *)
(*   acc[s][v]   "ok" | "TypeError" | "ValueError" | "KeyError" | "Other:" *)
(*   app[s][v]   index of the value apply returned (0 when rejected)       *)
(*   pure[s][v]  the spec still equals a pristine copy after that call     *)
(*   dflt[s], dacc[s]   index of spec.default, outcome of applying it      *)
(*   compat[a][b]       a.is_compatible(b)                                 *)
(*   exterr[c][b]       "ok" or the error class of c.extend(b)             *)
(*   ext  one record per successful extension: c, b, acc[v] of the result, *)
(*        bcompat = b.is_compatible(result), dacc of the result's default  *)
(* TLC evaluates the algebra's laws on these tables.  One state per (law,  *)
(* spec index); the invariant `Holds` fails exactly on the states whose    *)
(* law instance is violated and prints the offending indices first.        *)
(***************************************************************************)
EXTENDS ValueSpec, Json, IOUtils

Obs == JsonDeserialize(IOEnv.OBS_FILE)

\* The order of the universe is the harness's (SetToSeq is not stable across TLC runs): the laws index Obs.specs
\* and Obs.values, after checking that they are exactly the universe of ValueSpec.tla.
SpecAt(i) == Obs.specs[i]
NS == Len(Obs.specs)
NV == Len(Obs.values)        \* universe + extras
NE == Len(Obs.ext)
Val(j) == Obs.values[j]
Ok(i, j) == Obs.acc[i][j] = "ok"
Ref(i, j) == Acc(SpecAt(i), Val(j))
Determined(i, j) == Ref(i, j) # "dc"
Comparable(a, b) == ~HasRegex(SpecAt(a)) /\ ~HasRegex(SpecAt(b))    \* regex constraints are outside the claim
HasIdx(x) == \E k \in 1..NV : Val(k) = x
IdxOf(x) == CHOOSE k \in 1..NV : Val(k) = x

\* the harness must have used this very universe
ASSUME NS = Cardinality(Specs) /\ {SpecAt(i) : i \in 1..NS} = Specs
ASSUME Obs.nv0 = Cardinality(Values) /\ {Obs.values[j] : j \in 1..Obs.nv0} = Values
ASSUME Len(Obs.acc) = NS /\ \A i \in 1..NS : Len(Obs.acc[i]) = NV /\ Len(Obs.app[i]) = NV

---------------------------------------------------------------------------
(* The laws; each Bad… is the set of offending instances for spec index i  *)

\* applying to an accepted value yields a value that is accepted again and maps to itself
BadIdempotent(i) == {<<j, Obs.app[i][j]>> : j \in {j \in 1..NV : Ok(i, j) /\
                        LET k == Obs.app[i][j] IN ~(k >= 1 /\ Ok(i, k) /\ Obs.app[i][k] = k)}}
\* a spec's own default is acceptable to it
BadDefaultOK(i) == IF HasDefault(SpecAt(i)) /\ Obs.dacc[i] # "ok" THEN {<<Obs.dflt[i], Obs.dacc[i]>>} ELSE {}
\* applying (and asking for compatibility) never changes the spec
BadApplyPure(i) == {<<j, 0>> : j \in {j \in 1..NV : ~Obs.pure[i][j]}} \cup (IF Obs.cpure[i] THEN {} ELSE {<<0, 0>>})
\* a declares itself compatible with b  =>  every value b accepts is accepted by a.  "A value b accepts" is taken
\* in its completed form app[b][v] (what b's apply returns: defaults filled in), since defaults are not part of
\* compatibility; by Idempotent that form is itself a value b accepts.
\* (the missing-value marker is not a value: it is excluded from the two containment laws)
CompatWitness(a, b) == {v \in 1..NV : Val(v) # VMissing /\ Ok(b, v) /\ Determined(b, v) /\ Obs.app[b][v] >= 1
                                      /\ ~Ok(a, Obs.app[b][v]) /\ Determined(a, Obs.app[b][v])}
BadCompatSound(a) == {LET v == CHOOSE v \in CompatWitness(a, b) : TRUE IN <<b, Obs.app[b][v], WhyNot(SpecAt(a), Val(Obs.app[b][v]))>> :
                         b \in {b \in 1..NS : Obs.compat[a][b] /\ Comparable(a, b) /\ CompatWitness(a, b) # {}}}
\* c.extend(b) succeeded  =>  every value the result accepts (as completed by the result's own apply: an
\* extension may add defaults) is accepted by b, on the fields they share ...
ExtOut(e, v) == ProjShared(Val(Obs.ext[e].app[v]), SpecAt(Obs.ext[e].b), SpecAt(Obs.ext[e].c))
NarrowWitness(e) == LET b == Obs.ext[e].b  c == Obs.ext[e].c IN
  {v \in 1..Len(Obs.ext[e].acc) : Val(v) # VMissing /\ Obs.ext[e].acc[v] = "ok" /\ Obs.ext[e].app[v] >= 1
                 /\ Determined(b, v) /\ Determined(c, v)
                 /\ HasIdx(ExtOut(e, v)) /\ ~Ok(b, IdxOf(ExtOut(e, v))) /\ Determined(b, IdxOf(ExtOut(e, v)))}
BadExtendNarrow(e) == IF Comparable(Obs.ext[e].c, Obs.ext[e].b) /\ NarrowWitness(e) # {}
                      THEN LET v == CHOOSE v \in NarrowWitness(e) : TRUE IN
                           {<<v, WhyNot(SpecAt(Obs.ext[e].b), ExtOut(e, v))>>}
                      ELSE {}
\* ... and b is compatible with the result
BadExtendCompat(e) == IF Comparable(Obs.ext[e].c, Obs.ext[e].b) /\ ~Obs.ext[e].bcompat THEN {<<0, <<"base_not_compatible">> >>} ELSE {}
\* the result of an extension is a spec like any other: its default is acceptable to it, the base is untouched
BadExtendDefault(e) == IF Obs.ext[e].dacc \notin {"ok", "none"} THEN {<<0, <<Obs.ext[e].dacc>> >>} ELSE {}
BadExtendBase(e) == IF ~Obs.ext[e].basesame THEN {<<0, <<"base_changed">> >>} ELSE {}
\* "accepts" means what the documentation says on the determined cells (range, size, membership, None, type, keys)
BadRefAcc(i) == {<<j, Ref(i, j), Obs.acc[i][j]>> : j \in {j \in 1..NV : (Ref(i, j) = "yes" /\ ~Ok(i, j)) \/ (Ref(i, j) = "no" /\ Ok(i, j))}}
\* ... and apply returns the value itself / the frozen value / the default-completed dict there
BadRefApp(i) == {<<j, Obs.app[i][j]>> : j \in {j \in 1..NV : Ref(i, j) = "yes" /\ Ok(i, j) /\
                    (Obs.app[i][j] < 1 \/ Val(Obs.app[i][j]) # App(SpecAt(i), Val(j)))}}
\* a rejection is a TypeError, ValueError or KeyError
BadRejectClass(i) == {<<j, Obs.acc[i][j]>> : j \in {j \in 1..NV : Obs.acc[i][j] \notin {"ok", "TypeError", "ValueError", "KeyError"}}}
\* the default a spec reports is the declared one
BadRefDefault(i) == IF HasDefault(SpecAt(i)) /\ (Obs.dflt[i] < 1 \/ Val(Obs.dflt[i]) # RefDefault(SpecAt(i)))
                    THEN {<<Obs.dflt[i], 0>>} ELSE {}

SpecLaws == {"Idempotent", "DefaultOK", "ApplyPure", "CompatSound", "RefAcc", "RefApp", "RejectClass", "RefDefault"}
ExtLaws == {"ExtendNarrow", "ExtendCompat", "ExtendDefault", "ExtendBase"}
Bad(l, i) == CASE l = "Idempotent" -> BadIdempotent(i) [] l = "DefaultOK" -> BadDefaultOK(i)
               [] l = "ApplyPure" -> BadApplyPure(i) [] l = "CompatSound" -> BadCompatSound(i)
               [] l = "RefAcc" -> BadRefAcc(i) [] l = "RefApp" -> BadRefApp(i)
               [] l = "RejectClass" -> BadRejectClass(i) [] l = "RefDefault" -> BadRefDefault(i)
               [] l = "ExtendNarrow" -> BadExtendNarrow(i) [] l = "ExtendCompat" -> BadExtendCompat(i)
               [] l = "ExtendDefault" -> BadExtendDefault(i) [] l = "ExtendBase" -> BadExtendBase(i)

---------------------------------------------------------------------------
(* One state per law instance *)
CONSTANT Chunks          \* fan-out so that several workers share the instances of one law
VARIABLES law, chunk, idx
vars == <<law, chunk, idx>>
Init == law = "start" /\ chunk = 0 /\ idx = 0
Pick == /\ law = "start"
        /\ law' \in SpecLaws \cup ExtLaws /\ chunk' \in 1..Chunks /\ idx' = 0
Eval == /\ law # "start" /\ idx = 0
        /\ idx' \in {i \in 1..(IF law \in SpecLaws THEN NS ELSE NE) : i % Chunks = chunk - 1}
        /\ UNCHANGED <<law, chunk>>
Next == Pick \/ Eval
Spec == Init /\ [][Next]_vars

Holds == idx = 0 \/ LET bad == Bad(law, idx) IN bad = {} \/ (PrintT(<<"BAD", law, idx, bad>>) /\ FALSE)
\* vacuity: how many instances each law had
ASSUME PrintT(<<"sizes", NS, NV, NE>>)
=============================================================================
