SPECIFICATION HSpec
CONSTANTS
  IterUniverse <- U_tiny
  MaxSize = 400
  HyperUniverse <- H_one
