SPECIFICATION Spec
CONSTANTS
  MaxPos = 1
  KwNames = {1, 11}
  MaxArgs = 1
  MaxKw = 1
  MaxSteps = 3
  MaxRebind = 2
  CtorModeSet = {"distinct", "boxed", "asdefault"}
  CallModeSet = {"distinct", "asbound"}
  FlagAtSet = {"call"}
  AsCoded = FALSE
  SimK = 0
CONSTRAINT StepBound
CONSTRAINT CallsLast
VIEW view
INVARIANT TypeOK
INVARIANT EffectiveWellDefined
INVARIANT ResultComplete
INVARIANT ReportedSetsAreEffective
PROPERTY CallIsPure
PROPERTY FullBindAgrees
PROPERTY LateBindAgrees
PROPERTY ConstructAgrees
PROPERTY ValuesDoNotMatter
PROPERTY RebindOrderFree
PROPERTY CloneIsolated
