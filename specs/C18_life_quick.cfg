SPECIFICATION Spec
CONSTANTS
  MaxPos = 1
  KwNames = {1, 11, 21}
  MaxArgs = 2
  MaxKw = 2
  MaxSteps = 3
  AsCoded = FALSE
  SimK = 0
CONSTRAINT StepBound
CONSTRAINT CallsLast
VIEW view
INVARIANT TypeOK
INVARIANT EffectiveWellDefined
INVARIANT ResultComplete
PROPERTY CallIsPure
PROPERTY FullBindAgrees
PROPERTY LateBindAgrees
PROPERTY ConstructAgrees
