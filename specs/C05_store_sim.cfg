SPECIFICATION Spec
CONSTANTS
  FSKinds = {"std", "mem", "rec"}
  PathIds = {1, 2, 3, 4, 5, 6}
  Vals = {1, 2, 3}
  MaxRecs = 4
  MemPaths = {1, 2, 3, 4, 5, 6}
  Avoid = {}
  Mirror = FALSE
  MaxLevel = 100
  SimK = 2
INVARIANT ReadYourWrites
INVARIANT SeqReadYourWrites
INVARIANT WritesSucceed
