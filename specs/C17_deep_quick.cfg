SPECIFICATION Spec
CONSTANTS
  Threads = {1}
  Deep = 1
  MaxDepth = 3
  ShallowDepth = 0
  Fams <- Families
  Mirror = FALSE
VIEW noact
INVARIANT NestingRule
INVARIANT ViewIsProjection
INVARIANT TimeitOK
INVARIANT Narrowing
INVARIANT QuiescentIsDefault
PROPERTY Restores
PROPERTY Isolation
PROPERTY RefusedIsNoop
PROPERTY InnerFaultIsNoop
