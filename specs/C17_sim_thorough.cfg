SPECIFICATION Spec
CONSTANTS
  Threads = {1, 2, 3, 4}
  Deep = 1
  MaxDepth = 7
  ShallowDepth = 3
  Fams <- EveryFam
  Mirror = FALSE
INVARIANT NestingRule
INVARIANT ViewIsProjection
INVARIANT TimeitOK
INVARIANT Narrowing
INVARIANT QuiescentIsDefault
PROPERTY Restores
PROPERTY Isolation
PROPERTY RefusedIsNoop
PROPERTY InnerFaultIsNoop
