SPECIFICATION Spec
CONSTANTS
  Budget = 0
  SpaceSize = 6
  MaxMeas = 2
  Rewards <- PalNZP
  Accs = {1}
  Steps = {0, 1}
  Extras = {0}
  MonotoneSteps = TRUE
  Objective = "reward"
  Policy = "neg"
  CtrlAt = {2, 5, 6}
  MetaKeys = {1}
  MetaVals = {1, 2}
  LinkNames = {1}
  Urls = {1, 2}
  FinalRule = "last"
  BestRule = "strict"
  LinksRule = "recorded"
  RedoneRule = "noop"
  SimK = 1
INVARIANT TypeOK
INVARIANT IdsDense
INVARIANT SweepOrder
INVARIANT BudgetRespected
INVARIANT OnePending
INVARIANT FinalShape
INVARIANT FinalIsLargestStep
INVARIANT BestIsArgmax
INVARIANT FedIsHistory
INVARIANT CountersMatch
INVARIANT HandlesAreYielded
INVARIANT CtrlTrialsShape
PROPERTY TrialsOnlyGrow
PROPERTY MeasAppendOnly
PROPERTY CompletedFrozen
PROPERTY EndIsFinal
PROPERTY ClosedStaysClosed
PROPERTY PendingIsReoffered
PROPERTY FailedCallChangesNothing
PROPERTY ReadsArePure
PROPERTY MetaWriteIsolated
PROPERTY MetaReadIsCurrent
PROPERTY DoneRecordsExtras
PROPERTY BestOnlyImproves
PROPERTY FedAppendOnly
PROPERTY SkipNeverFeeds
PROPERTY StopEarlyIsPolicy
