SPECIFICATION OpsSpec
CONSTANTS
  IterUniverse <- U_tiny
  MaxSize = 200
  OpsUniverse <- U_ops
  Mirror = TRUE
  ShareMemo = FALSE
  MaxOps = 3
INVARIANT OpsAligned
INVARIANT OpsLookup
