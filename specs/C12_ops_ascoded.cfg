SPECIFICATION OpsSpec
CONSTANTS
  IterUniverse <- U_tiny
  MaxSize = 200
  OpsUniverse <- U_ops
  Mirror = TRUE
  MaxOps = 3
INVARIANT OpsAligned
INVARIANT OpsLookup
