SPECIFICATION Spec
CONSTANTS
  MaxPos = 3
  KwNames = {1, 2, 3, 11, 12, 21}
  MaxArgs = 4
  MaxKw = 6
  MaxSteps = 0
  MaxRebind = 1
  CtorModeSet = {"distinct", "equal", "boxed"}
  CallModeSet = {"distinct", "equal", "asbound"}
  FlagAtSet = {"init", "call"}
  AsCoded = FALSE
  SimK = 0
CONSTRAINT StepBound
