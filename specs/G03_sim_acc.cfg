SPECIFICATION Spec
CONSTANTS
  Budget = 3
  SpaceSize = 3
  MaxMeas = 3
  Rewards = {2}
  Accs <- PalNZP
  Steps = {0, 1, 2}
  Extras = {0, 1}
  MonotoneSteps = TRUE
  Objective = "acc"
  Policy = "neg"
  CtrlAt = {}
  MetaKeys = {1}
  MetaVals = {1, 2}
  LinkNames = {1}
  Urls = {1}
  FinalRule = "last"
  BestRule = "strict"
  LinksRule = "recorded"
  RedoneRule = "noop"
  SimK = 1
INVARIANT TypeOK
INVARIANT IdsDense
INVARIANT SweepOrder
INVARIANT BudgetRespected
INVARIANT OnePending
INVARIANT FinalShape
INVARIANT FinalIsLargestStep
INVARIANT BestIsArgmax
INVARIANT FedIsHistory
INVARIANT CountersMatch
INVARIANT HandlesAreYielded
INVARIANT CtrlTrialsShape
PROPERTY TrialsOnlyGrow
PROPERTY MeasAppendOnly
PROPERTY CompletedFrozen
PROPERTY EndIsFinal
PROPERTY ClosedStaysClosed
PROPERTY PendingIsReoffered
PROPERTY FailedCallChangesNothing
PROPERTY ReadsArePure
PROPERTY MetaWriteIsolated
PROPERTY MetaReadIsCurrent
PROPERTY DoneRecordsExtras
PROPERTY BestOnlyImproves
PROPERTY FedAppendOnly
PROPERTY SkipNeverFeeds
PROPERTY StopEarlyIsPolicy
