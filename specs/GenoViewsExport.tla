--------------------------- MODULE GenoViewsExport ---------------------------
(* Exports the C12 universe: every spec with a spread sample of its valid DNAs (as raw trees). *)
EXTENDS GenoViews, Json, IOUtils

CONSTANTS ViewUniverse, NumTrees

Salt == atoi(IOEnv.SALT)

Entry(s, i) ==
  LET vs == SetToSeq(ValidTrees(s)) IN
  [index |-> i, spec |-> s, size |-> Size(s), trees |-> [j \in 1..Cardinality(Pick(Len(vs), NumTrees, Salt)) |->
                                                         vs[SetToSeq(Pick(Len(vs), NumTrees, Salt))[j]]]]

ASSUME LET specs == SetToSeq(ViewUniverse) IN
       /\ JsonSerialize(IOEnv.OUT_FILE, [i \in 1..Len(specs) |-> Entry(specs[i], i)])
       /\ PrintT(<<"exported", Len(specs)>>)
=============================================================================
