--------------------------- MODULE GenoViewsExport ---------------------------
(* Exports the C12 universe: every spec with a spread sample of its valid DNAs (as raw trees). *)
EXTENDS GenoViews, Json, IOUtils

CONSTANTS ViewUniverse, NumTrees

Salt == atoi(IOEnv.SALT)

\* a spread sample rotated by the salt, plus ALWAYS the first and the last valid tree of TLC's order (boundary
\* values: the smallest and the largest candidate indices)
Entry(s, i) ==
  LET vs == SetToSeq(ValidTrees(s))
      pk == SetToSeq(Pick(Len(vs), NumTrees, Salt) \cup {1, Len(vs)})
  IN [index |-> i, spec |-> s, size |-> Size(s), trees |-> [j \in 1..Len(pk) |-> vs[pk[j]]]]

ASSUME LET specs == SetToSeq(ViewUniverse) IN
       /\ JsonSerialize(IOEnv.OUT_FILE, [i \in 1..Len(specs) |-> Entry(specs[i], i)])
       /\ PrintT(<<"exported", Len(specs)>>)
=============================================================================
