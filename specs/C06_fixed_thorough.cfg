SPECIFICATION Spec
CONSTANTS
  Tier = "thorough"
  Canonical = TRUE
  Mode = "design"
INVARIANT LawsHold
INVARIANT SortTotal
