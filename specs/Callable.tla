------------------------------ MODULE Callable ------------------------------
(***************************************************************************)
(* Python argument binding and the life cycle of a symbolic functor (C18). *)
(*                                                                         *)
(* Signatures  [npos, ndef, va, k1, k2, vk]:                               *)
(*   def f(p1, .., p_npos (the last ndef with defaults), *args (va),       *)
(*         k11 (keyword-only, required: k1), k12=.. (keyword-only with     *)
(*         default: k2), **kw (vk))                                        *)
(* Parameter names are ints: 1..3 positional-or-keyword, 11 / 12 keyword-  *)
(* only, 21 / 22 names that no signature declares.  Positional-only        *)
(* parameters are outside the property and not modelled.                   *)
(* Argument VALUES are ints that say where a value came from, so that the  *)
(* result of a call tells which argument reached which parameter:          *)
(*   100+i  i-th positional argument at construction                       *)
(*   200+n  keyword n at construction      500+n  f.n = ..  (setattr)      *)
(*   300+i  i-th positional argument of the call   600+n  f.rebind(n=..)   *)
(*   400+n  keyword n of the call          900+p  the default of p         *)
(* The error kind of a binding never depends on the values, so every step  *)
(* that supplies arguments has a VALUE MODE: "distinct" (as above),        *)
(* "equal" (a keyword carries the value the positional route would carry:  *)
(* f(1, p1=1)), at construction "boxed" (every value v is the symbolic     *)
(* container pg.Dict(x=v), written Box(v) = 100000+v), at call time        *)
(* "asbound" (the value already bound to that parameter is passed again).  *)
(* At construction also "asdefault": every parameter that has a default    *)
(* receives 950+p, a value EQUAL to its default 900+p but a distinct       *)
(* object (IsDefaultVal); rebind entries <<"dflt", n>> write such a value  *)
(* over a non-default one.  What the functor reports as non_default_args / *)
(* default_args is decided by the VALUE (NonDefaultArgs / DefaultArgs).    *)
(* Two live functors: `Fork` copies the active functor (clone / copy.copy / *)
(* copy.deepcopy / pg.clone in the driver) into the passive slot `other`,  *)
(* `Swap` exchanges the slots; every other action works on the active one  *)
(* and must leave the passive one - what it reports and how it answers the *)
(* two probe calls - untouched (CloneIsolated).                            *)
(* A rebind is an ORDERED list of 1..MaxRebind entries with distinct       *)
(* targets: <<"top", n>> binds n to 600+n, <<"box", n>> to Box(650+n),     *)
(* <<"in", n>> writes 800+n at the nested path n.x of a boxed argument.    *)
(*                                                                         *)
(* BindV is Python's binding algorithm (validated against the interpreter  *)
(* on every exported signature x call).  The life cycle                    *)
(*    Construct(call0) -> (SetAttr | DelAttr | Rebind | Clone | JsonRT)*   *)
(*                     -> Call(call1, override_args, ignore_extra_args)    *)
(* keeps the arguments bound so far (`bound`, `vargs`); EffectiveCall      *)
(* merges them with the call-time arguments as the Functor documentation   *)
(* describes, and the outcome of the call is BindV of that effective       *)
(* direct call.                                                            *)
(*                                                                         *)
(* AsCoded = FALSE: a parameter given both positionally and by keyword in  *)
(*   the SAME call is an error, as in Python.                              *)
(* AsCoded = TRUE : the keyword silently wins (functor.py as written), so  *)
(*   that TLC can exhibit the disagreement with BindV at design level.     *)
(***************************************************************************)
EXTENDS Integers, Sequences, FiniteSets, TLC, Randomization

CONSTANTS MaxPos,     \* positional-or-keyword parameters: 0..MaxPos
          KwNames,    \* keyword names a call may use, subset of {1, 2, 3, 11, 12, 21, 22}
          MaxArgs,    \* positional arguments in a call: 0..MaxArgs
          MaxKw,      \* at most this many keywords per call
          MaxSteps,   \* bound on the number of life-cycle steps (state constraint)
          MaxRebind,  \* entries in one rebind: 1..MaxRebind
          CtorModeSet, CallModeSet,   \* value modes explored (subsets of CtorModes / CallModes)
          FlagAtSet,  \* where the two flags may be given: subset of {"init", "call"}
          AsCoded,    \* see above
          SimK        \* 0: exhaustive argument sets; k > 0: k random members (simulation configs only)

VARIABLES sig,        \* the signature of the function under the functor
          phase,      \* "new" (no functor yet) | "built"
          bound,      \* specified named arguments: function name -> value
          vargs,      \* prebound *args (sequence of values)
          ovr, ign,   \* override_args / ignore_extra_args given to the constructor
          flagAt,     \* "init": the flags were given to the constructor; "call": they are passed with each call
          res,        \* outcome of the last Construct / Call
          rep,        \* what the functor must report as its arguments (sym_init_args) after the step
          other,      \* the passive functor (a copy made by Fork): [live, bound, vargs, ovr, ign, flagAt, rep]
          act,        \* the last call, for the replay driver
          steps

vars == <<sig, phase, bound, vargs, ovr, ign, flagAt, res, rep, other, act, steps>>

-----------------------------------------------------------------------------
Sigs == {[npos |-> n, ndef |-> d, va |-> va, k1 |-> k1, k2 |-> k2, vk |-> vk] :
           n \in 0..MaxPos, d \in 0..MaxPos, va \in BOOLEAN, k1 \in BOOLEAN, k2 \in BOOLEAN, vk \in BOOLEAN}
WFSigs == {s \in Sigs : s.ndef <= s.npos}
SubsetsUpTo(S, k) == {X \in SUBSET S : Cardinality(X) <= k}
Calls == {[nargs |-> a, kw |-> k] : a \in 0..MaxArgs, k \in SubsetsUpTo(KwNames, MaxKw)}

Default(p) == 900 + p
PosParams(s) == 1..s.npos
KwOnly(s) == (IF s.k1 THEN {11} ELSE {}) \cup (IF s.k2 THEN {12} ELSE {})
Named(s) == PosParams(s) \cup KwOnly(s)
HasDefault(s, p) == (p \in PosParams(s) /\ p > s.npos - s.ndef) \/ p = 12
Required(s) == {p \in Named(s) : ~HasDefault(s, p)}
EmptyMap == [n \in {} |-> 0]
Restrict(f, S) == [n \in (DOMAIN f) \cap S |-> f[n]]
Override(f, g) == [n \in (DOMAIN f) \cup (DOMAIN g) |-> IF n \in DOMAIN g THEN g[n] ELSE f[n]]

Err(kind) == [err |-> kind, vals |-> EmptyMap, va |-> <<>>, kwx |-> EmptyMap]

(* Python's argument binding: pos = sequence of positional values, kw = function name -> value *)
BindV(s, pos, kw) ==
  LET filledByPos == {p \in PosParams(s) : p <= Len(pos)}
      extra == IF Len(pos) > s.npos THEN SubSeq(pos, s.npos + 1, Len(pos)) ELSE <<>>
      kwKnown == (DOMAIN kw) \cap Named(s)
      kwUnknown == (DOMAIN kw) \ Named(s)
      multiple == kwKnown \cap filledByPos
      missing == Required(s) \ (filledByPos \cup kwKnown)
  IN IF Len(pos) > s.npos /\ ~s.va THEN Err("toomany")
     ELSE IF multiple # {} THEN Err("multiple")
     ELSE IF kwUnknown # {} /\ ~s.vk THEN Err("unexpected")
     ELSE IF missing # {} THEN Err("missing")
     ELSE [err |-> "ok",
           vals |-> [p \in Named(s) |-> IF p \in filledByPos THEN pos[p]
                                        ELSE IF p \in kwKnown THEN kw[p] ELSE Default(p)],
           va |-> extra,
           kwx |-> [n \in kwUnknown |-> kw[n]]]

\* symbolic container values: Box(v) is pg.Dict(x=v)
BOX == 100000
Box(v) == BOX + v
IsBox(v) == v >= BOX
UnBox(v) == v - BOX

\* a call shape with values drawn from the bases (100/200 at construction, 300/400 at call time); equal bases =
\* value mode "equal"
PosVals(c, base) == [k \in 1..c.nargs |-> base + k]
KwVals(c, base) == [n \in c.kw |-> base + n]
BindShape(s, c, pbase, kbase) == BindV(s, PosVals(c, pbase), KwVals(c, kbase))

CtorModes == {"distinct", "equal", "boxed", "asdefault"}
CallModes == {"distinct", "equal", "asbound"}
CV(vm, v) == IF vm = "boxed" THEN Box(v) ELSE v
DefaultCopy(p) == 950 + p                               \* equal to Default(p), not the same object
IsDefaultVal(p, v) == v = Default(p) \/ v = DefaultCopy(p)
CtorPos(s, c, vm) == [k \in 1..c.nargs |-> IF vm = "asdefault" /\ HasDefault(s, k) THEN DefaultCopy(k) ELSE CV(vm, 100 + k)]
CtorKw(s, c, vm) == [n \in c.kw |-> IF vm = "asdefault" /\ n \in Named(s) /\ HasDefault(s, n) THEN DefaultCopy(n)
                                    ELSE CV(vm, (IF vm = "equal" THEN 100 ELSE 200) + n)]
CallPosVal(b, cm, p) == IF cm = "asbound" /\ p \in DOMAIN b THEN b[p] ELSE 300 + p
CallKwVal(b, cm, n) == IF cm = "asbound" /\ n \in DOMAIN b THEN b[n] ELSE (IF cm = "distinct" THEN 400 ELSE 300) + n
CallPosSeq(s, b, cm, c) == [k \in 1..c.nargs |-> IF k <= s.npos THEN CallPosVal(b, cm, k) ELSE 300 + k]
CallKwMap(b, cm, c) == [n \in c.kw |-> CallKwVal(b, cm, n)]

-----------------------------------------------------------------------------
(* Construction: partial binding allowed, so "missing" is not an error here *)
ConstructOutcome(s, c) ==
  IF c.nargs > s.npos /\ ~s.va THEN "toomany"
  ELSE IF c.kw \cap {p \in PosParams(s) : p <= c.nargs} # {} THEN "multiple"
  ELSE IF (c.kw \ Named(s)) # {} /\ ~s.vk THEN "unexpected"
  ELSE "ok"
\* pos / kw: the valued arguments (sequence, function)
BoundOf(s, pos, kw) ==
  [n \in {p \in PosParams(s) : p <= Len(pos)} \cup DOMAIN kw |-> IF n \in PosParams(s) /\ n <= Len(pos) THEN pos[n] ELSE kw[n]]
VargsOf(s, pos) == IF Len(pos) > s.npos THEN SubSeq(pos, s.npos + 1, Len(pos)) ELSE <<>>
ConstructBound(s, c, vm) == BoundOf(s, CtorPos(s, c, vm), CtorKw(s, c, vm))
ConstructVargs(s, c, vm) == VargsOf(s, CtorPos(s, c, vm))

(* The call: merge rule of the Functor documentation *)
CallPos(s, c) == {p \in PosParams(s) : p <= c.nargs}
CallError(s, b, c, ov, ig) ==
  IF c.nargs > s.npos /\ ~s.va /\ ~ig THEN "toomany"
  ELSE IF ~ov /\ (CallPos(s, c) \cup c.kw) \cap (DOMAIN b) # {} THEN "rebound"       \* rebinding needs override_args
  ELSE IF ~AsCoded /\ CallPos(s, c) \cap c.kw # {} THEN "multiple"                    \* twice in the same call
  ELSE IF (c.kw \ Named(s)) # {} /\ ~s.vk /\ ~ig THEN "unexpected"
  ELSE "ok"
MergedNamed(s, b, c, ig, cm) ==
  LET fromPos == [p \in CallPos(s, c) |-> CallPosVal(b, cm, p)]
      kws == IF s.vk THEN c.kw ELSE c.kw \cap Named(s)                                 \* ignored extras are dropped
      fromKw == [n \in kws |-> CallKwVal(b, cm, n)]
  IN Override(Override(b, fromPos), fromKw)
MergedVargs(s, v, c) == IF c.nargs > s.npos /\ s.va THEN VargsOf(s, CallPosSeq(s, EmptyMap, "distinct", c)) ELSE v

\* the direct call that has the same effective arguments
EffectiveCall(s, named, va) ==
  IF va = <<>> THEN [pos |-> <<>>, kw |-> named, short |-> FALSE]
  ELSE LET have == {p \in PosParams(s) : p \in DOMAIN named \/ HasDefault(s, p)}
       IN [pos |-> [p \in PosParams(s) |-> IF p \in DOMAIN named THEN named[p] ELSE Default(p)] \o va,
           kw |-> Restrict(named, (DOMAIN named) \ PosParams(s)),
           short |-> have # PosParams(s)]      \* a required positional parameter has no value at all
CallOutcome(s, b, v, c, ov, ig, cm) ==
  LET e == CallError(s, b, c, ov, ig) IN
  IF e # "ok" THEN Err(e)
  ELSE LET ec == EffectiveCall(s, MergedNamed(s, b, c, ig, cm), MergedVargs(s, v, c))
       IN IF ec.short THEN Err("missing") ELSE BindV(s, ec.pos, ec.kw)

\* the same outcome computed without going through a direct call: used to check that the effective call is well defined
MergedOutcome(s, b, v, c, ov, ig, cm) ==
  LET e == CallError(s, b, c, ov, ig)
      named == MergedNamed(s, b, c, ig, cm)
  IN IF e # "ok" THEN Err(e)
     ELSE IF Required(s) \ (DOMAIN named) # {} THEN Err("missing")
     ELSE [err |-> "ok", vals |-> [p \in Named(s) |-> IF p \in DOMAIN named THEN named[p] ELSE Default(p)],
           va |-> MergedVargs(s, v, c), kwx |-> Restrict(named, (DOMAIN named) \ Named(s))]

\* what the functor reports as its arguments (sym_init_args): specified value, else the default, else MISSING (0)
Reported(s, b) == [p \in Named(s) |-> IF p \in DOMAIN b THEN b[p] ELSE IF HasDefault(s, p) THEN Default(p) ELSE 0]

\* the documented argument sets: non_default_args = bound arguments whose value is not the default; default_args =
\* arguments whose value is the default (bound to it or left to it); `*args` counts under the name ARGS
ARGS == 99
NonDefaultArgs(s, b, v) == {n \in DOMAIN b : ~(n \in Named(s) /\ HasDefault(s, n) /\ IsDefaultVal(n, b[n]))}
                           \cup (IF v # <<>> THEN {ARGS} ELSE {})
DefaultArgs(s, b, v) == {p \in Named(s) : HasDefault(s, p) /\ (p \notin DOMAIN b \/ IsDefaultVal(p, b[p]))}
                        \cup (IF s.va /\ v = <<>> THEN {ARGS} ELSE {})
\* two probe calls that observe the binding bookkeeping from outside: "late" passes every named parameter that is
\* NOT specified by keyword without override_args (must be accepted: nothing is bound twice), "plain" passes nothing
ProbeNames(s, b) == Named(s) \ DOMAIN b
LateProbe(s, b, v) == CallOutcome(s, b, v, [nargs |-> 0, kw |-> ProbeNames(s, b)], FALSE, FALSE, "distinct")
PlainProbe(s, b, v) == CallOutcome(s, b, v, [nargs |-> 0, kw |-> {}], FALSE, FALSE, "distinct")
Report(s, b, v) == [args |-> Reported(s, b), nondef |-> NonDefaultArgs(s, b, v), dflt |-> DefaultArgs(s, b, v),
                    probe |-> ProbeNames(s, b), late |-> LateProbe(s, b, v), plain |-> PlainProbe(s, b, v)]
NoRep == [args |-> EmptyMap, nondef |-> {}, dflt |-> {}, probe |-> {}, late |-> Err("none"), plain |-> Err("none")]
NoOther == [live |-> FALSE, bound |-> EmptyMap, vargs |-> <<>>, ovr |-> FALSE, ign |-> FALSE, flagAt |-> "call", rep |-> NoRep]

(* Symbolization with an explicit value spec for parameter p (pg.functor([(p, spec)]), pg.symbolize(f, [..]),      *)
(* pg.wrap(cls, [..])).  Documented: a spec whose default conflicts with the callable's own default is refused       *)
(* (ValueError); otherwise the callable's default stands, i.e. the annotated callable binds exactly like `s`.         *)
SpecModes == {"nodefault", "same", "noneable", "conflict"}
SpecModeOK(s, p, m) == p \in Named(s) /\ (m = "same" => HasDefault(s, p))
\* ("either": a default given for a parameter that has NO default in the callable - the documentation only speaks of
\* two defaults that disagree; today a noneable spec loses its default silently, another one is refused: don't-care,
\* but an accepted annotation must still leave the parameter required.)
AnnotateOutcome(s, p, m) == IF m # "conflict" THEN "accepted" ELSE IF HasDefault(s, p) THEN "refused" ELSE "either"
AnnotatedSig(s, p, m) == s

(* Rebind: an ordered list of entries <<kind, name>> with distinct targets *)
EntryOK(s, b, e) == /\ e[2] \in Named(s)
                    \* an equal-to-default value is only written over a different value (writing it over the default
                    \* itself changes nothing; whether that "specifies" the argument is undocumented)
                    /\ (e[1] = "dflt") => (HasDefault(s, e[2]) /\ e[2] \in DOMAIN b /\ ~IsDefaultVal(e[2], b[e[2]]))
                    /\ (e[1] = "in") => (e[2] \in DOMAIN b /\ IsBox(b[e[2]]))
EntryVal(e) == IF e[1] = "top" THEN 600 + e[2] ELSE IF e[1] = "box" THEN Box(650 + e[2])
               ELSE IF e[1] = "dflt" THEN DefaultCopy(e[2]) ELSE Box(800 + e[2])
ApplyEntry(b, e) == Override(b, [m \in {e[2]} |-> EntryVal(e)])
RECURSIVE ApplySeq(_, _)
ApplySeq(b, es) == IF es = <<>> THEN b ELSE ApplySeq(ApplyEntry(b, Head(es)), Tail(es))   \* in the order given
\* the same, order-free: every target gets the value of its (only) entry
ApplySet(b, es) == Override(b, [m \in {es[k][2] : k \in 1..Len(es)} |->
                                  EntryVal(es[CHOOSE k \in 1..Len(es) : es[k][2] = m])])
DistinctTargets(es) == \A k1, k2 \in 1..Len(es) : k1 # k2 => es[k1][2] # es[k2][2]

-----------------------------------------------------------------------------
P(S) == IF SimK = 0 \/ S = {} THEN S ELSE RandomSubset(IF SimK < Cardinality(S) THEN SimK ELSE Cardinality(S), S)
NoRes == Err("none")

Init == /\ sig \in WFSigs /\ phase = "new" /\ bound = EmptyMap /\ vargs = <<>> /\ ovr = FALSE /\ ign = FALSE
        /\ flagAt = "call" /\ res = NoRes /\ act = <<"Init">> /\ steps = 0 /\ rep = NoRep /\ other = NoOther

Construct(c, o, g, fa, vm) ==
  /\ phase = "new"
  /\ (fa = "call") => (~o /\ ~g)
  /\ LET e == ConstructOutcome(sig, c) IN
       /\ res' = Err(e)
       /\ IF e = "ok"
          THEN /\ phase' = "built" /\ bound' = ConstructBound(sig, c, vm) /\ vargs' = ConstructVargs(sig, c, vm)
               /\ ovr' = o /\ ign' = g /\ flagAt' = fa
          ELSE UNCHANGED <<phase, bound, vargs, ovr, ign, flagAt>>
  /\ rep' = IF phase' = "built" THEN Report(sig, bound', vargs') ELSE NoRep
  /\ act' = <<"Construct", CtorPos(sig, c, vm), CtorKw(sig, c, vm), o, g, fa, vm>>    \* the valued arguments themselves
  /\ steps' = steps + 1 /\ UNCHANGED <<sig, other>>

SetAttr(n) ==
  /\ phase = "built" /\ n \in Named(sig)
  /\ bound' = Override(bound, [m \in {n} |-> 500 + n])
  /\ act' = <<"SetAttr", n, 500 + n>> /\ res' = NoRes /\ steps' = steps + 1 /\ rep' = Report(sig, bound', vargs)
  /\ UNCHANGED <<sig, phase, vargs, ovr, ign, flagAt, other>>

DelAttr(n) ==
  /\ phase = "built" /\ n \in (DOMAIN bound) \cap Named(sig)
  /\ bound' = Restrict(bound, (DOMAIN bound) \ {n})
  /\ act' = <<"DelAttr", n>> /\ res' = NoRes /\ steps' = steps + 1 /\ rep' = Report(sig, bound', vargs)
  /\ UNCHANGED <<sig, phase, vargs, ovr, ign, flagAt, other>>

Rebind(es) ==
  /\ phase = "built" /\ es # <<>> /\ DistinctTargets(es) /\ \A k \in 1..Len(es) : EntryOK(sig, bound, es[k])
  /\ bound' = ApplySeq(bound, es)
  /\ act' = <<"Rebind", [k \in 1..Len(es) |-> <<es[k][1], es[k][2], EntryVal(es[k])>>]>> /\ res' = NoRes /\ steps' = steps + 1 /\ rep' = Report(sig, bound', vargs)
  /\ UNCHANGED <<sig, phase, vargs, ovr, ign, flagAt, other>>

\* replacing the functor by its clone keeps everything, flags included
Clone == /\ phase = "built" /\ act' = <<"Clone">> /\ res' = NoRes /\ steps' = steps + 1
         /\ UNCHANGED <<sig, phase, bound, vargs, ovr, ign, flagAt, rep, other>>
\* a JSON round trip keeps the arguments; the two flags are not arguments, so afterwards they travel with the call
JsonRT == /\ phase = "built" /\ act' = <<"JsonRT">> /\ res' = NoRes /\ steps' = steps + 1
          /\ flagAt' = "call" /\ ovr' = FALSE /\ ign' = FALSE
          /\ UNCHANGED <<sig, phase, bound, vargs, rep, other>>

Call(c, ov, ig, cm) ==
  /\ phase = "built"
  /\ (flagAt = "init") => (ov = ovr /\ ig = ign)
  \* don't-care (documentation silent): call-time *args while *args were prebound
  /\ ~(c.nargs > sig.npos /\ sig.va /\ vargs # <<>>)
  /\ res' = CallOutcome(sig, bound, vargs, c, ov, ig, cm)
  /\ act' = <<"Call", CallPosSeq(sig, bound, cm, c), CallKwMap(bound, cm, c), ov, ig, cm>>
  /\ steps' = steps + 1
  /\ UNCHANGED <<sig, phase, bound, vargs, ovr, ign, flagAt, rep, other>>

\* dropping the functor: the walk may build another one for the same function
Drop == /\ phase = "built" /\ phase' = "new" /\ bound' = EmptyMap /\ vargs' = <<>> /\ ovr' = FALSE /\ ign' = FALSE
        /\ flagAt' = "call" /\ res' = NoRes /\ act' = <<"Drop">> /\ steps' = steps + 1 /\ rep' = NoRep /\ other' = NoOther /\ UNCHANGED sig

\* a second live functor: the passive slot receives a copy of the active functor (flags included)
Fork == /\ phase = "built" /\ ~other.live
        /\ other' = [live |-> TRUE, bound |-> bound, vargs |-> vargs, ovr |-> ovr, ign |-> ign, flagAt |-> flagAt, rep |-> rep]
        /\ act' = <<"Fork">> /\ res' = NoRes /\ steps' = steps + 1
        /\ UNCHANGED <<sig, phase, bound, vargs, ovr, ign, flagAt, rep>>
\* the passive functor becomes the active one and vice versa
Swap == /\ phase = "built" /\ other.live
        /\ bound' = other.bound /\ vargs' = other.vargs /\ ovr' = other.ovr /\ ign' = other.ign /\ flagAt' = other.flagAt
        /\ rep' = other.rep
        /\ other' = [live |-> TRUE, bound |-> bound, vargs |-> vargs, ovr |-> ovr, ign |-> ign, flagAt |-> flagAt, rep |-> rep]
        /\ act' = <<"Swap">> /\ res' = NoRes /\ steps' = steps + 1
        /\ UNCHANGED <<sig, phase>>

\* simulation only: mostly arguments that the step accepts, plus a few arbitrary ones
CtorCalls == IF SimK = 0 THEN Calls
             ELSE P({c \in Calls : ConstructOutcome(sig, c) = "ok"}) \cup RandomSubset(1, Calls)
CallCalls == IF SimK = 0 THEN Calls
             ELSE P({c \in Calls : \E ov \in BOOLEAN : CallOutcome(sig, bound, vargs, c, ov, FALSE, "distinct").err = "ok"})
                  \cup RandomSubset(2, Calls)
Entries == {e \in {"top", "box", "in", "dflt"} \X Named(sig) : EntryOK(sig, bound, e)}
\* (simulation: two random entries per position, so that rebinds do not crowd out the other actions)
PR(S) == IF SimK = 0 \/ S = {} THEN S ELSE RandomSubset(IF Cardinality(S) < 2 THEN 1 ELSE 2, S)
RebindSeqs == {<<e>> : e \in PR(Entries)}
              \cup (IF MaxRebind >= 2 THEN {<<e1, e2>> : e1 \in PR(Entries), e2 \in PR(Entries)} ELSE {})
              \cup (IF MaxRebind >= 3 THEN {<<e1, e2, e3>> : e1 \in PR(Entries), e2 \in PR(Entries), e3 \in PR(Entries)} ELSE {})
Next == /\ steps < MaxSteps        \* (a guard rather than a state constraint: successors beyond the bound are not even built)
        /\ \/ \E c \in CtorCalls, o \in BOOLEAN, g \in BOOLEAN, fa \in FlagAtSet, vm \in CtorModeSet :
                Construct(c, o, g, fa, vm)
           \/ \E n \in Named(sig) : SetAttr(n) \/ DelAttr(n)
           \/ \E es \in RebindSeqs : Rebind(es)
           \/ Clone \/ JsonRT \/ Drop \/ Fork \/ Swap
           \/ \E c \in CallCalls, ov \in BOOLEAN, ig \in BOOLEAN, cm \in CallModeSet : Call(c, ov, ig, cm)
Spec == Init /\ [][Next]_vars
StepBound == steps <= MaxSteps
\* exhaustive configs of depth > 2: only the last step is a Call (a call changes nothing, so nothing is lost)
CallsLast == (act[1] = "Call") => steps = MaxSteps

-----------------------------------------------------------------------------
(* Invariants *)
TypeOK == /\ sig \in WFSigs /\ phase \in {"new", "built"}
          /\ DOMAIN bound \subseteq Named(sig) \cup (IF sig.vk THEN KwNames ELSE {})
          /\ (vargs # <<>>) => sig.va
          /\ (phase = "new") => (bound = EmptyMap /\ vargs = <<>> /\ ~other.live)
          /\ other.live => other.rep = Report(sig, other.bound, other.vargs)
          /\ ~other.live => other = NoOther
          /\ rep = (IF phase = "built" THEN Report(sig, bound, vargs) ELSE NoRep)
          /\ rep.nondef \cap rep.dflt = {}
          /\ (phase = "built") => (DOMAIN bound \subseteq rep.nondef \cup rep.dflt)
          /\ res.err \in {"none", "ok", "toomany", "multiple", "rebound", "unexpected", "missing"}

\* the effective direct call is well defined: binding it gives exactly the merged arguments
EffectiveWellDefined ==
  (act[1] = "Call") =>
    LET c == [nargs |-> Len(act[2]), kw |-> DOMAIN act[3]] IN
      res = MergedOutcome(sig, bound, vargs, c, act[4], act[5], act[6])

\* a successful call returns a value for every parameter, each traceable to one place
ResultComplete ==
  (act[1] = "Call" /\ res.err = "ok") =>
    /\ DOMAIN res.vals = Named(sig)
    /\ \A p \in Named(sig) : res.vals[p] \in {300 + p, 400 + p} \cup (IF p \in DOMAIN bound THEN {bound[p]} ELSE {Default(p)})
    /\ \A p \in Required(sig) : res.vals[p] # Default(p)
    /\ (res.va # <<>>) => sig.va
    /\ (DOMAIN res.kwx # {}) => sig.vk

\* what is reported as default / non-default is what a call that does not supply the argument really uses
ReportedSetsAreEffective ==
  (act[1] = "Call" /\ res.err = "ok") =>
    \A p \in Named(sig) :
      (p > Len(act[2]) /\ p \notin DOMAIN act[3]) =>
        /\ (p \in rep.dflt) => IsDefaultVal(p, res.vals[p])
        /\ (p \in rep.nondef) => ~IsDefaultVal(p, res.vals[p])

(* Action properties *)
\* a call never changes what is bound; mutators never produce an outcome
CallIsPure == [][(act'[1] = "Call") => UNCHANGED <<bound, vargs, ovr, ign, flagAt, phase>>]_vars

\* binding everything at construction and calling without arguments is the direct call
FullBindAgrees ==
  [][(act[1] = "Construct" /\ res.err = "ok" /\ act'[1] = "Call" /\ act'[2] = <<>> /\ DOMAIN act'[3] = {}) =>
       LET d == BindV(sig, act[2], act[3])
       IN res'.err = d.err /\ (d.err = "ok" => res' = d)]_vars

\* binding nothing at construction and everything in the call is the direct call (ignore_extra_args off)
LateBindAgrees ==
  [][(act[1] = "Construct" /\ res.err = "ok" /\ act[2] = <<>> /\ DOMAIN act[3] = {} /\ act'[1] = "Call" /\ ~act'[5]) =>
       res' = BindV(sig, act'[2], act'[3])]_vars

\* a construction error is exactly a direct-call error other than "missing", whatever the values
ConstructAgrees ==
  [][(act'[1] = "Construct") =>
       LET d == BindV(sig, act'[2], act'[3])
       IN (res'.err # "ok") <=> (d.err \in {"toomany", "multiple", "unexpected"})]_vars

\* the outcome kind of a call does not depend on the value mode
ValuesDoNotMatter ==
  [][(act'[1] = "Call") =>
       \A cm \in CallModes :
         CallOutcome(sig, bound, vargs, [nargs |-> Len(act'[2]), kw |-> DOMAIN act'[3]], act'[4], act'[5], cm).err
           = res'.err]_vars

\* a rebind gives every target the value of its entry, in whatever order the entries are listed, and marks exactly
\* the top-level targets as specified
RebindOrderFree ==
  [][(act'[1] = "Rebind") =>
       /\ bound' = ApplySet(bound, act'[2])          \* (entries carry <<kind, name, value>>; ApplySet reads kind, name)
       /\ DOMAIN bound' = (DOMAIN bound) \cup {act'[2][k][2] : k \in 1..Len(act'[2])}]_vars

\* copy independence: only Fork / Swap / Drop touch the passive functor - whatever is done to the active one, the
\* passive one reports the same arguments and answers the probe calls the same way; a fresh copy reports what the
\* original reports, and forking does not change the original
CloneIsolated ==
  [][/\ (act'[1] \notin {"Fork", "Swap", "Drop"}) => other' = other
     /\ (act'[1] = "Fork") => (other'.rep = rep /\ rep' = rep /\ other'.bound = bound /\ other'.vargs = vargs)
     /\ (act'[1] = "Swap") => (other'.rep = rep /\ rep' = other.rep)]_vars

view == <<sig, phase, bound, vargs, ovr, ign, flagAt, res, other, act>>
=============================================================================
