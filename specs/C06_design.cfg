SPECIFICATION Spec
CONSTANTS
  Tier = "quick"
  Canonical = FALSE
  T <- RefT
INVARIANT LawsHoldOutsideZones
INVARIANT SortTotalOutsideZones
