SPECIFICATION Spec
CONSTANTS
  IterUniverse <- U_tiny
  MaxSize = 200
