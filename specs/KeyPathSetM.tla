---------------------------- MODULE KeyPathSetM ----------------------------
(***************************************************************************)
(* pg.utils.KeyPathSet (value_location.py) as a state machine.             *)
(*                                                                         *)
(* The implementation keeps a trie of nested dicts with a '$' entry at     *)
(* every node that terminates a member path.  Here a trie is a record      *)
(*   [nodes : set of paths (every dict of the trie, the root <<>> included)*)
(*    marks : set of paths (the dicts that carry '$')]                     *)
(* and every method is transcribed on that representation (TAdd, TRemove   *)
(* with its bottom-up pruning, _merge, _remove_same, _remove_diff, rebase, *)
(* subtree ...).  In parallel each register holds the mathematical set the *)
(* trie is supposed to denote (abs).  TLC checks on every reachable state  *)
(* that the trie REFINES the set:                                          *)
(*   Refines   - the marked nodes are exactly the members                  *)
(*   Canonical - no empty branches, so that bool() and == (which look at   *)
(*               the dicts, not the members) agree with the set            *)
(*   ObsAgree  - bool / == / in / has_prefix computed as the code does     *)
(*               equal their set-theoretic meaning                         *)
(* Mirror = TRUE uses the transcription of rebase() as written (TLC finds  *)
(* the empty-set counter-example); Mirror = FALSE is the intended          *)
(* behaviour, whose behaviours are replayed into the real class.           *)
(* Paths are sequences over key ids 1..NKeys; the driver maps ids to       *)
(* concrete str / int keys.                                                *)
(***************************************************************************)
EXTENDS Integers, Sequences, FiniteSets, TLC, Randomization
CONSTANTS NKeys, MaxDepth, Regs, Mirror, MaxLevel, SimK, Ops
VARIABLES trie, abs, act, out
vars == <<trie, abs, act, out>>

PU == UNION {[1..d -> 1..NKeys] : d \in 0..MaxDepth}
Prefixes(p) == {SubSeq(p, 1, i) : i \in 0..Len(p)}
IsPre(q, p) == Len(q) <= Len(p) /\ SubSeq(p, 1, Len(q)) = q
EmptyT == [nodes |-> {<<>>}, marks |-> {}]
Children(nodes, q) == {r \in nodes : Len(r) = Len(q) + 1 /\ IsPre(q, r)}
IsEmptyDict(t, q) == Children(t.nodes, q) = {} /\ q \notin t.marks
\* simulation: sample arguments so that a step does not enumerate every successor
Pick(S) == IF SimK = 0 \/ Cardinality(S) <= SimK THEN S ELSE RandomSubset(SimK, S)

\* ---- the methods on the trie --------------------------------------------
TAdd(t, p) == [nodes |-> t.nodes \cup Prefixes(p), marks |-> t.marks \cup {p}]
\* remove(): pop '$', then walk back up deleting every dict that became empty
RECURSIVE Prune(_, _, _)
Prune(t, p, i) == IF i = 0 THEN t
                  ELSE LET q == SubSeq(p, 1, i) IN
                       IF IsEmptyDict(t, q) THEN Prune([t EXCEPT !.nodes = @ \ {q}], p, i - 1)
                       ELSE Prune(t, p, i - 1)
TRemove(t, p) == IF p \in t.nodes /\ p \in t.marks THEN Prune([t EXCEPT !.marks = @ \ {p}], p, Len(p)) ELSE t
TRemoveOut(t, p) == p \in t.nodes /\ p \in t.marks
\* update(): _merge copies what is missing, recurses where both have the key
TUpdate(t, u) == [nodes |-> t.nodes \cup u.nodes, marks |-> t.marks \cup u.marks]
\* difference_update(): _remove_same visits the dicts present in both tries, drops '$' where both have it and
\* deletes a visited child when its dict ended up empty
TDiff(t, u) ==
  LET marks2 == t.marks \ u.marks
      RECURSIVE Deleted(_)
      Deleted(c) == c \in u.nodes /\ c \notin marks2 /\ \A d \in Children(t.nodes, c) : Deleted(d)
      Visited(c) == \A i \in 0..Len(c) : SubSeq(c, 1, i) \in u.nodes
  IN [nodes |-> {c \in t.nodes : \A i \in 1..Len(c) : ~(Visited(SubSeq(c, 1, i)) /\ Deleted(SubSeq(c, 1, i)))},
      marks |-> marks2]
\* intersection_update(): _remove_diff deletes what the other trie lacks and every visited child left empty
TInter(t, u) ==
  LET marks2 == t.marks \cap u.marks
      RECURSIVE Removed(_)
      Removed(c) == c \notin u.nodes \/ (c \notin marks2 /\ \A d \in Children(t.nodes, c) : Removed(d))
  IN [nodes |-> {c \in t.nodes : \A i \in 1..Len(c) : ~Removed(SubSeq(c, 1, i))},
      marks |-> {m \in marks2 : \A i \in 1..Len(m) : ~Removed(SubSeq(m, 1, i))}]
\* rebase(): wraps the root dict into one dict per key of the prefix - also when the set is empty
TRebaseCoded(t, r) == [nodes |-> {r \o q : q \in t.nodes} \cup Prefixes(r), marks |-> {r \o q : q \in t.marks}]
TRebase(t, r) == IF ~Mirror /\ t.marks = {} THEN t ELSE TRebaseCoded(t, r)
\* observers, computed the way the code computes them
TBool(t) == t.nodes # {<<>>} \/ <<>> \in t.marks           \* bool(self._trie)
TEq(t, u) == t = u                                        \* self._trie == other._trie
TIn(t, p) == p \in t.nodes /\ p \in t.marks
THasPrefix(t, p) == p \in t.nodes
TSubtree(t, r) == IF r # <<>> /\ r \notin t.nodes THEN [none |-> TRUE, s |-> {}]
                  ELSE [none |-> FALSE, s |-> {SubSeq(m, Len(r) + 1, Len(m)) : m \in {x \in t.marks : IsPre(r, x)}}]

\* ---- the same operations on mathematical sets ---------------------------
SRebase(S, r) == {r \o q : q \in S}
SSubtree(S, r) == IF r # <<>> /\ ~\E q \in S : IsPre(r, q) THEN [none |-> TRUE, s |-> {}]
                  ELSE [none |-> FALSE, s |-> {SubSeq(m, Len(r) + 1, Len(m)) : m \in {x \in S : IsPre(r, x)}}]
Fits(S, r) == \A q \in S : Len(r) + Len(q) <= MaxDepth

\* ---- actions --------------------------------------------------------------
Set(i, t, s, a, o) == /\ trie' = [trie EXCEPT ![i] = t]
                      /\ abs' = [abs EXCEPT ![i] = s]
                      /\ act' = a /\ out' = o
\* `out` has one shape in every state (TLC compares states): [b: 0/1 return flag, none, s: subtree answer]
Bool2(b) == [b |-> IF b THEN 1 ELSE 0, none |-> FALSE, s |-> {}]
NoOut == Bool2(FALSE)
Add(i, p) == Set(i, TAdd(trie[i], p), abs[i] \cup {p}, <<"Add", i, p>>, Bool2(p \notin abs[i]))
Remove(i, p) == Set(i, TRemove(trie[i], p), abs[i] \ {p}, <<"Remove", i, p>>, Bool2(p \in abs[i]))
Update(i, j) == Set(i, TUpdate(trie[i], trie[j]), abs[i] \cup abs[j], <<"Update", i, j>>, NoOut)
DiffUpdate(i, j) == Set(i, TDiff(trie[i], trie[j]), abs[i] \ abs[j], <<"DiffUpdate", i, j>>, NoOut)
InterUpdate(i, j) == Set(i, TInter(trie[i], trie[j]), abs[i] \cap abs[j], <<"InterUpdate", i, j>>, NoOut)
Union(i, j, k) == Set(k, TUpdate(trie[i], trie[j]), abs[i] \cup abs[j], <<"Union", i, j, k>>, NoOut)
Plus(i, j, k) == Set(k, TUpdate(trie[i], trie[j]), abs[i] \cup abs[j], <<"Plus", i, j, k>>, NoOut)
Difference(i, j, k) == Set(k, TDiff(trie[i], trie[j]), abs[i] \ abs[j], <<"Difference", i, j, k>>, NoOut)
Intersection(i, j, k) == Set(k, TInter(trie[i], trie[j]), abs[i] \cap abs[j], <<"Intersection", i, j, k>>, NoOut)
Copy(i, k) == Set(k, trie[i], abs[i], <<"Copy", i, k>>, NoOut)
Rebase(i, r) == Fits(abs[i], r) /\ Set(i, TRebase(trie[i], r), SRebase(abs[i], r), <<"Rebase", i, r>>, NoOut)
KeyPathPlus(r, i, k) == Fits(abs[i], r) /\ Set(k, TRebase(trie[i], r), SRebase(abs[i], r), <<"KeyPathPlus", r, i, k>>, NoOut)
Clear(i) == Set(i, EmptyT, {}, <<"Clear", i>>, NoOut)
\* read-only: subtree(r) reported as none / the set of relative paths
Subtree(i, r) == /\ UNCHANGED <<trie, abs>> /\ act' = <<"Subtree", i, r>>
                 /\ out' = [b |-> 0, none |-> SSubtree(abs[i], r).none, s |-> SSubtree(abs[i], r).s]
                 /\ Assert(~Mirror => TSubtree(trie[i], r) = SSubtree(abs[i], r), <<"subtree", trie[i], r>>)

Init == /\ trie = [i \in Regs |-> EmptyT] /\ abs = [i \in Regs |-> {}]
        /\ act = <<"Init">> /\ out = NoOut
Next ==
  \/ "add" \in Ops /\ \E i \in Regs : \E p \in Pick(PU) : Add(i, p)
  \/ "remove" \in Ops /\ \E i \in Regs : \E p \in Pick(PU) : Remove(i, p)
  \/ "inplace" \in Ops /\ \E i, j \in Regs : Update(i, j) \/ DiffUpdate(i, j) \/ InterUpdate(i, j)
  \/ "pure" \in Ops /\ \E i, j, k \in Regs : Union(i, j, k) \/ Plus(i, j, k) \/ Difference(i, j, k) \/ Intersection(i, j, k)
  \/ "copy" \in Ops /\ \E i, k \in Regs : i # k /\ Copy(i, k)
  \/ "rebase" \in Ops /\ \E i \in Regs : \E r \in Pick(PU \ {<<>>}) : Rebase(i, r)
  \/ "rebase" \in Ops /\ \E i, k \in Regs : \E r \in Pick(PU \ {<<>>}) : KeyPathPlus(r, i, k)
  \/ "clear" \in Ops /\ \E i \in Regs : Clear(i)
  \/ "subtree" \in Ops /\ \E i \in Regs : \E r \in Pick(PU) : Subtree(i, r)
Spec == Init /\ [][Next]_vars
LevelBound == TLCGet("level") <= MaxLevel
view == <<trie, abs>>

\* ---- properties -------------------------------------------------------------
TrieWF == \A i \in Regs : /\ trie[i].marks \subseteq trie[i].nodes
                          /\ <<>> \in trie[i].nodes
                          /\ \A q \in trie[i].nodes : Prefixes(q) \subseteq trie[i].nodes
Refines == \A i \in Regs : trie[i].marks = abs[i]
Canonical == \A i \in Regs : trie[i].nodes = {<<>>} \cup UNION {Prefixes(m) : m \in trie[i].marks}
ObsAgree == /\ \A i \in Regs : TBool(trie[i]) = (abs[i] # {})
            /\ \A i, j \in Regs : TEq(trie[i], trie[j]) = (abs[i] = abs[j])
            /\ \A i \in Regs : \A p \in PU : TIn(trie[i], p) = (p \in abs[i])
            /\ \A i \in Regs : \A p \in PU \ {<<>>} : THasPrefix(trie[i], p) = (\E q \in abs[i] : IsPre(p, q))
=============================================================================
