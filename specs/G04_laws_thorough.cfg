SPECIFICATION Spec
CONSTANTS
  Tier = "thorough"
  Variant = "ref"
  MaxLevel = 0
  SimK = 0
INVARIANT OrdersAgree
INVARIANT TraverseLaw
INVARIANT UnwindLaw
INVARIANT QueryLaw
INVARIANT DescLaw
INVARIANT AgreeLaw
INVARIANT DescRelLaw
INVARIANT WalkLaw
INVARIANT PatchIsQuery
INVARIANT RebindLaw
INVARIANT ConstIdempotent
