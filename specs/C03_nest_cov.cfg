SPECIFICATION Spec
CONSTANTS
  U = "quick"
  Kind = "nest"
  InitPartial = FALSE
  Mirror = FALSE
  MaxLevel = 2
  Small = TRUE
  Avoid = FALSE
  SimK = 0
  AccW = TRUE
  Acts = {"oset", "rebind", "nest", "ctor", "batch"}
CONSTRAINT LevelBound
VIEW view
INVARIANT Conforms
INVARIANT AltsConform
PROPERTY RejectedWriteNoStore
