\* as coded: Deduping._replay caches proposals whose reward never arrived
SPECIFICATION Spec
CONSTANTS
  Algs = {"dd_regevo", "dd_hill_auto"}
  D = 3
  N = 3
  W = 1
  L = 6
  MaxAtt = 3
  MaxCrash = 2
  InOrder = TRUE
  PModes = {"propose", "feedback"}
  Mirror = {"dd_inflight"}
  LookAhead = 1
PROPERTY RecoverIsStutter
PROPERTY ContinuesSame
