SPECIFICATION Spec
CONSTANTS
  U = "quick"
  Kind = "nest"
  InitPartial = TRUE
  Mirror = FALSE
  MaxLevel = 40
  Small = FALSE
  Avoid = TRUE
  SimK = 1
  AccW = TRUE
  Acts = {"oset", "rebind", "nest", "ctor", "batch"}
CONSTRAINT LevelBound
INVARIANT Conforms
INVARIANT AltsConform
PROPERTY RejectedWriteNoStore
