SPECIFICATION Spec
CONSTANTS
  MaxDna = 3
  Keys = {1, 2}
  Vals = {7, 8}
  NumShapes = 1
  MaxLevel = 6
  SimK = 0
CONSTRAINT LevelBound
VIEW view
PROPERTY Independence
PROPERTY CloneExact
