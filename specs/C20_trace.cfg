SPECIFICATION Spec
CONSTRAINT Constr
INVARIANT StackSane
POSTCONDITION Post
