SPECIFICATION Spec
CONSTANTS
  U = "quick"
  Kind = "obj"
  InitPartial = TRUE
  Mirror = FALSE
  MaxLevel = 40
  Small = FALSE
  Avoid = TRUE
  SimK = 1
  AccW = TRUE
  Acts = {"dset", "oset", "rebind", "ddel", "batch", "lset", "ldel", "slice", "lins", "inplace", "xslice", "ctor"}
CONSTRAINT LevelBound
INVARIANT Conforms
INVARIANT AltsConform
PROPERTY RejectedWriteNoStore
