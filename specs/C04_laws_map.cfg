SPECIFICATION Spec
CONSTANTS
  U = "map"
  Chunks = 4
INVARIANT Holds
