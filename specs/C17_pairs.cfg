SPECIFICATION Spec
CONSTANTS
  Threads = {1}
  Deep = 1
  MaxDepth = 2
  ShallowDepth = 0
  Fams <- Families
  Mirror = FALSE
INVARIANT NestingRule
INVARIANT TimeitOK
PROPERTY Restores
