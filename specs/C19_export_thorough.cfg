SPECIFICATION Spec
CONSTANTS
  MaxDepth = 1
  MaxScopes = 0
  FullDepth = 2
  Stride = 3
  Stride2 = 4
  HistLen = 6
