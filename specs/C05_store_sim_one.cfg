SPECIFICATION Spec
CONSTANTS
  FSKinds = {"std", "mem", "rec"}
  PathIds = {3, 6}
  Vals = {1, 2, 3}
  MaxRecs = 4
  MemPaths = {3, 6}
  Avoid = {}
  Mirror = FALSE
  MaxLevel = 100
  SimK = 0
INVARIANT ReadYourWrites
INVARIANT SeqReadYourWrites
INVARIANT WritesSucceed
