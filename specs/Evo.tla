--------------------------------- MODULE Evo ---------------------------------
(***************************************************************************)
(* C14, design level: the composition algebra of pg.evolution preserves    *)
(* the selector contract.  Primitive selectors are the deterministic       *)
(* First / Last / Top / Bottom(n | proportion) and an abstract random       *)
(* selector `anysel` (any k distinct positions, any order - the contract of *)
(* selectors.Random without replacement); expressions are built with every *)
(* composition operator to depth `Depth`.  One behaviour = one application  *)
(* of one expression to one population (ids with possible repetition).     *)
(* TLC checks for every expression, population and admissible outcome:     *)
(*   MembersOnly   outputs are members of the input (by identity)          *)
(*   Count         primitive selectors return the documented number and a  *)
(*                 sub-multiset of the input                               *)
(*   DetUnique     expressions without random parts have one outcome       *)
(*   algebraic laws relating the operators (documented equivalences)       *)
(* The same EvalSet is used by EvoTrace.tla to decide the outputs observed *)
(* on the real operators.                                                  *)
(***************************************************************************)
EXTENDS EvoAlg, TLC, Randomization

CONSTANTS Ids, MaxPop, Depth, SimK

Fit == [i \in Ids |-> (i * 7) % 11]        \* distinct fitness per individual (Ids <= 1..10)

Blank == [op |-> "identity", n |-> 0, pct |-> 0, k |-> 0, lo |-> 0, hi |-> 0, st |-> 1, thr |-> 0, args |-> <<>>]
Leaf(op, n, pct) == [Blank EXCEPT !.op = op, !.n = n, !.pct = pct]
Un(op, x) == [Blank EXCEPT !.op = op, !.args = <<x>>]
Bin(op, x, y) == [Blank EXCEPT !.op = op, !.args = <<x, y>>]

Leaves == {Blank, Leaf("first", 1, 0), Leaf("first", 2, 0), Leaf("last", 1, 0), Leaf("last", -1, 0),
           Leaf("top", 1, 0), Leaf("top", 2, 0), Leaf("bottom", 1, 0), Leaf("first", 0, 50),
           Leaf("anysel", 1, 0), Leaf("anysel", 2, 0)}
Unary(x) == {Un("inv", x), [Un("repeat", x) EXCEPT !.k = 2], [Un("power", x) EXCEPT !.k = 2],
             [Un("power", x) EXCEPT !.k = 0],
             [Un("slice", x) EXCEPT !.lo = 0, !.hi = 1], [Un("slice", x) EXCEPT !.lo = 1, !.hi = -1],
             [Un("slice", x) EXCEPT !.lo = 0, !.hi = -1, !.st = 2],
             [Un("if_true", x) EXCEPT !.thr = 1], [Un("if_false", x) EXCEPT !.thr = 1],
             Un("dup_each", x)}
BinOps == {"pipeline", "concat", "union", "inter", "diff", "symdiff"}
RECURSIVE Exprs(_)
Exprs(d) == IF d = 0 THEN Leaves
            ELSE LET S == Exprs(d - 1) IN
                 S \cup UNION { Unary(x) : x \in S } \cup { Bin(o, x, y) : o \in BinOps, x \in S, y \in Leaves }
                   \cup { Bin(o, y, x) : o \in BinOps, x \in S, y \in Leaves }
Pops == UNION { [1..n -> Ids] : n \in 0..MaxPop }
Pick(S) == IF SimK > 0 THEN RandomSubset(SimK, S) ELSE S

VARIABLES e, inp, out, phase
vars == <<e, inp, out, phase>>

\* the expression and the population are picked in two steps so that TLC's workers share the work
Init == e = Blank /\ inp = <<>> /\ out = <<>> /\ phase = "expr"
PickExpr == phase = "expr" /\ e' \in Pick(Exprs(Depth)) /\ phase' = "pop" /\ UNCHANGED <<inp, out>>
PickPop == phase = "pop" /\ inp' \in Pops /\ phase' = "apply" /\ UNCHANGED <<e, out>>
Apply == phase = "apply" /\ out' \in EvalSet(e, inp, Fit) /\ phase' = "done" /\ UNCHANGED <<e, inp>>
Next == PickExpr \/ PickPop \/ Apply
Spec == Init /\ [][Next]_vars
done == phase = "done"
ready == phase = "apply"

Occ(s, x) == Cardinality({i \in 1..Len(s) : s[i] = x})
IsSel(x) == x.op \in {"first", "last", "top", "bottom", "anysel"}
Min2(a, b) == IF a < b THEN a ELSE b

MembersOnly == done => RangeOf(out) \subseteq RangeOf(inp)
Count == (done /\ IsSel(e)) => /\ Len(out) = Min2(CountOf(e, Len(inp)), Len(inp))
                               /\ \A x \in Ids : Occ(out, x) <= Occ(inp, x)
DetUnique == (ready /\ IsDet(e)) => Cardinality(EvalSet(e, inp, Fit)) = 1
ES(x) == EvalSet(x, inp, Fit)
Laws == ready =>
  /\ ES(Un("inv", e)) = ES(Bin("diff", Blank, e))                               \* ~x = Identity - x
  /\ ES([Un("power", e) EXCEPT !.k = 2]) = ES(Bin("pipeline", e, e))            \* x ** 2 = x >> x
  /\ ES([Un("repeat", e) EXCEPT !.k = 2]) = ES(Bin("concat", e, e))             \* x * 2 = x + x
  /\ ES(Bin("pipeline", e, Blank)) = ES(e) /\ ES(Bin("pipeline", Blank, e)) = ES(e)
  /\ IsDet(e) => \A y \in Leaves : IsDet(y) =>
        /\ ES(Bin("symdiff", e, y)) = ES(Bin("concat", Bin("diff", e, y), Bin("diff", y, e)))
        /\ (Regular(Bin("inter", e, y), inp, Fit) /\ NoDup(inp)) =>
              ES(Bin("diff", e, y)) = ES(Bin("inter", e, Un("inv", y)))          \* x - y = x & ~y
        /\ (\A x \in ES(e) : NoDup(x)) => ES(Bin("union", e, e)) = ES(e)
        /\ RangeOf(Eval(Bin("union", e, y), inp, Fit)) = RangeOf(Eval(e, inp, Fit)) \cup RangeOf(Eval(y, inp, Fit))
        /\ RangeOf(Eval(Bin("inter", e, y), inp, Fit)) = RangeOf(Eval(e, inp, Fit)) \cap RangeOf(Eval(y, inp, Fit))
        /\ RangeOf(Eval(Bin("diff", e, y), inp, Fit)) = RangeOf(Eval(e, inp, Fit)) \ RangeOf(Eval(y, inp, Fit))
=============================================================================
