SPECIFICATION Spec
CONSTANTS
  MaxPos = 1
  KwNames = {1, 11, 21}
  MaxArgs = 2
  MaxKw = 2
  MaxSteps = 2
  MaxRebind = 1
  CtorModeSet = {"distinct", "equal"}
  CallModeSet = {"distinct", "equal", "asbound"}
  FlagAtSet = {"init", "call"}
  AsCoded = FALSE
  SimK = 0
CONSTRAINT StepBound
VIEW view
INVARIANT TypeOK
INVARIANT EffectiveWellDefined
INVARIANT ResultComplete
INVARIANT ReportedSetsAreEffective
PROPERTY CallIsPure
PROPERTY FullBindAgrees
PROPERTY LateBindAgrees
PROPERTY ConstructAgrees
PROPERTY ValuesDoNotMatter
PROPERTY RebindOrderFree
PROPERTY CloneIsolated
