SPECIFICATION Spec
CONSTANTS
  Tier = "quick"
  Canonical = TRUE
  Mode = "design"
INVARIANT LawsHold
INVARIANT SortTotal
