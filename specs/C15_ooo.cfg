\* C15 quick: <= 3 proposals, <= 2 in flight, feedback in any order, 1 crash
SPECIFICATION Spec
CONSTANTS
  Algs = {"sweep", "random", "dd_sweep", "dd_random", "dd_random2", "regevo", "hill", "hill2", "nsga2", "neat", "sched", "dd_regevo", "dd_hill_auto"}
  D = 3
  N = 3
  W = 2
  L = 6
  MaxAtt = 3
  MaxCrash = 1
  InOrder = FALSE
  PModes = {"propose", "feedback"}
  Mirror = {}
  LookAhead = 1
INVARIANT CountsOK
INVARIANT InflightOK
INVARIANT PopFromHist
INVARIANT DedupMemoryOK
PROPERTY RecoverIsStutter
PROPERTY ContinuesSame
