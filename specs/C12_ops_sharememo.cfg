SPECIFICATION OpsSpec
CONSTANTS
  IterUniverse <- U_tiny
  MaxSize = 200
  OpsUniverse <- U_ops
  Mirror = FALSE
  ShareMemo = TRUE
  MaxOps = 3
INVARIANT OpsAligned
INVARIANT OpsLookup
INVARIANT MemoFresh
