SPECIFICATION Spec
CONSTANTS
  MaxNodes = 7
  Keys = {1, 2}
  Leafs = {101}
  Shapes = {200, 211, 220, 223}
  MaxLen = 3
  Acts = {"dict", "list", "perm", "clone", "forget", "slice", "rebind", "inplace", "json", "construct", "typed", "flags"}
  Mirror = FALSE
  MaxLevel = 40
  InitKinds <- IK_TListDict
  SimK = 1
CONSTRAINT LevelBound
INVARIANT TreeOK
INVARIANT OnePlace
INVARIANT DetachedOK
INVARIANT LookupOK
INVARIANT NoDangling
