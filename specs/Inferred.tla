------------------------------ MODULE Inferred ------------------------------
(***************************************************************************)
(* Inferred / contextual attributes of PyGlove's symbolic tree.            *)
(*                                                                         *)
(* A field of a pg.Dict / pg.List / pg.ContextualObject node holds a       *)
(* concrete leaf, a child node, or a PLACEHOLDER:                          *)
(*   INFER = pg.symbolic.ValueFromParentChain()                            *)
(*   CTX   = pg.contextual_attribute()         (no default)                *)
(* A placeholder has no value of its own.  It is resolved AT READ TIME     *)
(* from the nearest ancestor that gives the same name (dict key, object    *)
(* field, list index) a value; an unresolvable read is an AttributeError.  *)
(* `n.sym_getattr(k)` / `sym_items()` return what is stored (the           *)
(* placeholder), the accessors `obj.x`, `d[k]`, `d.k`, `l[i]`, `iter(l)`,  *)
(* `sym_inferred(k)` return the resolved value.                            *)
(*                                                                         *)
(* Two definitions of the read are given and TLC checks that they agree:   *)
(*   Resolve    -- the WALK: the structure of ValueFromParentChain.infer / *)
(*                 ContextualObject._sym_inferred (ask each ancestor for   *)
(*                 its own *read* of the name, which may recurse);         *)
(*   NearestDef -- the LAW: the value of the nearest ancestor that defines *)
(*                 the name concretely, placeholders being transparent.    *)
(*                                                                         *)
(* pg.contextual_override(name = v) scopes are modelled because            *)
(* ContextualObject consults them: with override_attrs = TRUE every        *)
(* ContextualObject reads `name` as v (even a concrete field); without it  *)
(* v is only the fall-back of a CTX placeholder that the tree cannot       *)
(* resolve, and only if a ContextualObject took part in the read.          *)
(*                                                                         *)
(* Values are ints: nodes 1..MaxNodes, leaves 101.., None = 99.  Keys of   *)
(* dicts / objects are 1, 2, 3 ('x', 'y', 'z'); list position i is key     *)
(* 1000 + i.  The flavour of a placeholder is fixed by its key (key 2 = y  *)
(* holds CTX, every other key INFER), so one name never mixes flavours.    *)
(*                                                                         *)
(* Mirror = FALSE: intended semantics.                                     *)
(* Mirror = TRUE : the list walk as coded (parent[key] on a list ancestor  *)
(*   that is too short raises IndexError and aborts the walk) so that TLC  *)
(*   can search the coded design against the same law.                     *)
(* Cache: "none" (as coded: nothing is memoised), "naive" (a hypothetical  *)
(*   implementation that memoises a resolved read and never invalidates:   *)
(*   negative control for NoCacheStaleness), "flush" (memoises, every      *)
(*   mutation of a tree or of the scope stack drops all memos).            *)
(***************************************************************************)
EXTENDS Integers, Sequences, FiniteSets, TLC, Randomization, Json, IOUtils

CONSTANTS MaxNodes,      \* node ids 1..MaxNodes
          Leafs,         \* leaf values the user may write
          MaxLen,        \* bound on list length
          MaxScope,      \* bound on nested contextual_override scopes
          MaxLevel,      \* depth bound (state constraint)
          Mirror,        \* see above
          Cache,         \* see above
          InitSet,       \* "root": one empty object;  "chains": all 27 3-node chains with placeholders at the bottom;  "diag": 7 of them
          SimK           \* 0: quantify over whole argument sets; k > 0: over k random members (simulation)

VARIABLES kind,          \* node -> "free" | "obj" | "dict" | "list"
          fld,           \* node -> [Keys -> value | ABSENT]      (dict / obj content)
          seq,           \* node -> sequence of values             (list content)
          parent, pkey,  \* containing node and key (NULL for a root)
          ovs,           \* stack of contextual_override scopes: <<[k, v, attrs]>>
          memo,          \* node -> [AllKeys -> value | NOMEMO]   (only used when Cache # "none")
          out,           \* result of the last call
          act,           \* the last call
          obs,           \* observation table: what every accessor read returns in this state
          cyc,           \* node -> TRUE iff printing the node with inferred values can come back to a node it is printing (finding G02-F2)
          coded          \* node -> key -> TRUE iff the walk AS CODED aborts with IndexError on that read (classifies finding G02-F1)

tree == <<kind, fld, seq, parent, pkey>>
vars == <<kind, fld, seq, parent, pkey, ovs, memo, out, act, obs, coded, cyc>>
view == <<kind, fld, seq, parent, pkey, ovs, memo>>

NULL == 0
IDXERR == 96        \* the read raised IndexError (Mirror only)
ERR == 97           \* the read raised AttributeError (KeyError for d[k])
ABSENT == 98        \* no such key / index
PNONE == 99
INFER == 300
CTX == 301
PHV == 310          \* value descriptor: "a fresh placeholder of the flavour the key dictates"
NOMEMO == 95
MISS == 94          \* internal: this ancestor does not provide the name, keep walking
Nodes == 1..MaxNodes
Keys == {1, 2, 3}
LKey(i) == 1000 + i
IdxKeys == {LKey(i) : i \in 0..(MaxLen - 1)}
AllKeys == Keys \cup IdxKeys
IsRef(v) == v \in Nodes
IsPH(v) == v \in {INFER, CTX}
IsIdx(k) == k >= 1000
PHOf(k) == IF k = 2 THEN CTX ELSE INFER

St == [kind |-> kind, fld |-> fld, seq |-> seq, parent |-> parent, pkey |-> pkey]

Alive(s) == {n \in Nodes : s.kind[n] # "free"}
FreeSet(s) == {n \in Nodes : s.kind[n] = "free"}
MinOf(S) == CHOOSE x \in S : \A y \in S : x <= y
PMin(a, b) == IF a <= b THEN a ELSE b
IsMap(s, n) == s.kind[n] \in {"dict", "obj"}

\* what is stored under key k of node n (ABSENT when there is no such key / index)
Get(s, n, k) == IF IsMap(s, n) THEN (IF k \in Keys THEN s.fld[n][k] ELSE ABSENT)
                ELSE IF s.kind[n] = "list" /\ IsIdx(k) /\ k - 1000 < Len(s.seq[n]) THEN s.seq[n][k - 1000 + 1]
                ELSE ABSENT
KeysOf(s, n) == {k \in AllKeys : Get(s, n, k) # ABSENT}
ChildrenOf(s, n) == {Get(s, n, k) : k \in KeysOf(s, n)} \cap Nodes
RECURSIVE Desc(_,_)
Desc(s, n) == {n} \cup UNION {Desc(s, c) : c \in ChildrenOf(s, n)}
RECURSIVE Ancestors(_,_)            \* proper ancestors through the parent link
Ancestors(s, n) == IF s.parent[n] = NULL THEN {} ELSE {s.parent[n]} \cup Ancestors(s, s.parent[n])
RECURSIVE RootOf(_,_)
RootOf(s, n) == IF s.parent[n] = NULL THEN n ELSE RootOf(s, s.parent[n])
Roots(s) == {n \in Alive(s) : s.parent[n] = NULL}

---------------------------------------------------------------------------
(* contextual_override scopes: per name the innermost scope that mentions it wins
   (the cascade flag is the business of Scopes.tla / C17 and is not used here)              *)
OvIdx(stk, k) == {i \in 1..Len(stk) : stk[i].k = k}
HasOv(stk, k) == OvIdx(stk, k) # {}
EffOv(stk, k) == stk[CHOOSE i \in OvIdx(stk, k) : \A j \in OvIdx(stk, k) : j <= i]
AttrsOv(stk, k) == HasOv(stk, k) /\ EffOv(stk, k).attrs        \* override_attrs = TRUE: wins over stored values
PlainOv(stk, k) == HasOv(stk, k) /\ ~EffOv(stk, k).attrs       \* only a fall-back

---------------------------------------------------------------------------
(* The WALK.  Resolve(s, stk, n, k) = what the accessor read of key k on node n returns.     *)
(* hasCtx: a ContextualObject started this inference and handed the active override down     *)
(* (ContextualObject._sym_inferred passes context_override=...; pg.Dict / pg.List do not).   *)
RECURSIVE ResolveG(_,_,_,_,_)
RECURSIVE Walk(_,_,_,_,_,_,_)
ValueFrom(mir, s, stk, p, k, ph) ==     \* what ancestor p contributes (Inferential.value_from)
  IF ph = CTX /\ s.kind[p] # "obj" THEN MISS                  \* a contextual attribute only looks at ContextualObject ancestors
  ELSE IF IsIdx(k) THEN
    IF s.kind[p] # "list" THEN MISS
    ELSE IF Get(s, p, k) = ABSENT THEN (IF mir THEN IDXERR ELSE MISS)
    ELSE LET r == ResolveG(mir, s, stk, p, k) IN IF r = ERR THEN MISS ELSE r
  ELSE
    IF Get(s, p, k) = ABSENT THEN MISS
    ELSE LET r == ResolveG(mir, s, stk, p, k) IN IF r = ERR THEN MISS ELSE r
Walk(mir, s, stk, p, k, ph, hasCtx) ==
  IF p = NULL THEN (IF ph = CTX /\ hasCtx /\ PlainOv(stk, k) THEN EffOv(stk, k).v ELSE ERR)
  ELSE LET r == ValueFrom(mir, s, stk, p, k, ph) IN
       IF r = MISS THEN Walk(mir, s, stk, s.parent[p], k, ph, hasCtx) ELSE r
ResolveG(mir, s, stk, n, k) ==
  LET v == Get(s, n, k) IN
  IF v = ABSENT THEN ERR
  ELSE IF s.kind[n] = "obj" /\ AttrsOv(stk, k) THEN EffOv(stk, k).v
  ELSE IF ~IsPH(v) THEN v
  ELSE Walk(mir, s, stk, s.parent[n], k, v, s.kind[n] = "obj")     \* the holder itself is skipped: its entry IS the placeholder
Resolve(s, stk, n, k) == ResolveG(Mirror, s, stk, n, k)

(* The LAW.                                                                                  *)
Defines(s, stk, a, k) ==                \* a gives the name a value of its own
  \/ s.kind[a] = "obj" /\ k \in Keys /\ AttrsOv(stk, k)
  \/ Get(s, a, k) # ABSENT /\ ~IsPH(Get(s, a, k))
DefVal(s, stk, a, k) == IF s.kind[a] = "obj" /\ k \in Keys /\ AttrsOv(stk, k) THEN EffOv(stk, k).v ELSE Get(s, a, k)
Chain(s, n, ph) == {a \in Ancestors(s, n) : ph = CTX => s.kind[a] = "obj"}
Definers(s, stk, n, k, ph) == {a \in Chain(s, n, ph) : Defines(s, stk, a, k)}
Nearest(s, D) == CHOOSE a \in D : \A b \in D : b = a \/ b \in Ancestors(s, a)
NearestDef(s, stk, n, k) ==
  LET v == Get(s, n, k) IN
  IF v = ABSENT THEN ERR
  ELSE IF s.kind[n] = "obj" /\ AttrsOv(stk, k) THEN EffOv(stk, k).v
  ELSE IF ~IsPH(v) THEN v
  ELSE LET D == Definers(s, stk, n, k, v) IN
       IF D # {} THEN DefVal(s, stk, Nearest(s, D), k)
       ELSE IF v = CTX /\ PlainOv(stk, k) /\ (\E a \in Ancestors(s, n) \cup {n} : s.kind[a] = "obj") THEN EffOv(stk, k).v
       ELSE ERR

ObsOf(s, stk) == [n \in Nodes |-> [k \in AllKeys |-> IF s.kind[n] = "free" \/ Get(s, n, k) = ABSENT THEN ABSENT
                                                      ELSE Resolve(s, stk, n, k)]]
CodedOf(s, stk) == [n \in Nodes |-> [k \in AllKeys |-> s.kind[n] # "free" /\ Get(s, n, k) # ABSENT
                                                        /\ ResolveG(TRUE, s, stk, n, k) = IDXERR]]
\* The rule allows a placeholder to resolve to a node that CONTAINS its holder (o.x = child, child.x = placeholder reads as
\* child).  Following resolved values instead of stored ones therefore need not terminate: cyc[n] says that it does not
\* when started at n.  Edges are taken under the active scopes and under none (printing does not consult the holder's
\* overrides), which over-approximates: cyc = FALSE means every consumer that follows inferred values must terminate.
KidsOf(o, o0, m) == ({o[m][k] : k \in AllKeys} \cup {o0[m][k] : k \in AllKeys}) \cap Nodes
RECURSIVE ReachT(_,_,_)
ReachT(kids, S, i) == IF i = 0 THEN S
                      ELSE LET T == S \cup UNION {kids[m] : m \in S} IN
                           IF T = S THEN S ELSE ReachT(kids, T, i - 1)
CycFrom(o, o0) ==            \* o, o0: observation tables under the active scopes / under none
  LET kids == [m \in Nodes |-> KidsOf(o, o0, m)]
      rp == [m \in Nodes |-> ReachT(kids, kids[m], MaxNodes)]
  IN [n \in Nodes |-> \E m \in rp[n] \cup {n} : m \in rp[m]]
NoMemo == [n \in Nodes |-> [k \in AllKeys |-> NOMEMO]]

---------------------------------------------------------------------------
(* Mechanisms                                                                                *)
Detach(s, m) == IF IsRef(m) THEN [s EXCEPT !.parent[m] = NULL, !.pkey[m] = NULL] ELSE s
Adopt(s, m, n, k) == IF IsRef(m) THEN [s EXCEPT !.parent[m] = n, !.pkey[m] = k] ELSE s
Reindex(s, n) ==
  [s EXCEPT !.pkey = [m \in Nodes |->
     IF s.parent[m] = n /\ \E i \in 1..Len(s.seq[n]) : s.seq[n][i] = m
     THEN LKey((CHOOSE i \in 1..Len(s.seq[n]) : s.seq[n][i] = m) - 1) ELSE s.pkey[m]]]
RemoveIdx(q, i) == SubSeq(q, 1, i - 1) \o SubSeq(q, i + 1, Len(q))
InsertIdx(q, i, v) == SubSeq(q, 1, i - 1) \o <<v>> \o SubSeq(q, i, Len(q))
EmptyFld(k) == [x \in Keys |-> IF k = "obj" THEN PNONE ELSE ABSENT]
Stored(k, vd) == IF vd = PHV THEN PHOf(k) ELSE vd

\* store value descriptor vd under key k of n (existing key of a list, any key of a dict / obj)
WriteAt(s, n, k, vd) ==
  LET old == Get(s, n, k)
      s0 == Detach(s, old)
      s1 == IF IsMap(s0, n) THEN [s0 EXCEPT !.fld[n][k] = Stored(k, vd)]
            ELSE [s0 EXCEPT !.seq[n][k - 1000 + 1] = Stored(k, vd)]
  IN Adopt(s1, vd, n, k)

RECURSIVE CloneInto(_,_)          \* copy of the subtree at m into free ids: [s, root]; placeholders are copied as placeholders
CloneInto(s, m) ==
  LET r == MinOf(FreeSet(s))
      s0 == [s EXCEPT !.kind[r] = s.kind[m], !.fld[r] = EmptyFld("dict"), !.seq[r] = <<>>, !.parent[r] = NULL, !.pkey[r] = NULL]
  IN IF IsMap(s, m) THEN
       LET ks == <<1, 2, 3>>
           F[i \in 0..3] ==
             IF i = 0 THEN s0
             ELSE LET v == s.fld[m][ks[i]] IN
                  IF IsRef(v) THEN LET c == CloneInto(F[i-1], v) IN
                                   [c.s EXCEPT !.fld[r][ks[i]] = c.root, !.parent[c.root] = r, !.pkey[c.root] = ks[i]]
                  ELSE [F[i-1] EXCEPT !.fld[r][ks[i]] = v]
       IN [s |-> F[3], root |-> r]
     ELSE
       LET F[i \in 0..Len(s.seq[m])] ==
             IF i = 0 THEN s0
             ELSE LET v == s.seq[m][i] IN
                  IF IsRef(v) THEN LET c == CloneInto(F[i-1], v) IN
                                   [c.s EXCEPT !.seq[r] = Append(@, c.root), !.parent[c.root] = r, !.pkey[c.root] = LKey(i - 1)]
                  ELSE [F[i-1] EXCEPT !.seq[r] = Append(@, v)]
       IN [s |-> F[Len(s.seq[m])], root |-> r]

Commit(s, stk, o) ==
  /\ kind' = s.kind /\ fld' = s.fld /\ seq' = s.seq /\ parent' = s.parent /\ pkey' = s.pkey
  /\ ovs' = stk /\ out' = o
  /\ memo' = IF Cache = "flush" THEN NoMemo ELSE memo
  /\ LET tb == ObsOf(s, stk) IN
     obs' = tb /\ cyc' = CycFrom(tb, IF stk = <<>> THEN tb ELSE ObsOf(s, <<>>))
  /\ coded' = CodedOf(s, stk)

---------------------------------------------------------------------------
(* Actions                                                                                   *)
New(k) ==                                  \* pg.Dict() / pg.List() / CO(): a fresh detached root
  /\ act' = <<"New", k>>
  /\ FreeSet(St) # {}
  /\ LET r == MinOf(FreeSet(St)) IN
     Commit([St EXCEPT !.kind[r] = k, !.fld[r] = EmptyFld(k), !.seq[r] = <<>>], ovs, r)

\* vd may be stored under n: a leaf, a fresh placeholder, or a detached root of ANOTHER tree (attach)
OkVD(n, vd) == IsRef(vd) => (kind[vd] # "free" /\ parent[vd] = NULL /\ vd # RootOf(St, n))

Set(n, k, vd) ==                           \* d[k] = v  /  o.rebind(k = v)  /  l[i] = v
  /\ act' = <<"Set", n, k, vd>>
  /\ kind[n] # "free" /\ OkVD(n, vd)
  /\ IF IsMap(St, n) THEN k \in Keys ELSE Get(St, n, k) # ABSENT
  /\ Commit(WriteAt(St, n, k, vd), ovs, 0)

Insert(n, i, vd) ==                        \* l.insert(i, v)     (i = len: append)
  /\ act' = <<"Insert", n, i, vd>>
  /\ kind[n] = "list" /\ OkVD(n, vd) /\ i \in 0..Len(seq[n]) /\ Len(seq[n]) < MaxLen
  /\ LET s1 == [St EXCEPT !.seq[n] = InsertIdx(@, i + 1, Stored(LKey(i), vd))]
     IN Commit(Reindex(Adopt(s1, vd, n, LKey(i)), n), ovs, 0)

Del(n, k) ==                               \* del d[k]  /  del l[i]      (a removed child becomes a detached root)
  /\ act' = <<"Del", n, k>>
  /\ kind[n] \in {"dict", "list"} /\ Get(St, n, k) # ABSENT
  /\ LET s0 == Detach(St, Get(St, n, k)) IN
     IF kind[n] = "dict" THEN Commit([s0 EXCEPT !.fld[n][k] = ABSENT], ovs, 0)
     ELSE Commit(Reindex([s0 EXCEPT !.seq[n] = RemoveIdx(@, k - 1000 + 1)], n), ovs, 0)

Clone(n, deep) ==                          \* n.clone(deep)
  /\ act' = <<"Clone", n, deep>>
  /\ kind[n] # "free" /\ Cardinality(FreeSet(St)) >= Cardinality(Desc(St, n))
  /\ LET c == CloneInto(St, n) IN Commit(c.s, ovs, c.root)

Forget(m) ==                               \* the user drops the handle of a detached tree
  /\ act' = <<"Forget", m>>
  /\ kind[m] # "free" /\ parent[m] = NULL /\ m # 1
  /\ Cardinality(FreeSet(St)) <= 1          \* handles are only dropped when node ids run short
  /\ LET gone == Desc(St, m) IN
     Commit([St EXCEPT !.kind = [x \in Nodes |-> IF x \in gone THEN "free" ELSE kind[x]],
                       !.fld = [x \in Nodes |-> IF x \in gone THEN EmptyFld("dict") ELSE fld[x]],
                       !.seq = [x \in Nodes |-> IF x \in gone THEN <<>> ELSE seq[x]],
                       !.parent = [x \in Nodes |-> IF x \in gone THEN NULL ELSE parent[x]],
                       !.pkey = [x \in Nodes |-> IF x \in gone THEN NULL ELSE pkey[x]]], ovs, 0)

EnterOv(k, v, attrs) ==                    \* with pg.contextual_override(k = v, override_attrs = attrs):
  /\ act' = <<"EnterOv", k, v, attrs>>
  /\ Len(ovs) < MaxScope
  /\ Commit(St, Append(ovs, [k |-> k, v |-> v, attrs |-> attrs]), 0)
ExitOv ==
  /\ act' = <<"ExitOv">>
  /\ ovs # <<>>
  /\ Commit(St, SubSeq(ovs, 1, Len(ovs) - 1), 0)

Read(n, k) ==                              \* n.k / n[k]: the only call that may touch the memo
  /\ act' = <<"Read", n, k>>
  /\ kind[n] # "free" /\ Get(St, n, k) # ABSENT
  /\ LET fresh == Resolve(St, ovs, n, k)
         r == IF Cache # "none" /\ memo[n][k] # NOMEMO THEN memo[n][k] ELSE fresh
     IN /\ out' = r
        /\ memo' = IF Cache = "none" THEN memo ELSE [memo EXCEPT ![n][k] = r]
        /\ UNCHANGED <<tree, ovs, obs, coded, cyc>>

---------------------------------------------------------------------------
\* NOTE: TLC evaluates a constant-level expression once per run, so RandomSubset over a CONSTANT set (BOOLEAN, {1, 2}) would
\* pick the same member for the whole simulation.  Mentioning a variable makes every P(..) a state-level expression.
P(S) == IF SimK = 0 \/ S = {} THEN S ELSE RandomSubset(PMin(SimK, Cardinality(S)), IF act = <<>> THEN {} ELSE S)
VD == Leafs \cup {PHV} \cup {m \in Nodes : kind[m] # "free" /\ parent[m] = NULL}
OvVals == {v + 50 : v \in Leafs}            \* override values are leaves of their own (151, ...) so that their origin shows
NextNode(n) ==
  /\ kind[n] # "free"
  /\ \/ \E k \in P(KeysOf(St, n) \cup (IF IsMap(St, n) THEN Keys ELSE {})), vd \in P(VD) : Set(n, k, vd)
     \/ kind[n] = "list" /\ \E i \in P(0..Len(seq[n])), vd \in P(VD) : Insert(n, i, vd)
     \/ kind[n] \in {"dict", "list"} /\ \E k \in P(KeysOf(St, n)) : Del(n, k)
     \/ \E dp \in P(BOOLEAN) : Clone(n, dp)
     \/ Forget(n)
     \/ \E k \in P(KeysOf(St, n)) : Read(n, k)
Next == \/ \E n \in Nodes : NextNode(n)
        \/ \E k \in P({"obj", "dict", "list"}) : New(k)
        \/ \E k \in P({1, 2}), v \in P(OvVals), a \in P(BOOLEAN) : EnterOv(k, v, a)
        \/ ExitOv

(* Initial trees.  "chains": node 1 holds node 2 holds node 3; the bottom node holds placeholders,
   the top node concrete values; kinds range over all 27 combinations.                        *)
KindSet == {"obj", "dict", "list"}
ChainState(k1, k2, k3) ==
  LET top(k, c) == IF k = "list" THEN [f |-> EmptyFld(k), q |-> <<c, 101>>]
                   ELSE [f |-> [x \in Keys |-> IF x = 1 THEN 101 ELSE IF x = 2 THEN 102 ELSE c], q |-> <<>>]
      mid(k, c) == IF k = "list" THEN [f |-> EmptyFld(k), q |-> <<c>>]
                   ELSE [f |-> [x \in Keys |-> IF x = 3 THEN c ELSE IF k = "obj" THEN PNONE ELSE ABSENT], q |-> <<>>]
      bot(k) == IF k = "list" THEN [f |-> EmptyFld(k), q |-> <<INFER, INFER>>]
                ELSE [f |-> [x \in Keys |-> IF x = 1 THEN INFER ELSE IF x = 2 THEN CTX ELSE IF k = "obj" THEN PNONE ELSE ABSENT], q |-> <<>>]
      n1 == top(k1, 2)   n2 == mid(k2, 3)   n3 == bot(k3)
      key(k) == IF k = "list" THEN LKey(0) ELSE 3
  IN [kind |-> [n \in Nodes |-> IF n = 1 THEN k1 ELSE IF n = 2 THEN k2 ELSE IF n = 3 THEN k3 ELSE "free"],
      fld |-> [n \in Nodes |-> IF n = 1 THEN n1.f ELSE IF n = 2 THEN n2.f ELSE IF n = 3 THEN n3.f ELSE EmptyFld("dict")],
      seq |-> [n \in Nodes |-> IF n = 1 THEN n1.q ELSE IF n = 2 THEN n2.q ELSE IF n = 3 THEN n3.q ELSE <<>>],
      parent |-> [n \in Nodes |-> IF n = 2 THEN 1 ELSE IF n = 3 THEN 2 ELSE NULL],
      pkey |-> [n \in Nodes |-> IF n = 2 THEN key(k1) ELSE IF n = 3 THEN key(k2) ELSE NULL]]
RootState ==
  [kind |-> [n \in Nodes |-> IF n = 1 THEN "obj" ELSE "free"],
   fld |-> [n \in Nodes |-> IF n = 1 THEN EmptyFld("obj") ELSE EmptyFld("dict")],
   seq |-> [n \in Nodes |-> <<>>],
   parent |-> [n \in Nodes |-> NULL],
   pkey |-> [n \in Nodes |-> NULL]]
DiagChains == {<<"obj", "obj", "obj">>, <<"dict", "dict", "dict">>, <<"list", "list", "list">>, <<"obj", "dict", "obj">>,
               <<"dict", "list", "list">>, <<"list", "obj", "dict">>, <<"obj", "list", "dict">>}
InitStates == IF InitSet = "root" THEN {RootState}
              ELSE IF InitSet = "diag" THEN {ChainState(c[1], c[2], c[3]) : c \in DiagChains}
              ELSE {ChainState(a, b, c) : a \in KindSet, b \in KindSet, c \in KindSet}

Init ==
  \E s \in InitStates :
    /\ kind = s.kind /\ fld = s.fld /\ seq = s.seq /\ parent = s.parent /\ pkey = s.pkey
    /\ ovs = <<>> /\ memo = NoMemo /\ out = 0 /\ act = <<"Init", s.kind[1], s.kind[2], s.kind[3]>>
    /\ obs = ObsOf(s, <<>>) /\ coded = CodedOf(s, <<>>) /\ cyc = CycFrom(ObsOf(s, <<>>), ObsOf(s, <<>>))

Spec == Init /\ [][Next]_vars
LevelBound == TLCGet("level") <= MaxLevel

\* Re-running one recorded history (./check G02 --replay FILE): the initial tree and every call are the ones the script names.
Script == JsonDeserialize(IOEnv.SCRIPT_FILE)
ScriptInit == Init /\ act = Script[1]
ScriptNext == /\ TLCGet("level") < Len(Script)
              /\ Next
              /\ act' = Script[TLCGet("level") + 1]
SpecScript == ScriptInit /\ [][ScriptNext]_vars

---------------------------------------------------------------------------
(* Properties                                                                                *)

\* bookkeeping sanity of the model itself (the C01 clauses, restated for this smaller tree)
TreeOK == \A n \in Alive(St) :
            /\ \A k \in KeysOf(St, n) : LET v == Get(St, n, k) IN
                 IsRef(v) => (kind[v] # "free" /\ parent[v] = n /\ pkey[v] = k)
            /\ parent[n] # NULL => Get(St, parent[n], pkey[n]) = n

\* (1) the walk computes the law: a placeholder reads as the value of the NEAREST ancestor that
\*     defines the name (placeholders in between are transparent), AttributeError if there is none
ResolveIsNearestAncestor ==
  \A n \in Alive(St) : \A k \in KeysOf(St, n) : Resolve(St, ovs, n, k) = NearestDef(St, ovs, n, k)

\* the observation table handed to the conformance driver is the walk on the CURRENT state
ObsIsCurrent == obs = ObsOf(St, ovs)

\* an intended read never fails with anything but AttributeError, and never yields a placeholder
ReadTotal == \A n \in Alive(St) : \A k \in KeysOf(St, n) :
               LET r == Resolve(St, ovs, n, k) IN r # IDXERR /\ ~IsPH(r) /\ r # MISS /\ r # ABSENT

\* NOT an invariant (negative control G02_acyclic.cfg): resolved values never lead back to the node they were read from.
\* TLC refutes it in one step (a child stored under z whose own z becomes a placeholder reads as itself), which is why a
\* consumer that follows inferred values (repr of a ContextualObject) must guard against revisiting a node.
ResolutionIsAcyclic == \A n \in Alive(St) : ~cyc[n]
CycIsCurrent == cyc = CycFrom(ObsOf(St, ovs), ObsOf(St, <<>>))

\* (2) reading changes nothing that a later read or sym_getattr can see
ReadDoesNotWrite == [][act'[1] = "Read" => UNCHANGED <<kind, fld, seq, parent, pkey, ovs, obs>>]_vars

\* (3) what a read returns is the resolution along the chain as it is NOW, whatever was read before
NoCacheStaleness == [][act'[1] = "Read" => out' = Resolve(St, ovs, act'[2], act'[3])]_vars

\* (4) re-parenting: after a detached tree m is stored under n, every placeholder below m whose name
\*     nobody inside m's tree defines reads as a fresh placeholder stored directly under n would;
\*     a placeholder resolved INSIDE m keeps its value (a nearer definer shadows the new context)
StP == [kind |-> kind', fld |-> fld', seq |-> seq', parent |-> parent', pkey |-> pkey']
\* what an unresolvable placeholder reads as: the plain override if a ContextualObject takes part, else AttributeError
FallbackOf(s, stk, d, k, ph) ==
  IF ph = CTX /\ PlainOv(stk, k) /\ (\E a \in Ancestors(s, d) \cup {d} : s.kind[a] = "obj") THEN EffOv(stk, k).v ELSE ERR
AttachedNode == IF act'[1] = "Set" THEN act'[4] ELSE IF act'[1] = "Insert" THEN act'[4] ELSE 0
MoveChangesResolution ==
  [][(act'[1] \in {"Set", "Insert"} /\ IsRef(AttachedNode)) =>
       LET m == AttachedNode  n == act'[2] IN
       \A d \in Desc(St, m) : \A k \in KeysOf(St, d) :
          IsPH(Get(St, d, k)) /\ ~(kind[d] = "obj" /\ AttrsOv(ovs, k)) =>
            LET ph == Get(St, d, k)
                inside == Definers(St, ovs, d, k, ph)
            IN IF inside # {} THEN obs'[d][k] = obs[d][k]
               ELSE \* the first candidate is n itself, then n's ancestors
                    LET outer == {a \in ({n} \cup Ancestors(StP, n)) : (ph = CTX => kind'[a] = "obj") /\ Defines(StP, ovs, a, k)}
                    IN IF outer # {} THEN obs'[d][k] = DefVal(StP, ovs, Nearest(StP, outer), k)
                       ELSE obs'[d][k] = FallbackOf(StP, ovs, d, k, ph)]_vars

\* (5) detaching: a placeholder below a removed child that was resolved from OUTSIDE the child loses its
\*     value (or falls back to the plain override); one resolved inside keeps it
DetachCutsContext ==
  [][(act'[1] \in {"Del", "Set"} /\ IsRef(Get(St, act'[2], act'[3]))) =>
       LET m == Get(St, act'[2], act'[3]) IN
       (kind'[m] # "free" /\ parent'[m] = NULL) /\
       \A d \in Desc(St, m) : \A k \in KeysOf(St, d) :
          IsPH(Get(St, d, k)) /\ ~(kind[d] = "obj" /\ AttrsOv(ovs, k)) =>
            LET ph == Get(St, d, k)
                inside == {a \in Definers(St, ovs, d, k, ph) : a \in Desc(St, m)}
            IN IF inside # {} THEN obs'[d][k] = obs[d][k]
               ELSE obs'[d][k] = FallbackOf(StP, ovs, d, k, ph)]_vars

\* (6) replacing an ancestor's value is seen by every placeholder that resolved to that ancestor
AncestorWriteVisible ==
  [][(act'[1] = "Set" /\ act'[4] \in Leafs) =>
       LET a == act'[2]  k == act'[3]  v == act'[4] IN
       \A d \in Desc(StP, a) \ {a} :
          (Get(StP, d, k) # ABSENT /\ IsPH(Get(StP, d, k)) /\ ~(kind[d] = "obj" /\ AttrsOv(ovs, k))
           /\ a \in Definers(StP, ovs, d, k, Get(StP, d, k))
           /\ Nearest(StP, Definers(StP, ovs, d, k, Get(StP, d, k))) = a
           /\ ~(kind[a] = "obj" /\ AttrsOv(ovs, k)))
          => obs'[d][k] = v]_vars

\* (7) a clone is a detached tree: its placeholders resolve inside the clone or not at all
CloneIsIsolated ==
  [][act'[1] = "Clone" =>
       LET c == out' IN
       /\ parent'[c] = NULL
       /\ \A d \in Desc(StP, c) : \A k \in KeysOf(StP, d) :
            IsPH(Get(StP, d, k)) =>
              (Definers(StP, ovs, d, k, Get(StP, d, k)) \subseteq Desc(StP, c))
       /\ \A x \in Alive(St) : obs'[x] = obs[x]]_vars

\* (8) scopes: an override with override_attrs wins on every ContextualObject; a plain override of a name
\*     that has no override yet only ever fills in contextual attributes the tree could not resolve
AttrsOverrideWins ==
  [][(act'[1] = "EnterOv" /\ act'[4]) =>
       \A n \in Alive(St) : kind[n] = "obj" => obs'[n][act'[2]] = act'[3]]_vars
PlainOverrideOnlyFillsGaps ==
  [][(act'[1] = "EnterOv" /\ ~act'[4] /\ ~HasOv(ovs, act'[2])) =>
       \A n \in Alive(St) : \A k \in KeysOf(St, n) :
          (obs[n][k] # ERR \/ Get(St, n, k) # CTX) => obs'[n][k] = obs[n][k]]_vars
ScopesLeaveTreesAlone == [][act'[1] \in {"EnterOv", "ExitOv"} => UNCHANGED tree]_vars
=============================================================================
