SPECIFICATION Spec
CONSTANTS
  IterUniverse <- U_validate
  MaxSize = 60
  AsCoded = TRUE
INVARIANT Complete
INVARIANT NoGap
