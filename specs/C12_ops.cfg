SPECIFICATION OpsSpec
CONSTANTS
  IterUniverse <- U_tiny
  MaxSize = 200
  OpsUniverse <- U_ops
  Mirror = FALSE
  MaxOps = 3
INVARIANT OpsAligned
INVARIANT OpsLookup
