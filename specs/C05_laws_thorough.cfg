INIT Init
NEXT Next
CONSTANTS
  Deep = TRUE
