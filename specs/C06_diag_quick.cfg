SPECIFICATION Spec
CONSTANTS
  Tier = "quick"
  Canonical = FALSE
  Mode = "observed"
INVARIANT Diagnose
