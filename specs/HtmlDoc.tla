------------------------------ MODULE HtmlDoc ------------------------------
(***************************************************************************)
(* C20 - HTML views: well-formedness and taint as a token-trace automaton. *)
(*                                                                         *)
(* A rendered document is tokenised (strictly, by pgverif/htmldoc.py) into *)
(* a trace of events                                                       *)
(*   open(tag, attribute names) / close(tag) / void(tag) / text / comment  *)
(*   / error (the strict tokenizer refuses the input here) / end           *)
(* and every event carries the TAINT classes of the planted user data      *)
(* found in it: where a sentinel of a user datum occurs (tag name,         *)
(* attribute name, attribute value, text, comment, raw text of             *)
(* script/style) and whether, after unescaping, the whole datum is there   *)
(* ("...ok") or only a mangled part of it ("...bad").                      *)
(*                                                                         *)
(* This module validates batches of such traces (one per line of an        *)
(* ndjson file): the state is the stack of open elements and the content   *)
(* mode; an event is accepted only if the document stays well-formed in    *)
(* the sense of the HTML parsing rules WITHOUT any of the silent repairs a *)
(* browser would make (auto-closing, foster parenting, ignored tags), and  *)
(* only if its taint is admissible: user data may only be text or an       *)
(* attribute value and must be intact there.                               *)
(***************************************************************************)
EXTENDS Naturals, Sequences, FiniteSets, TLC, TLCExt, Json, IOUtils

Traces == ndJsonDeserialize(IOEnv.TRACE_FILE)   \* one record [id, ev] per line

VARIABLES tid,      \* the trace this behaviour validates
          l,        \* next event
          stack,    \* open elements, outermost first
          mode,     \* "normal" | "raw" (inside script/style: only text until the end tag)
          roots,    \* number of root elements seen
          heads     \* <<head seen, body seen>> as 0/1
vars == <<tid, l, stack, mode, roots, heads>>

Ev(t) == Traces[t].ev

VoidTags  == {"area", "base", "br", "col", "embed", "hr", "img", "input", "link", "meta", "source", "track", "wbr"}
RawTags   == {"script", "style"}
HeadTags  == {"style", "script", "meta", "link", "title", "base", "noscript", "template"}
\* elements that make the parser close an open <p>
BlockTags == {"address", "article", "aside", "blockquote", "details", "div", "dl", "fieldset", "figure",
              "footer", "form", "h1", "h2", "h3", "h4", "h5", "h6", "header", "hr", "main", "nav", "ol",
              "p", "pre", "section", "table", "ul", "summary"}
Headings  == {"h1", "h2", "h3", "h4", "h5", "h6"}
TableKids == {"caption", "colgroup", "thead", "tbody", "tfoot", "tr", "script", "style", "template"}
RowGroup  == {"thead", "tbody", "tfoot"}
NoNest    == {"a", "button", "form", "option", "label"}      \* never inside themselves

Top == IF stack = <<>> THEN "#doc" ELSE stack[Len(stack)]
Has(tag) == \E i \in 1..Len(stack) : stack[i] = tag

\* a block-level start tag closes an open <p> unless something in between scopes it
Scoping == {"td", "th", "caption", "button", "object", "template", "table", "html"}
PStaysOpen(tag) ==
  LET ps == {i \in 1..Len(stack) : stack[i] = "p"} IN
  IF ps = {} \/ tag \notin BlockTags THEN TRUE
  ELSE LET lastp == CHOOSE i \in ps : \A j \in ps : j <= i IN
       \E j \in (lastp + 1)..Len(stack) : stack[j] \in Scoping

\* may an element `tag` start here without the parser repairing anything?
Allowed(tag) ==
  /\ mode = "normal"
  /\ CASE Top = "#doc"  -> tag = "html" /\ roots = 0
       [] Top = "html"  -> (tag = "head" /\ heads = <<0, 0>>) \/ (tag = "body" /\ heads[2] = 0)
       [] Top = "head"  -> tag \in HeadTags
       [] Top = "table" -> tag \in TableKids
       [] Top \in RowGroup -> tag \in {"tr", "script", "style", "template"}
       [] Top = "tr"    -> tag \in {"td", "th", "script", "style", "template"}
       [] Top = "colgroup" -> tag \in {"col", "template"}
       [] Top = "select" -> tag \in {"option", "optgroup", "hr", "script", "template"}
       [] OTHER -> TRUE
  /\ tag \in {"html", "head", "body"} => Top \in {"#doc", "html"}
  /\ tag \in {"tr"} => Top \in RowGroup \cup {"table"}
  /\ tag \in {"td", "th"} => Top = "tr"
  /\ tag \in RowGroup \cup {"caption", "colgroup"} => Top = "table"
  /\ tag = "col" => Top \in {"colgroup", "table"}
  /\ PStaysOpen(tag)
  /\ tag \in NoNest => ~Has(tag)
  /\ tag \in Headings => Top \notin Headings
  /\ tag \in {"li"} => Top # "li"
  /\ tag \in {"dd", "dt"} => Top \notin {"dd", "dt"}

\* taint classes a token may carry
\* "attrvalue_inert": a derivative of the datum made of identifier characters only (sanitised CSS class)
GoodOpenTaint == {"attrvalue_ok", "attrvalue_inert"}
GoodTextTaint == {"text_ok"}
TaintOf(e) == {e.taint[i] : i \in 1..Len(e.taint)}

Init == /\ tid \in 1..Len(Traces) /\ l = 1 /\ stack = <<>> /\ mode = "normal"
        /\ roots = 0 /\ heads = <<0, 0>>

Cur == Ev(tid)[l]
IsEvent(k) == l <= Len(Ev(tid)) /\ Cur.k = k /\ l' = l + 1 /\ UNCHANGED tid

AttrsOK(e) == /\ e.attrs_wellformed
              /\ Cardinality({e.an[i] : i \in 1..Len(e.an)}) = Len(e.an)      \* no duplicate attribute

Open == /\ IsEvent("open")
        /\ Cur.tag \notin VoidTags
        /\ Allowed(Cur.tag)
        /\ AttrsOK(Cur)
        /\ TaintOf(Cur) \subseteq GoodOpenTaint
        /\ stack' = Append(stack, Cur.tag)
        /\ mode' = IF Cur.tag \in RawTags THEN "raw" ELSE "normal"
        /\ roots' = IF stack = <<>> THEN roots + 1 ELSE roots
        /\ heads' = IF Cur.tag = "head" THEN <<1, heads[2]>> ELSE IF Cur.tag = "body" THEN <<heads[1], 1>> ELSE heads

Void == /\ IsEvent("void")
        /\ Cur.tag \in VoidTags
        /\ Allowed(Cur.tag)
        /\ AttrsOK(Cur)
        /\ TaintOf(Cur) \subseteq GoodOpenTaint
        /\ UNCHANGED <<stack, mode, roots, heads>>

Close == /\ IsEvent("close")
         /\ stack # <<>> /\ Top = Cur.tag                         \* matches the innermost open element
         /\ TaintOf(Cur) = {}
         /\ stack' = SubSeq(stack, 1, Len(stack) - 1)
         /\ mode' = "normal"
         /\ UNCHANGED <<roots, heads>>

\* character data: in raw mode it must be free of user data; elsewhere user data must be intact;
\* text that is not white space is repaired (moved) by the parser in these places
NoTextParents == {"#doc", "html", "head", "table", "thead", "tbody", "tfoot", "tr", "colgroup", "select"}
Text == /\ IsEvent("text")
        /\ IF mode = "raw" THEN TaintOf(Cur) = {}
           ELSE /\ TaintOf(Cur) \subseteq GoodTextTaint
                /\ ~Cur.ws => Top \notin NoTextParents
        /\ UNCHANGED <<stack, mode, roots, heads>>

Comment == /\ IsEvent("comment")
           /\ mode = "normal"
           /\ TaintOf(Cur) = {}
           /\ UNCHANGED <<stack, mode, roots, heads>>

\* end of input: everything closed, exactly one root
End == /\ IsEvent("end")
       /\ stack = <<>> /\ roots = 1
       /\ UNCHANGED <<stack, mode, roots, heads>>

\* there is deliberately no action for "error" events: a trace containing one is rejected there
Next == Open \/ Void \/ Close \/ Text \/ Comment \/ End
Spec == Init /\ [][Next]_vars

\* the automaton itself stays sane
StackSane == /\ mode = "raw" => (stack # <<>> /\ Top \in RawTags)
             /\ \A i \in 1..Len(stack) : stack[i] \notin VoidTags
             /\ roots <= 1

\* per-trace register: the furthest event matched (batched trace validation, DESIGN D.5)
Reg == TLCSet(tid, IF TLCGet(tid) < l THEN l ELSE TLCGet(tid))
Constr == Reg
Post == \A t \in 1..Len(Traces) :
          IF TLCGet(t) = Len(Ev(t)) + 1 THEN TRUE
          ELSE PrintT(<<"REJECT", Traces[t].id, "matched", TLCGet(t) - 1>>)
ASSUME \A t \in 1..Len(Traces) : TLCSet(t, 0)
=============================================================================
