------------------------------ MODULE KeyPath ------------------------------
(***************************************************************************)
(* Path addressing of PyGlove (property C10): definitions shared by        *)
(*   KeyPathParser.tla  (the character automaton of KeyPath.parse as a     *)
(*                       state machine + ParseFormat),                     *)
(*   KeyPathModel.tla   (design-level laws over the universes + export),   *)
(*   KeyPathSetM.tla    (KeyPathSet: trie state machine refining a set),   *)
(*   KeyPathLaws.tla    (the same laws evaluated on relations observed on  *)
(*                       the real pg.KeyPath / pg.utils.* functions).      *)
(*                                                                         *)
(* Characters are coded by ints IN CODE POINT ORDER of their concrete      *)
(* representatives so that lexicographic comparison of code sequences is   *)
(* Python's str comparison:                                                *)
(*   1 '-'  2 '.'  3 '0'  4 '1'  5 '['  6 ']'  7 'a'  8 'b'  9 u (>= U+80)   *)
(* A key is a record [int, n, s]: an int key n or a str key s (seq of      *)
(* chars).  A path is a sequence of keys.                                  *)
(***************************************************************************)
EXTENDS Integers, Sequences, FiniteSets, TLC

DASH == 1  DOT == 2  D0 == 3  D1 == 4  LB == 5  RB == 6
IsDigit(c) == c \in {D0, D1}
DigitVal(c) == IF c = D0 THEN 0 ELSE 1

StrKey(cs) == [int |-> FALSE, n |-> 0, s |-> cs]
IntKey(n) == [int |-> TRUE, n |-> n, s |-> <<>>]

SeqsUpTo(S, n) == UNION {[1..k -> S] : k \in 0..n}

\* ---------------------------------------------------------------- parser ---
\* Transcription of KeyPath.parse (value_location.py): `_append_key` and ONE iteration of the
\* `while pos != len(path_str)` loop as a step function over the parser state
\*   [pos, ks (key_start), depth (unmatched_brackets), keys, st \in {"run","ok","err"}]
\* (positions are 1-based here).
RECURSIVE LStripDash(_)
LStripDash(cs) == IF cs # <<>> /\ cs[1] = DASH THEN LStripDash(Tail(cs)) ELSE cs
AllDigits(cs) == cs # <<>> /\ \A i \in 1..Len(cs) : IsDigit(cs[i])
RECURSIVE NatOf(_)
NatOf(cs) == IF cs = <<>> THEN 0 ELSE NatOf(SubSeq(cs, 1, Len(cs) - 1)) * 10 + DigitVal(cs[Len(cs)])
\* Python int(): one optional sign, then digits
IntOf(cs) == IF cs[1] = DASH
             THEN (IF AllDigits(Tail(cs)) THEN [ok |-> TRUE, n |-> 0 - NatOf(Tail(cs))] ELSE [ok |-> FALSE, n |-> 0])
             ELSE [ok |-> TRUE, n |-> NatOf(cs)]

AppendKey(keys, key, preserveEmpty, maybeNumeric) ==
  IF ~(preserveEmpty \/ key # <<>>) THEN [ok |-> TRUE, keys |-> keys]
  ELSE IF maybeNumeric /\ AllDigits(LStripDash(key))
       THEN LET r == IntOf(key) IN
            IF r.ok THEN [ok |-> TRUE, keys |-> Append(keys, IntKey(r.n))] ELSE [ok |-> FALSE, keys |-> keys]
       ELSE [ok |-> TRUE, keys |-> Append(keys, StrKey(key))]

PInit == [pos |-> 1, ks |-> 1, depth |-> 0, keys |-> <<>>, st |-> "run"]
PErr(s) == [s EXCEPT !.st = "err"]

PStep(str, s) ==
  IF s.st # "run" THEN s
  ELSE IF s.pos > Len(str) THEN
    \* after the loop: trailing key, then the unmatched-bracket test
    LET r == IF s.ks # Len(str) + 1 THEN AppendKey(s.keys, SubSeq(str, s.ks, Len(str)), FALSE, FALSE)
             ELSE [ok |-> TRUE, keys |-> s.keys]
    IN IF s.depth # 0 \/ ~r.ok THEN PErr(s) ELSE [s EXCEPT !.keys = r.keys, !.st = "ok"]
  ELSE LET ch == str[s.pos] IN
    IF ch = RB THEN
      IF s.depth - 1 = 0 THEN
        LET r == AppendKey(s.keys, SubSeq(str, s.ks, s.pos - 1), TRUE, TRUE) IN
        IF r.ok THEN [s EXCEPT !.pos = s.pos + 1, !.ks = s.pos + 1, !.depth = 0, !.keys = r.keys]
        ELSE PErr(s)
      ELSE IF s.depth - 1 < 0 THEN PErr(s)
      ELSE [s EXCEPT !.pos = s.pos + 1, !.depth = s.depth - 1]
    ELSE IF ch = LB THEN
      IF s.depth = 0 THEN
        LET r == AppendKey(s.keys, SubSeq(str, s.ks, s.pos - 1), FALSE, FALSE) IN
        [s EXCEPT !.pos = s.pos + 1, !.ks = s.pos + 1, !.depth = 1, !.keys = r.keys]
      ELSE [s EXCEPT !.pos = s.pos + 1, !.depth = s.depth + 1]
    ELSE IF ch = DOT /\ s.depth = 0 THEN
      LET r == AppendKey(s.keys, SubSeq(str, s.ks, s.pos - 1), FALSE, FALSE) IN
      [s EXCEPT !.pos = s.pos + 1, !.ks = s.pos + 1, !.keys = r.keys]
    ELSE [s EXCEPT !.pos = s.pos + 1]

RECURSIVE PRun(_, _)
PRun(str, s) == IF s.st # "run" THEN s ELSE PRun(str, PStep(str, s))
Parse(str) == LET r == PRun(str, PInit) IN
              [ok |-> r.st = "ok", keys |-> IF r.st = "ok" THEN r.keys ELSE <<>>]

\* ------------------------------------------------------------- formatter ---
HasSpecial(cs) == \E i \in 1..Len(cs) : cs[i] \in {DOT, LB, RB}
RECURSIVE DigitsOf(_)
DigitsOf(n) == IF n < 10 THEN <<IF n = 0 THEN D0 ELSE IF n = 1 THEN D1 ELSE 99>>
               ELSE DigitsOf(n \div 10) \o DigitsOf(n % 10)
IntStr(n) == IF n < 0 THEN <<DASH>> \o DigitsOf(0 - n) ELSE DigitsOf(n)
RECURSIVE FormatFrom(_, _)
FormatFrom(keys, i) ==
  IF i > Len(keys) THEN <<>>
  ELSE LET k == keys[i] IN
       (IF ~k.int /\ ~HasSpecial(k.s) THEN (IF i # 1 THEN <<DOT>> ELSE <<>>) \o k.s
        ELSE <<LB>> \o (IF k.int THEN IntStr(k.n) ELSE k.s) \o <<RB>>) \o FormatFrom(keys, i + 1)
Format(keys) == FormatFrom(keys, 1)

\* -------------------------------------------------------------- universes ---
Balanced(cs) ==
  LET RECURSIVE B(_, _)
      B(i, d) == IF i > Len(cs) THEN d = 0
                 ELSE IF cs[i] = LB THEN B(i + 1, d + 1)
                 ELSE IF cs[i] = RB THEN (d > 0 /\ B(i + 1, d - 1))
                 ELSE B(i + 1, d)
  IN B(1, 0)
\* the keys the property quantifies over: non-empty strings with balanced brackets, and ints
StrKeysUpTo(Alphabet, n) == {StrKey(cs) : cs \in {c \in SeqsUpTo(Alphabet, n) : c # <<>> /\ Balanced(c)}}
IntKeysOf(S) == {IntKey(n) : n \in S}

\* ------------------------------------------------------------ path algebra ---
\* The reference is the sequence of keys: concatenation, prefix, suffix.
Concat(p, q) == p \o q
PrefixOf(q, p) == Len(q) <= Len(p) /\ SubSeq(p, 1, Len(q)) = q
ParentOf(p) == IF p = <<>> THEN [ok |-> FALSE, keys |-> <<>>] ELSE [ok |-> TRUE, keys |-> SubSeq(p, 1, Len(p) - 1)]
\* p - q : the path of p relative to q; an error unless q is a prefix of p
Sub(p, q) == IF PrefixOf(q, p) THEN [ok |-> TRUE, keys |-> SubSeq(p, Len(q) + 1, Len(p))]
             ELSE [ok |-> FALSE, keys |-> <<>>]

\* Ordering.  Lexicographic comparison of code sequences = Python str comparison.
RECURSIVE SeqLt(_, _)
SeqLt(a, b) == IF b = <<>> THEN FALSE
               ELSE IF a = <<>> THEN TRUE
               ELSE IF a[1] # b[1] THEN a[1] < b[1]
               ELSE SeqLt(Tail(a), Tail(b))
KeyText(k) == IF k.int THEN IntStr(k.n) ELSE k.s
\* mode "coded": the rule as written today (_KeyComparisonWrapper): two ints numerically, otherwise by
\* their text.  mode "intended": one admissible total order (ints before strs).
KeyLt(a, b, m) == IF a.int /\ b.int THEN a.n < b.n
                  ELSE IF m = "coded" THEN SeqLt(KeyText(a), KeyText(b))
                  ELSE IF a.int # b.int THEN a.int
                  ELSE SeqLt(a.s, b.s)
KeyEq(a, b, m) == IF a.int /\ b.int THEN a.n = b.n
                  ELSE IF m = "coded" THEN KeyText(a) = KeyText(b)
                  ELSE a = b
\* Python tuple comparison with element-level eq / lt
RECURSIVE PathLt(_, _, _)
PathLt(p, q, m) ==
  IF q = <<>> THEN FALSE
  ELSE IF p = <<>> THEN TRUE
  ELSE IF ~KeyEq(p[1], q[1], m) THEN KeyLt(p[1], q[1], m)
  ELSE PathLt(Tail(p), Tail(q), m)

\* what "an ordering consistent with the key sequences" means, for any relation lt over a universe U
Irreflexive(U, lt(_, _)) == \A a \in U : ~lt(a, a)
Transitive(U, lt(_, _)) == \A a, b, c \in U : lt(a, b) /\ lt(b, c) => lt(a, c)
Trichotomous(U, lt(_, _)) == \A a, b \in U : a # b => (lt(a, b) \/ lt(b, a))
PrefixFirst(U, lt(_, _)) == \A a, b \in U : (a # b /\ PrefixOf(a, b)) => lt(a, b)
IntTextKey(k) == k.int \/ AllDigits(LStripDash(k.s))      \* an int key or a str key that reads like one

\* ---------------------------------------------------------- nested values ---
\* [t |-> "leaf"|"dict"|"list", a |-> leaf atom, ks |-> keys (dict), xs |-> children]
Leaf(a) == [t |-> "leaf", a |-> a, ks |-> <<>>, xs |-> <<>>]
DictV(ks, xs) == [t |-> "dict", a |-> 0, ks |-> ks, xs |-> xs]
ListV(xs) == [t |-> "list", a |-> 0, ks |-> <<>>, xs |-> xs]
ChildKey(v, i) == IF v.t = "dict" THEN v.ks[i] ELSE IntKey(i - 1)

RECURSIVE NodeCount(_)
NodeCount(v) == LET RECURSIVE Sum(_)
                    Sum(i) == IF i > Len(v.xs) THEN 0 ELSE NodeCount(v.xs[i]) + Sum(i + 1)
                IN 1 + Sum(1)

\* preorder visit log: sequence of [p |-> path, node |-> sub-value]
RECURSIVE VisitsFrom(_, _)
VisitsFrom(v, path) ==
  LET RECURSIVE Kids(_)
      Kids(i) == IF i > Len(v.xs) THEN <<>>
                 ELSE VisitsFrom(v.xs[i], Append(path, ChildKey(v, i))) \o Kids(i + 1)
  IN <<[p |-> path, node |-> v]>> \o Kids(1)
Visits(v) == VisitsFrom(v, <<>>)

\* lookup of a path from the root (KeyPath.query): dict by key, list by index
RECURSIVE LookupV(_, _)
LookupV(v, path) ==
  IF path = <<>> THEN [ok |-> TRUE, node |-> v]
  ELSE LET k == path[1] IN
    IF v.t = "dict" THEN
      IF \E i \in 1..Len(v.ks) : v.ks[i] = k
      THEN LookupV(v.xs[CHOOSE i \in 1..Len(v.ks) : v.ks[i] = k], Tail(path))
      ELSE [ok |-> FALSE, node |-> Leaf(0)]
    ELSE IF v.t = "list" /\ k.int /\ k.n >= 0 /\ k.n < Len(v.xs) THEN LookupV(v.xs[k.n + 1], Tail(path))
    ELSE [ok |-> FALSE, node |-> Leaf(0)]

\* every node once, each with the path that looks it up
VisitLogOK(v, log) ==
  /\ Len(log) = NodeCount(v)
  /\ \A i \in 1..Len(log) : LookupV(v, log[i].p) = [ok |-> TRUE, node |-> log[i].node]
  /\ \A i, j \in 1..Len(log) : i # j => log[i].p # log[j].p

\* flatten (with complex keys preserved): sequence of <<path, terminal>> in preorder, where a terminal
\* is a leaf or an EMPTY container; the root itself is returned when it is a leaf or empty
IsTerminal(v) == v.t = "leaf" \/ v.xs = <<>>
RECURSIVE FlattenFrom(_, _)
FlattenFrom(v, path) ==
  IF IsTerminal(v) THEN <<[p |-> path, node |-> v]>>
  ELSE LET RECURSIVE Kids(_)
           Kids(i) == IF i > Len(v.xs) THEN <<>>
                      ELSE FlattenFrom(v.xs[i], Append(path, ChildKey(v, i))) \o Kids(i + 1)
       IN Kids(1)
Flatten(v) == FlattenFrom(v, <<>>)

\* canonicalize: rebuild the nesting from path-keyed entries; keys keep first-appearance order;
\* a dict whose keys are exactly the ints 0..n-1 becomes a list (documented)
RECURSIVE FirstKeys(_, _)
FirstKeys(es, seen) == IF es = <<>> THEN <<>>
                       ELSE LET k == es[1].p[1] IN
                            IF k \in seen THEN FirstKeys(Tail(es), seen)
                            ELSE <<k>> \o FirstKeys(Tail(es), seen \cup {k})
RECURSIVE Build(_)
Build(es) ==
  IF Len(es) = 1 /\ es[1].p = <<>> THEN es[1].node
  ELSE LET ks == FirstKeys(es, {})
           Sub1(k) == LET T(e) == e.p[1] = k
                          sel == SelectSeq(es, T)
                      IN [i \in 1..Len(sel) |-> [p |-> Tail(sel[i].p), node |-> sel[i].node]]
           n == Len(ks)
           perfect == \A i \in 1..n : ks[i].int /\ ks[i].n >= 0 /\ ks[i].n < n
       IN IF perfect
          THEN ListV([i \in 1..n |-> Build(Sub1(IntKey(i - 1)))])
          ELSE DictV(ks, [i \in 1..n |-> Build(Sub1(ks[i]))])
Canonicalize(flat) == Build(flat)

\* the domain of the inverse law: no dict anywhere whose keys are exactly the ints 0..n-1 (those are
\* documented to come back as lists); entries with conflicting prefixes cannot arise from Flatten
RECURSIVE InFlattenDomain(_)
InFlattenDomain(v) ==
  /\ (v.t = "dict" /\ v.ks # <<>>) =>
        ~(\A i \in 1..Len(v.ks) : v.ks[i].int /\ v.ks[i].n >= 0 /\ v.ks[i].n < Len(v.ks))
  /\ \A i \in 1..Len(v.xs) : InFlattenDomain(v.xs[i])

\* same value up to the order of dict entries (Python == on dicts)
RECURSIVE SameValue(_, _)
SameValue(v, w) ==
  /\ v.t = w.t /\ v.a = w.a /\ Len(v.xs) = Len(w.xs)
  /\ IF v.t = "dict"
     THEN /\ \A i, j \in 1..Len(w.ks) : i # j => w.ks[i] # w.ks[j]
          /\ \A i \in 1..Len(v.ks) : \E j \in 1..Len(w.ks) : w.ks[j] = v.ks[i] /\ SameValue(v.xs[i], w.xs[j])
     ELSE \A i \in 1..Len(v.xs) : SameValue(v.xs[i], w.xs[i])

\* value universes: V0 leaves, V1 one level, V2 two levels (bounded width)
DistinctKeys(ks) == \A i, j \in 1..Len(ks) : i # j => ks[i] # ks[j]
KeySeqs(K, w) == {ks \in SeqsUpTo(K, w) : DistinctKeys(ks)}
Level(K, w, Below) ==
  {DictV(ks, xs) : <<ks, xs>> \in {kx \in KeySeqs(K, w) \X SeqsUpTo(Below, w) : Len(kx[1]) = Len(kx[2])}}
  \cup {ListV(xs) : xs \in SeqsUpTo(Below, w)}

=============================================================================
