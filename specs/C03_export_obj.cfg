INIT Init
NEXT ExpNext
CONSTANTS
  U = "quick"
  Kind = "obj"
  InitPartial = FALSE
  Mirror = FALSE
  MaxLevel = 40
  Small = FALSE
  Avoid = FALSE
  SimK = 1
  AccW = TRUE
  Acts = {"dset", "oset", "rebind", "ddel", "batch", "lset", "ldel", "slice", "lins", "inplace", "ctor"}
