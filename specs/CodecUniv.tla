------------------------------ MODULE CodecUniv ------------------------------
(* Value universes of C05 (shared by CodecModel.tla and CodecLaws.tla; dummy arguments keep TLC from
   evaluating them eagerly in runs that do not need them). *)
EXTENDS Codec
CONSTANTS Deep      \* FALSE: quick universe, TRUE: thorough universe

Leafs == {1, 2, 3, 4, 5, 6, 7, 10, 11, 12, 13, 20, 61, 63}
SmallLeafs == {3, 6, 10}
Keys == {31, 32, 33, 34, 35, 36, 37, 38, 41, 42}
WrapKeys == IF Deep THEN Keys ELSE {31, 32, 35, 41}
V0(u) == {Leaf(a) : a \in Leafs}
V0s(u) == {Leaf(a) : a \in SmallLeafs}
IntLeaf == {Leaf(3)}
Miss == {Leaf(MISSING)}
\* containers with at most one element, objects
\* objects include PARTIAL ones (a field is MISSING_VALUE); MISSING occurs nowhere else
V1s(u) == V0(u) \cup Containers(Keys, 1, V0(u)) \cup Objects(V0(u) \cup Miss, IntLeaf \cup Miss)
Partials(u) == {ObjV(1, <<Leaf(MISSING)>>), ObjV(2, <<Leaf(3), Leaf(MISSING)>>), ObjV(2, <<Leaf(MISSING), Leaf(3)>>)}
\* a partial object below a tuple below every kind of container (tuple elements are loaded by a path of their own)
Nest(S) == {TupleV(<<TupleV(<<x>>)>>) : x \in S} \cup {ListV(<<TupleV(<<Leaf(3), x>>)>>) : x \in S}
           \cup {DictV(<<31>>, <<TupleV(<<x, Leaf(6)>>)>>) : x \in S} \cup {ObjV(1, <<TupleV(<<x>>)>>) : x \in S}
           \cup {TupleV(<<ObjV(1, <<x>>)>>) : x \in S}
\* + pairs over the small leaf set
V1(u) == V1s(u) \cup Containers(Keys, 2, V0s(u))
Wrap(S) == {ListV(<<x>>) : x \in S} \cup {TupleV(<<x>>) : x \in S} \cup {ObjV(1, <<x>>) : x \in S}
           \cup {DictV(<<k>>, <<x>>) : k \in WrapKeys, x \in S}
V2(u) == V1(u) \cup Wrap(IF Deep THEN V1(u) ELSE V1s(u)) \cup Nest(Partials(u))
\* thorough: mixed pairs [x, leaf] / (leaf, x) / {k: x, 31: leaf}, and a third level over small values
Small(u) == V0s(u) \cup Containers({31, 32, 35, 41}, 1, V0s(u))
V3(u) == V2(u) \cup Wrap(Wrap(Small(u)))
              \cup {ListV(<<x, l>>) : x \in V1s(u), l \in V0s(u)} \cup {TupleV(<<l, x>>) : x \in V1s(u), l \in V0s(u)}
              \cup {DictV(<<k, 31>>, <<x, l>>) : k \in Keys \ {31}, x \in V1s(u), l \in V0s(u)}
ValU(u) == IF Deep THEN V3(u) ELSE V2(u)
=============================================================================
