SPECIFICATION Spec
CONSTANTS
  Tier = "quick"
  Mode = "design"
  SameRule = "intended"
INVARIANT LawsHold
INVARIANT PatchDone
INVARIANT Applicable
