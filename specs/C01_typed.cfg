SPECIFICATION Spec
CONSTANTS
  MaxNodes = 4
  Keys = {1}
  Leafs = {101}
  Shapes = {200, 220}
  MaxLen = 2
  Acts = {"dict", "list", "slice", "rebind", "inplace", "clone", "typed"}
  Mirror = FALSE
  MaxLevel = 3
  InitKinds <- IK_TListDict
  SimK = 0
CONSTRAINT LevelBound
VIEW view
INVARIANT TreeOK
INVARIANT OnePlace
INVARIANT DetachedOK
INVARIANT LookupOK
INVARIANT NoDangling
PROPERTY RemovedIsDetached
PROPERTY RejectedMeansUnchanged
