SPECIFICATION Spec
CONSTANTS
  Tier = "tiny"
  Variant = "first"
  MaxLevel = 0
  SimK = 0
INVARIANT WalkLaw
