SPECIFICATION Spec
CONSTANTS
  U = "quick"
  Kind = "dict"
  InitPartial = TRUE
  Mirror = FALSE
  MaxLevel = 3
  Small = TRUE
  Avoid = FALSE
  SimK = 0
  AccW = TRUE
  Acts = {"dset", "rebind", "ddel", "batch", "ldel", "ctor"}
CONSTRAINT LevelBound
VIEW view
INVARIANT Conforms
INVARIANT AltsConform
PROPERTY RejectedWriteNoStore
