------------------------------- MODULE PySeq -------------------------------
(* Pure operators: CPython index / slice semantics over TLA+ sequences.      *)
(* Python index i (0-based, possibly negative) addresses element i+1.        *)
(* Validated against CPython's list on every case exported by PySeqExport.   *)
EXTENDS Integers, Sequences, FiniteSets

NONE == 9999                       \* "None" as slice bound / step

PMax(a, b) == IF a > b THEN a ELSE b
PMin(a, b) == IF a < b THEN a ELSE b

\* index normalisation for item access: returns -1 when out of range
NormIndex(i, n) == IF i < 0 THEN (IF i + n < 0 THEN -1 ELSE i + n)
                   ELSE (IF i >= n THEN -1 ELSE i)

\* list.insert clamps instead of raising
ClampInsert(i, n) == IF i < 0 THEN PMax(i + n, 0) ELSE PMin(i, n)

\* slice.indices(n): <<start, stop, step>>
SliceIndices(start, stop, step, n) ==
  LET st == IF step = NONE THEN 1 ELSE step
      lower == IF st < 0 THEN -1 ELSE 0
      upper == IF st < 0 THEN n - 1 ELSE n
      s == IF start = NONE THEN (IF st < 0 THEN upper ELSE lower)
           ELSE IF start < 0 THEN PMax(start + n, lower) ELSE PMin(start, upper)
      e == IF stop = NONE THEN (IF st < 0 THEN lower ELSE upper)
           ELSE IF stop < 0 THEN PMax(stop + n, lower) ELSE PMin(stop, upper)
  IN <<s, e, st>>

RECURSIVE RangeSeq(_,_,_)
RangeSeq(s, e, st) == IF (st > 0 /\ s >= e) \/ (st < 0 /\ s <= e) THEN <<>>
                      ELSE <<s>> \o RangeSeq(s + st, e, st)

\* the 0-based positions a slice selects, in slice order
SlicePositions(start, stop, step, n) ==
  LET i == SliceIndices(start, stop, step, n) IN RangeSeq(i[1], i[2], i[3])

SliceRead(xs, start, stop, step) ==
  LET r == SlicePositions(start, stop, step, Len(xs))
  IN [k \in 1..Len(r) |-> xs[r[k] + 1]]

\* slice assignment: [ok |-> BOOLEAN, xs |-> new list]; ok = FALSE is ValueError
SliceAssign(xs, start, stop, step, rep) ==
  LET i == SliceIndices(start, stop, step, Len(xs)) IN
  IF i[3] = 1
  THEN LET s == i[1]  e == PMax(i[1], i[2]) IN
       [ok |-> TRUE, xs |-> SubSeq(xs, 1, s) \o rep \o SubSeq(xs, e + 1, Len(xs))]
  ELSE LET r == RangeSeq(i[1], i[2], i[3]) IN
       IF Len(r) # Len(rep) THEN [ok |-> FALSE, xs |-> xs]
       ELSE [ok |-> TRUE,
             xs |-> [k \in 1..Len(xs) |->
                       IF \E j \in 1..Len(r) : r[j] + 1 = k
                       THEN rep[CHOOSE j \in 1..Len(r) : r[j] + 1 = k] ELSE xs[k]]]

RECURSIVE KeepFrom(_,_,_)
KeepFrom(xs, k, drop) == IF k > Len(xs) THEN <<>>
                         ELSE (IF k \in drop THEN <<>> ELSE <<xs[k]>>) \o KeepFrom(xs, k + 1, drop)

SliceDelete(xs, start, stop, step) ==
  LET r == SlicePositions(start, stop, step, Len(xs))
  IN KeepFrom(xs, 1, {r[j] + 1 : j \in 1..Len(r)})

RemoveIdx(xs, i) == SubSeq(xs, 1, i - 1) \o SubSeq(xs, i + 1, Len(xs))          \* 1-based
InsertIdx(xs, i, v) == SubSeq(xs, 1, i - 1) \o <<v>> \o SubSeq(xs, i, Len(xs))   \* 1-based: v becomes xs[i]
RevSeq(xs) == [k \in 1..Len(xs) |-> xs[Len(xs) + 1 - k]]

RECURSIVE Repeat(_,_)
Repeat(xs, k) == IF k <= 0 THEN <<>> ELSE xs \o Repeat(xs, k - 1)

\* first 1-based position of v in xs, 0 when absent
FirstPos(xs, v) == IF \E i \in 1..Len(xs) : xs[i] = v
                   THEN CHOOSE i \in 1..Len(xs) : xs[i] = v /\ \A j \in 1..(i-1) : xs[j] # v
                   ELSE 0
CountOf(xs, v) == Cardinality({i \in 1..Len(xs) : xs[i] = v})

\* insertion sort of integers (stable; ascending)
RECURSIVE InsSorted(_,_)
InsSorted(sorted, v) == IF sorted = <<>> THEN <<v>>
                        ELSE IF v < sorted[1] THEN <<v>> \o sorted
                        ELSE <<sorted[1]>> \o InsSorted(Tail(sorted), v)
RECURSIVE SortInts(_)
SortInts(xs) == IF xs = <<>> THEN <<>> ELSE InsSorted(SortInts(SubSeq(xs, 1, Len(xs) - 1)), xs[Len(xs)])
=============================================================================
