INIT Init
NEXT NoNext
CONSTANTS
  Tier = "tiny"
  Variant = "ref"
  MaxLevel = 0
  SimK = 0
