SPECIFICATION Spec
CONSTANTS
  U = "quick"
  Kind = "dict"
  InitPartial = FALSE
  Mirror = FALSE
  MaxLevel = 4
  Small = TRUE
  Avoid = FALSE
  SimK = 0
  AccW = TRUE
  Acts = {"dset", "oset", "rebind", "ddel", "batch", "lset", "ldel", "slice", "lins", "inplace", "ctor"}
CONSTRAINT LevelBound
VIEW view
INVARIANT Conforms
INVARIANT AltsConform
PROPERTY RejectedWriteNoStore
