SPECIFICATION Spec
CONSTANTS
  U = "quick"
  Kind = "list2"
  InitPartial = FALSE
  Mirror = FALSE
  MaxLevel = 40
  Small = FALSE
  Avoid = TRUE
  SimK = 1
  AccW = TRUE
  Acts = {"xslice", "lins", "ldel"}
CONSTRAINT LevelBound
INVARIANT Conforms
INVARIANT AltsConform
PROPERTY RejectedWriteNoStore
