SPECIFICATION Spec
CONSTANTS
  Threads = {1, 2, 3}
  Deep = 1
  MaxDepth = 6
  ShallowDepth = 2
  Fams <- EveryFam
  Mirror = FALSE
INVARIANT NestingRule
INVARIANT ViewIsProjection
INVARIANT TimeitOK
INVARIANT Narrowing
INVARIANT QuiescentIsDefault
PROPERTY Restores
PROPERTY Isolation
PROPERTY RefusedIsNoop
PROPERTY InnerFaultIsNoop
