---------------------------- MODULE OrderDesign ----------------------------
(* Design-level model of C06: the laws of Order.tla evaluated on the reference tables (Mode = "design" in the   *)
(* cfg), and the export of the universe for the conformance run.                                           *)
(*   Canonical = FALSE (documented rules): the laws hold outside the two zones, and TLC must FIND the      *)
(*     design counter-examples inside the dict-key-order zone (DesignFindings).                            *)
(*   Canonical = TRUE (dict lt / hash on sorted keys): the laws hold on the whole universe.                *)
EXTENDS Order

ASSUME UniverseOK

\* counter-examples of the documented design that TLC has to exhibit (vacuity guard of the zone)
DesignFindings ==
  /\ \E a \in Ix, b \in Ix : ~Trichotomy(a, b) /\ ZoneOf(<<a, b>>) = "dict-key-order"
  /\ \E a \in Ix, b \in Ix : ~EqImpliesSameHash(a, b) /\ ZoneOf(<<a, b>>) = "dict-key-order"
  /\ \E a \in Ix, b \in Ix, c \in Ix : ~TransLtAt(a, b, c) /\ ZoneOf(<<a, b, c>>) = "dict-key-order"
ASSUME ~Canonical => DesignFindings

StrTable == <<"", "a", "ab", "b">>
ASSUME JsonSerialize(IOEnv.OUT_FILE, [universe |-> U, strs |-> StrTable, n |-> N,
                                      hashdef |-> [a \in Ix |-> Bit(HashDef(a))],
                                      symobj |-> [a \in Ix |-> Bit(IsSymObj(a))]])
=============================================================================
