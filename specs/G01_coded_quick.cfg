SPECIFICATION SpecCells
CONSTANTS
  Tier = "quick"
  Mode = "design"
  SameRule = "coded"
INVARIANT LawsHoldOutsideZones
