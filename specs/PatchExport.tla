---------------------------- MODULE PatchExport ----------------------------
(* G04: exports the universe, the table of calls and, for the trees of one slice, what every call must produce.        *)
(* Also: the universe tells the options apart (each ASSUME exhibits a tree on which two readings differ).              *)
EXTENDS PatchCases

Slice == atoi(IOEnv.SLICE)
NSlices == atoi(IOEnv.NSLICES)
Mine == SortSeq(SetToSeq({i \in 1..N : i % NSlices = Slice}), LAMBDA a, b : a < b)
NoNext == UNCHANGED vars

SomeTree(D(_)) == \E i \in 1..N : D(U[i])
ASSUME NonVacuous ==
  /\ SomeTree(LAMBDA t : \E k \in Ix(Selectors) : QueryRef(t, Selectors[k], TRUE) # QueryRef(t, Selectors[k], FALSE))
  /\ SomeTree(LAMBDA t : \E k \in Ix(Wheres) : DescRef(t, Wheres[k], "LEAF", FALSE) # DescRef(t, Wheres[k], "IMMEDIATE", FALSE)
                                               /\ DescRef(t, Wheres[k], "LEAF", FALSE) # DescRef(t, Wheres[k], "ALL", FALSE))
  /\ SomeTree(LAMBDA t : \E k \in Ix(Wheres) : DescRef(t, Wheres[k], "ALL", TRUE) # DescRef(t, Wheres[k], "ALL", FALSE))
  /\ SomeTree(LAMBDA t : \E k \in Ix(Visitors) : ~TravRef(t, Visitors[k]).ok /\ Len(TravRef(t, Visitors[k]).ev) < 2 * Cardinality(LocSet(t)) - 2)
  /\ SomeTree(LAMBDA t : \E f \in AllF : Changed(t, f) # Sel(t, f) /\ <<>> \notin Sel(t, f))          \* a match inside a replaced value
  /\ SomeTree(LAMBDA t : \E f \in AllF : Calls(t, f) # DocSeq(t, Sel(t, f)) /\ Sel(t, f) # {})        \* asked, answered "the same"
  /\ SomeTree(LAMBDA t : \E f \in AllF : <<>> \in Sel(t, f))
  /\ SomeTree(LAMBDA t : \E f \in AllF : Sel(t, f) = {})
  /\ \E r \in Ix(AllRegexes), s \in Ix(Strings) : ReMatch(AllRegexes[r], Strings[s]) /\ ~ReFull(AllRegexes[r], Strings[s])
  /\ \E r \in Ix(AllRegexes), s \in Ix(Strings) : ~ReMatch(AllRegexes[r], Strings[s]) /\ ReSearch(AllRegexes[r], Strings[s])

ASSUME JsonSerialize(IOEnv.OUT_FILE,
  [n |-> N, nops |-> NOps, trees |-> U, ops |-> Ops, slice |-> Mine,
   exp |-> [k \in 1..Len(Mine) |-> [j \in 1..NOps |-> Expected(U[Mine[k]], Ops[j])]],
   regexes |-> AllRegexes,
   strings |-> IF Slice = 0 THEN Strings ELSE <<>>,
   retable |-> IF Slice = 0 THEN RegexTable ELSE <<>>])
=============================================================================
