SPECIFICATION Spec
CONSTANTS
  Alphabet = {1, 2, 3, 4, 5, 6, 7, 8, 9}
  MaxStr = 6
  KeyLen = 2
  IntVals <- IV_small
  PathDepth = 3
  WithFree = TRUE
INVARIANT TypeOK
INVARIANT KeyStartInRange
INVARIANT DepthCounts
INVARIANT AcceptsBalanced
INVARIANT ParseFormat
INVARIANT ClosedForm
PROPERTY Progress
