SPECIFICATION SpecFrom
CONSTANTS
  MaxNodes = 12
  Keys = {1, 2}
  Leafs = {101, 160, 170}
  Shapes = {200, 211, 220, 223}
  MaxLen = 2
  Acts = {"clone"}
  Mirror = FALSE
  MaxLevel = 2
  InitKinds <- IK_DictList
  SimK = 0
