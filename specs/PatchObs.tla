------------------------------ MODULE PatchObs ------------------------------
(* G04: the laws of Patch.tla evaluated by TLC on what was OBSERVED on the real API (written by pgverif/patchspec.py:   *)
(* for every tree of the universe the results of the calls Obs.opix, in the layout of PatchCases!Expected).            *)
(* The relational laws use observed results on BOTH sides (pg.query against pg.traverse against sym_descendants,       *)
(* a patch against the query with the same condition); ObsAgreesWithRef compares with the documented meaning.          *)
EXTENDS PatchCases

Obs == JsonDeserialize(IOEnv.OBS_FILE)
ASSUME /\ Obs.n = N /\ Len(Obs.rows) = N
       /\ \A i \in 1..N : Len(Obs.rows[i]) = Len(Obs.opix)
       /\ \A m \in 1..Len(Obs.opix) : Obs.opix[m] \in 1..NOps

NObs == Len(Obs.opix)
OpAt(m) == Ops[Obs.opix[m]]
Find(op) == CHOOSE m \in 1..NObs : OpAt(m) = op
Res(i, op) == Obs.rows[i][Find(op)]
Here == act[1] = "init"
I == act[2]
T == U[I]

NotifSet(s) == {<<s[k][1], Rng(s[k][2])>> : k \in 1..Len(s)}
\* Zone of finding G04-F1: a written location whose printed path cannot be parsed back (key 'q]').  There the call may
\* also fail the way it does today - ValueError before anything is written - and nothing else.
Unparseable(S) == \E p \in S : \E k \in 1..Len(p) : p[k] = KQ
AsCodedF1(o) == o[1] = "ValueError" /\ o[2] = T /\ o[4] = <<>>
SameAsRef(op, o, e) ==
  CASE op[1] = "patch" -> \/ /\ o[1] = e[1] /\ o[2] = e[2] /\ Rng(o[3]) = Rng(e[3]) /\ Len(o[3]) = Len(e[3])
                             /\ NotifSet(o[4]) = NotifSet(e[4]) /\ Len(o[4]) = Len(e[4]) /\ o[5] = e[5]
                          \/ e[1] = "ok" /\ Unparseable(Rng(e[6])) /\ AsCodedF1(o)
    [] op[1] = "trav" -> o[1] = e[1] /\ o[2] = e[2]
    [] OTHER -> o = e
ObsAgreesWithRef == Here => \A m \in 1..NObs : SameAsRef(OpAt(m), Obs.rows[I][m], Expected(T, OpAt(m)))

Proj(ps) == [k \in 1..Len(ps) |-> ProjAt(T, ps[k])] \o <<>>
Q(c, en) == Res(I, <<"query", c, en>>)
D(w, o, self) == Res(I, <<"desc", w, o, self>>)
PosIn(s, x) == CHOOSE k \in 1..Len(s) : s[k] = x
\* (c) query('.*', enter_selected=True), the plain traversal and sym_descendants(include_self=True) see the same locations
ObsAgree == Here =>
  LET qall == Q(<<"rw", R_ALL, "any">>, TRUE)
      ev == Res(I, <<"trav", VisAll>>)[1]
      pre == PathsOf(PreOf(ev))
  IN /\ qall = pre
     /\ Rng(qall) = LocSet(T) /\ Len(qall) = Cardinality(LocSet(T))
     /\ Proj(qall) = D("any", "ALL", TRUE)
     /\ Tail(D("any", "ALL", TRUE)) = D("any", "ALL", FALSE)
     /\ Q(<<"rw", <<"nore">>, "any">>, FALSE) = <<<<>>>>
     /\ Len(ev) = 2 * Len(pre)
     /\ \A p \in Rng(pre) : PosIn(ev, <<"pre", p>>) < PosIn(ev, <<"post", p>>)
     /\ \A p \in Rng(pre), q \in Rng(pre) :
          IsStrictPrefix(p, q) => PosIn(ev, <<"pre", p>>) < PosIn(ev, <<"pre", q>>) /\ PosIn(ev, <<"post", q>>) < PosIn(ev, <<"post", p>>)
ObsQueryIsDesc == Here => \A k \in Ix(Wheres) :
  LET w == Wheres[k] IN
  /\ Proj(Q(<<"rw", <<"nore">>, w>>, TRUE)) = D(w, "ALL", TRUE)
  /\ Proj(Q(<<"rw", <<"nore">>, w>>, FALSE)) = D(w, "IMMEDIATE", TRUE)
NodePaths(s) == {s[k][2] : k \in {j \in 1..Len(s) : s[j][1] = "n"}}
ObsDescRel == Here => \A k \in Ix(Wheres), self \in BOOLEAN :
  LET w == Wheres[k]
      all == D(w, "ALL", self)
      imm == D(w, "IMMEDIATE", self)
      leaf == D(w, "LEAF", self)
      nodesOnly == w \in {"dict", "sym", "AB"}
      leavesOnly == w \in {"int", "str"}
  IN /\ Rng(leaf) \subseteq Rng(all) /\ Rng(imm) \subseteq Rng(all)
     /\ (all # <<>> => imm # <<>> /\ leaf # <<>>)
     /\ (leavesOnly => imm = all /\ leaf = all)
     /\ (nodesOnly => /\ NodePaths(imm) = Outermost(NodePaths(all)) /\ Len(imm) = Cardinality(NodePaths(imm))
                      /\ NodePaths(leaf) = Innermost(NodePaths(all)) /\ Len(leaf) = Cardinality(NodePaths(leaf)))
\* (a) a patch writes exactly where the query with the same condition selects, and nothing else changes
ObsPatchIsQuery == Here => \A k \in Ix(PatchConds) :
  LET c == PatchConds[k]
      q == Q(c, FALSE)
      p == Res(I, <<"patch", c, VF_KD, "default">>)
      d == Res(I, <<"rbdict", c, VF_KD>>)
  IN /\ PairPaths(d) = q
     /\ IF <<>> \in Rng(q) THEN p[1] = "KeyError" /\ p[2] = T
        ELSE IF Unparseable(Rng(q)) /\ AsCodedF1(p) THEN TRUE
        ELSE /\ p[1] = "ok"
             /\ p[2] = Subst(T, <<<<"true">>, VF_KD>>, Rng(q), <<>>)
             /\ Rng(p[3]) = KeptRef(T, Rng(q))
             /\ (q # <<>> => \E n \in 1..Len(p[4]) : p[4][n][1] = <<>> /\ Rng(p[4][n][2]) = Rng(q))
             /\ (q = <<>> => p[4] = <<>>)
\* notifications: nobody twice, never an ancestor before a descendant, nobody when skipped
ObsNotifOrder == Here => \A m \in 1..NObs :
  OpAt(m)[1] = "patch" =>
    LET nt == Obs.rows[I][m][4] IN
    /\ \A a \in 1..Len(nt), b \in 1..Len(nt) : a < b => nt[a][1] # nt[b][1] /\ ~IsStrictPrefix(nt[a][1], nt[b][1])
    /\ (~Notifies(OpAt(m)[4]) => nt = <<>>)
=============================================================================
