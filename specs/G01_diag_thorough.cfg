SPECIFICATION Spec
CONSTANTS
  Tier = "thorough"
  Mode = "observed"
  SameRule = "intended"
INVARIANT Diagnose
