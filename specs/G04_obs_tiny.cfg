SPECIFICATION Spec
CONSTANTS
  Tier = "tiny"
  Variant = "ref"
  MaxLevel = 0
  SimK = 0
INVARIANT ObsAgreesWithRef
INVARIANT ObsAgree
INVARIANT ObsQueryIsDesc
INVARIANT ObsDescRel
INVARIANT ObsPatchIsQuery
INVARIANT ObsNotifOrder
