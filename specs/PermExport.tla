----------------------------- MODULE PermExport -----------------------------
(* Exports the verdict table of Perm.tla for the conformance harness: every chain of at most     *)
(* FullDepth nodes with its verdict code (0 ALLOW, 1 REJECT, 2 EITHER) for ALL 256 permission      *)
(* subsets (index = CodePermission bit mask + 1), plus every Stride-th chain (a deterministic sample) of  *)
(* FullDepth + 1 nodes, plus the kind table itself (so that the harness can check its templates   *)
(* and the interpreter's ast module against it).  The design-level laws are checked on the way.   *)
EXTENDS Perm, SequencesExt, Json, IOUtils

CONSTANTS FullDepth, Stride, Stride2,   \* Stride = 0: no deeper sample
          HistLen                    \* length bound of the scope histories

PermTab == [i \in 1..256 |-> PermOf(i - 1)]
Row(c) == LET m == Must(c)
              a == Amb(c) IN
          [i \in 1..256 |-> IF ~(m \subseteq PermTab[i]) THEN 1 ELSE IF a \subseteq PermTab[i] THEN 0 ELSE 2]
Rec(c) == [c |-> c, v |-> Row(c)]
RowK(ks) == LET m == MustK(ks)
                a == AmbK(ks) IN
            [i \in 1..256 |-> IF ~(m \subseteq PermTab[i]) THEN 1 ELSE IF a \subseteq PermTab[i] THEN 0 ELSE 2]
ErrNames == SetToSeq(DOMAIN ErrProgs)
HistSeq  == SetToSeq(Histories(HistLen))
Full   == SetToSeq(AllChains(FullDepth))
\* deterministic sample of the chains one level deeper: every Stride-th chain of FullDepth nodes
\* is extended in all ways, and every Stride2-th of these is kept; the offset comes from --seed
Offset == IF Stride = 0 THEN 0 ELSE atoi(IOEnv.SAMPLE_OFFSET)
Every(sq, k, off) == [i \in 1..((Len(sq) - (off % k)) \div k) |-> sq[(i - 1) * k + (off % k) + 1]]
Deeper == IF Stride = 0 THEN <<>>
          ELSE LET base == Every(SetToSeq(Chains(FullDepth)), Stride, Offset)
                   ext  == SetToSeq(UNION {Ext(base[i]) : i \in 1..Len(base)})
                   smp  == Every(ext, Stride2, Offset)
                   \* kinds that only exist inside a function / loop body get all their positions covered
                   ctx  == UNION {Ext(c) : c \in {x \in Chains(FullDepth) : KindTab[x[Len(x)]].ctx # "any"}} IN
               smp \o SetToSeq(ctx \ {smp[i] : i \in 1..Len(smp)})
KindRec(k) == [kind |-> k, t |-> KindTab[k].t, must |-> KindTab[k].must, amb |-> SetToSeq(KindTab[k].amb),
               slots |-> KindTab[k].slots, ctx |-> KindTab[k].ctx]

ASSUME Monotone(1)
ASSUME AllAllows(FullDepth)
ASSUME EachFlagMatters
ASSUME DeepContainment(FullDepth)
ASSUME \A i \in 0..255 : MaskOf(PermOf(i)) = i
ASSUME MechanismRestores(HistLen)
ASSUME CombineNarrows
\* scope mask x argument mask -> the mask in force (index = mask + 1)
CombineTab == [p \in 1..256 |-> [q \in 1..256 |-> MaskOf(Combine(PermTab[p], PermTab[q]))]]
ASSUME \A n \in DOMAIN ErrProgs : ErrProgs[n] \subseteq Kinds
ASSUME JsonSerialize(IOEnv.OUT_FILE,
         [kinds |-> [i \in 1..Cardinality(Kinds) |-> KindRec(SetToSeq(Kinds)[i])],
          stmt_slots |-> SetToSeq(StmtSlots), store_slots |-> SetToSeq(StoreSlots),
          full |-> [i \in 1..Len(Full) |-> Rec(Full[i])],
          deeper |-> [i \in 1..Len(Deeper) |-> Rec(Deeper[i])],
          errprogs |-> [i \in 1..Len(ErrNames) |->
                          [name |-> ErrNames[i], kinds |-> SetToSeq(ErrProgs[ErrNames[i]]), v |-> RowK(ErrProgs[ErrNames[i]])]],
          combine |-> CombineTab,
          histories |-> [i \in 1..Len(HistSeq) |-> [h |-> HistSeq[i], eff |-> EffAfter(HistSeq[i])]]])
=============================================================================
