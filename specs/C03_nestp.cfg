SPECIFICATION Spec
CONSTANTS
  U = "quick"
  Kind = "nest"
  InitPartial = TRUE
  Mirror = FALSE
  MaxLevel = 3
  Small = TRUE
  Avoid = FALSE
  SimK = 0
  AccW = TRUE
  Acts = {"oset", "rebind", "nest", "ctor", "batch"}
CONSTRAINT LevelBound
VIEW view
INVARIANT Conforms
INVARIANT AltsConform
PROPERTY RejectedWriteNoStore
